//go:build verif

package main

import (
	"fmt"
	"go/ast"
	"go/parser"
	"go/token"
	"os"
	"path/filepath"
	"sort"
	"strings"
)

// lockset extractor: for every method of the analysed struct types, which of the type's mutexes are
// held at every read / write of every field.

type target struct {
	dir    string
	typ    string
	only   map[string]bool // restrict to these fields (nil = all non-mutex fields)
	prepub map[string]bool // methods that only run before the value is published
}

var targets = []target{
	{dir: "pkg/storage", typ: "PartitionLog", prepub: map[string]bool{"RestoreFromS3": true}},
	{dir: "pkg/storage", typ: "WriteBuffer"},
	{dir: "pkg/cache", typ: "SegmentCache"},
	{dir: "cmd/broker", typ: "handler", only: map[string]bool{"logs": true}},
}

type held map[string]int // mutex -> 2 exclusive, 1 shared

func (h held) clone() held {
	c := held{}
	for k, v := range h {
		c[k] = v
	}
	return c
}

func intersect(a, b held) held {
	c := held{}
	for k, v := range a {
		if w, ok := b[k]; ok {
			if w < v {
				v = w
			}
			c[k] = v
		}
	}
	return c
}

type accessRec struct {
	field string
	write bool
	fn    string
	line  int
	held  held
}

type callRec struct {
	callee string
	caller string
	held   held
}

type analysis struct {
	fset    *token.FileSet
	t       target
	mutexes map[string]bool
	fields  map[string]bool
	recv    string
	fn      string
	acc     []accessRec
	calls   []callRec
	methods map[string]bool
	// selfSync: fields whose value synchronises itself (another analysed type, an interface seam, sync/semaphore
	// primitives, callbacks); a method call through any other field counts as a write of that field
	selfSync map[string]bool
	// stores through shared elements (elemwrites.go); nil when the pass is off for this target
	pt    *pkgTypes
	ew    *elemWalker
	elems []elemRec
}

func (a *analysis) elemStores(s ast.Stmt, h held) {
	if a.ew == nil {
		return
	}
	for _, l := range a.ew.stores(s) {
		if el, ok := a.ew.sharedStore(l); ok {
			a.elems = append(a.elems, elemRec{elem: el, fn: a.fn, line: a.fset.Position(l.Pos()).Line, held: h.clone()})
		}
	}
}

func (a *analysis) fieldOf(e ast.Expr) (string, bool) {
	// the data field an lvalue/rvalue expression is rooted at: r.f, r.f[i], r.f.x, *r.f, r.f[i:j]
	switch v := e.(type) {
	case *ast.SelectorExpr:
		if id, ok := v.X.(*ast.Ident); ok && id.Name == a.recv {
			if a.fields[v.Sel.Name] {
				return v.Sel.Name, true
			}
			return "", false
		}
		return a.fieldOf(v.X)
	case *ast.IndexExpr:
		return a.fieldOf(v.X)
	case *ast.SliceExpr:
		return a.fieldOf(v.X)
	case *ast.StarExpr:
		return a.fieldOf(v.X)
	case *ast.ParenExpr:
		return a.fieldOf(v.X)
	}
	return "", false
}

func (a *analysis) record(field string, write bool, pos token.Pos, h held) {
	a.acc = append(a.acc, accessRec{field, write, a.fn, a.fset.Position(pos).Line, h.clone()})
}

// reads records every field read inside an expression; function literals are analysed with an
// empty lockset (they may run on another goroutine or later).
func (a *analysis) reads(n ast.Node, h held) {
	if n == nil {
		return
	}
	ast.Inspect(n, func(m ast.Node) bool {
		switch v := m.(type) {
		case *ast.FuncLit:
			a.stmts(v.Body.List, held{})
			return false
		case *ast.CallExpr:
			if sel, ok := v.Fun.(*ast.SelectorExpr); ok {
				if id, ok := sel.X.(*ast.Ident); ok && id.Name == a.recv && a.methods[sel.Sel.Name] {
					a.calls = append(a.calls, callRec{sel.Sel.Name, a.fn, h.clone()})
				}
				// r.f.Method(...) / r.f[i].Method(...): may mutate what f holds (container/list, maps of pointers …)
				if f, ok := a.fieldOf(sel.X); ok && !a.selfSync[f] {
					a.record(f, true, v.Pos(), h)
				}
			}
			if id, ok := v.Fun.(*ast.Ident); ok && id.Name == "delete" && len(v.Args) == 2 {
				if f, ok := a.fieldOf(v.Args[0]); ok {
					a.record(f, true, v.Pos(), h)
				}
			}
		case *ast.SelectorExpr:
			if id, ok := v.X.(*ast.Ident); ok && id.Name == a.recv && a.fields[v.Sel.Name] {
				a.record(v.Sel.Name, false, v.Pos(), h)
			}
		}
		return true
	})
}

func (a *analysis) lockOp(e ast.Expr) (mutex, op string, ok bool) {
	call, isCall := e.(*ast.CallExpr)
	if !isCall {
		return "", "", false
	}
	sel, isSel := call.Fun.(*ast.SelectorExpr)
	if !isSel {
		return "", "", false
	}
	inner, isSel2 := sel.X.(*ast.SelectorExpr)
	if !isSel2 {
		return "", "", false
	}
	id, isId := inner.X.(*ast.Ident)
	if !isId || id.Name != a.recv || !a.mutexes[inner.Sel.Name] {
		return "", "", false
	}
	switch sel.Sel.Name {
	case "Lock", "Unlock", "RLock", "RUnlock":
		return inner.Sel.Name, sel.Sel.Name, true
	}
	return "", "", false
}

func (a *analysis) stmts(list []ast.Stmt, h held) (held, bool) {
	for _, s := range list {
		var term bool
		h, term = a.stmt(s, h)
		if term {
			return h, true
		}
	}
	return h, false
}

func (a *analysis) stmt(s ast.Stmt, h held) (held, bool) {
	switch v := s.(type) {
	case nil:
		return h, false
	case *ast.ExprStmt:
		if m, op, ok := a.lockOp(v.X); ok {
			h = h.clone()
			switch op {
			case "Lock":
				h[m] = 2
			case "RLock":
				h[m] = 1
			default:
				delete(h, m)
			}
			return h, false
		}
		a.reads(v.X, h)
		if call, ok := v.X.(*ast.CallExpr); ok {
			if id, ok := call.Fun.(*ast.Ident); ok && id.Name == "panic" {
				return h, true
			}
		}
		return h, false
	case *ast.DeferStmt:
		if _, _, ok := a.lockOp(v.Call); ok {
			return h, false // deferred unlock: held until the function returns
		}
		if fl, ok := v.Call.Fun.(*ast.FuncLit); ok {
			a.stmts(fl.Body.List, held{})
			return h, false
		}
		a.reads(v.Call, held{})
		return h, false
	case *ast.GoStmt:
		if fl, ok := v.Call.Fun.(*ast.FuncLit); ok {
			for _, arg := range v.Call.Args {
				a.reads(arg, h)
			}
			a.stmts(fl.Body.List, held{})
			return h, false
		}
		a.reads(v.Call, held{})
		return h, false
	case *ast.AssignStmt:
		a.elemStores(v, h)
		for _, r := range v.Rhs {
			a.reads(r, h)
		}
		for _, l := range v.Lhs {
			if f, ok := a.fieldOf(l); ok {
				a.record(f, true, l.Pos(), h)
				// index / selector sub-expressions of the lvalue are reads
				switch lv := l.(type) {
				case *ast.IndexExpr:
					a.reads(lv.Index, h)
				}
			} else {
				a.reads(l, h)
			}
		}
		return h, false
	case *ast.IncDecStmt:
		a.elemStores(v, h)
		if f, ok := a.fieldOf(v.X); ok {
			a.record(f, true, v.Pos(), h)
		} else {
			a.reads(v.X, h)
		}
		return h, false
	case *ast.ReturnStmt:
		for _, r := range v.Results {
			a.reads(r, h)
		}
		return h, true
	case *ast.BlockStmt:
		return a.stmts(v.List, h)
	case *ast.IfStmt:
		h, _ = a.stmt(v.Init, h)
		a.reads(v.Cond, h)
		h1, t1 := a.stmts(v.Body.List, h.clone())
		h2, t2 := h, false
		if v.Else != nil {
			h2, t2 = a.stmt(v.Else, h.clone())
		}
		switch {
		case t1 && t2:
			return h, true
		case t1:
			return h2, false
		case t2:
			return h1, false
		}
		return intersect(h1, h2), false
	case *ast.ForStmt:
		h, _ = a.stmt(v.Init, h)
		a.reads(v.Cond, h)
		hb, tb := a.stmts(v.Body.List, h.clone())
		if v.Post != nil {
			a.stmt(v.Post, hb)
		}
		if tb {
			return h, false
		}
		return intersect(h, hb), false
	case *ast.RangeStmt:
		a.reads(v.X, h)
		hb, tb := a.stmts(v.Body.List, h.clone())
		if tb {
			return h, false
		}
		return intersect(h, hb), false
	case *ast.SwitchStmt:
		h, _ = a.stmt(v.Init, h)
		a.reads(v.Tag, h)
		return a.clauses(v.Body.List, h)
	case *ast.TypeSwitchStmt:
		h, _ = a.stmt(v.Init, h)
		a.stmt(v.Assign, h)
		return a.clauses(v.Body.List, h)
	case *ast.SelectStmt:
		return a.clauses(v.Body.List, h)
	case *ast.LabeledStmt:
		return a.stmt(v.Stmt, h)
	case *ast.DeclStmt:
		a.reads(v, h)
		return h, false
	case *ast.SendStmt:
		a.reads(v.Chan, h)
		a.reads(v.Value, h)
		return h, false
	case *ast.BranchStmt:
		return h, false
	default:
		a.reads(s, h)
		return h, false
	}
}

func (a *analysis) clauses(list []ast.Stmt, h held) (held, bool) {
	var out held
	first := true
	hasDefault := false
	for _, c := range list {
		var body []ast.Stmt
		switch cc := c.(type) {
		case *ast.CaseClause:
			for _, e := range cc.List {
				a.reads(e, h)
			}
			if cc.List == nil {
				hasDefault = true
			}
			body = cc.Body
		case *ast.CommClause:
			if cc.Comm == nil {
				hasDefault = true
			} else {
				a.stmt(cc.Comm, h)
			}
			body = cc.Body
		}
		hb, tb := a.stmts(body, h.clone())
		if tb {
			continue
		}
		if first {
			out, first = hb, false
		} else {
			out = intersect(out, hb)
		}
	}
	if !hasDefault {
		if first {
			out, first = h, false
		} else {
			out = intersect(out, h)
		}
	}
	if first {
		return h, true
	}
	return out, false
}

func heldStr(h held, min int) string {
	var ks []string
	for k, v := range h {
		if v >= min {
			ks = append(ks, k)
		}
	}
	sort.Strings(ks)
	if len(ks) == 0 {
		return "-"
	}
	return strings.Join(ks, ",")
}

func union(a, b held) held {
	c := a.clone()
	for k, v := range b {
		if v > c[k] {
			c[k] = v
		}
	}
	return c
}

func isExported(name string) bool { return name != "" && name[0] >= 'A' && name[0] <= 'Z' }

func parseDir(repo, dir string) (*token.FileSet, []*ast.File, error) {
	fset := token.NewFileSet()
	pkgs, err := parser.ParseDir(fset, filepath.Join(repo, dir), func(fi os.FileInfo) bool {
		return !strings.HasSuffix(fi.Name(), "_test.go") && !strings.HasPrefix(fi.Name(), "zz_verif")
	}, 0)
	if err != nil {
		return nil, nil, err
	}
	var files []*ast.File
	for _, p := range pkgs {
		for _, f := range p.Files {
			files = append(files, f)
		}
	}
	sort.Slice(files, func(i, j int) bool { return fset.Position(files[i].Pos()).Filename < fset.Position(files[j].Pos()).Filename })
	return fset, files, nil
}

// trackedIn: the analysed types of a directory whose contents take part in the shared-element pass
func trackedIn(dir string) []string {
	var out []string
	for _, t := range targets {
		if t.dir == dir && t.only == nil {
			out = append(out, t.typ)
		}
	}
	return out
}

func extractType(repo string, t target) error {
	fset, files, err := parseDir(repo, t.dir)
	if err != nil {
		return err
	}
	a := &analysis{fset: fset, t: t, mutexes: map[string]bool{}, fields: map[string]bool{}, methods: map[string]bool{}, selfSync: map[string]bool{}}
	ifaces := map[string]bool{}
	analysed := map[string]bool{}
	for _, tt := range targets {
		analysed[tt.typ] = true
	}
	if t.only == nil {
		a.pt = newPkgTypes(files, trackedIn(t.dir))
	}
	for _, f := range files {
		ast.Inspect(f, func(n ast.Node) bool {
			if ts, ok := n.(*ast.TypeSpec); ok {
				if _, ok := ts.Type.(*ast.InterfaceType); ok {
					ifaces[ts.Name.Name] = true
				}
			}
			return true
		})
	}
	selfSyncType := func(e ast.Expr) bool {
		if st, ok := e.(*ast.StarExpr); ok {
			e = st.X
		}
		switch v := e.(type) {
		case *ast.FuncType, *ast.InterfaceType:
			return true
		case *ast.Ident:
			return ifaces[v.Name] || analysed[v.Name]
		case *ast.SelectorExpr:
			if id, ok := v.X.(*ast.Ident); ok {
				switch id.Name {
				case "sync", "semaphore", "atomic", "slog", "singleflight":
					return true
				}
			}
			return analysed[v.Sel.Name]
		}
		return false
	}
	found := false
	for _, f := range files {
		ast.Inspect(f, func(n ast.Node) bool {
			ts, ok := n.(*ast.TypeSpec)
			if !ok || ts.Name.Name != t.typ {
				return true
			}
			st, ok := ts.Type.(*ast.StructType)
			if !ok {
				return true
			}
			found = true
			for _, fl := range st.Fields.List {
				isMutex := false
				if sel, ok := fl.Type.(*ast.SelectorExpr); ok {
					if id, ok := sel.X.(*ast.Ident); ok && id.Name == "sync" && (sel.Sel.Name == "Mutex" || sel.Sel.Name == "RWMutex") {
						isMutex = true
					}
				}
				for _, nm := range fl.Names {
					if isMutex {
						a.mutexes[nm.Name] = true
					} else if t.only == nil || t.only[nm.Name] {
						a.fields[nm.Name] = true
						if selfSyncType(fl.Type) {
							a.selfSync[nm.Name] = true
						}
					}
				}
			}
			return false
		})
	}
	if !found {
		return fmt.Errorf("type %s not found in %s", t.typ, t.dir)
	}
	var methods []*ast.FuncDecl
	for _, f := range files {
		for _, d := range f.Decls {
			fd, ok := d.(*ast.FuncDecl)
			if !ok || fd.Recv == nil || len(fd.Recv.List) != 1 || fd.Body == nil {
				continue
			}
			rt := fd.Recv.List[0].Type
			if st, ok := rt.(*ast.StarExpr); ok {
				rt = st.X
			}
			if id, ok := rt.(*ast.Ident); !ok || id.Name != t.typ {
				continue
			}
			methods = append(methods, fd)
			a.methods[fd.Name.Name] = true
		}
	}
	for _, fd := range methods {
		if len(fd.Recv.List[0].Names) == 0 {
			continue
		}
		a.recv = fd.Recv.List[0].Names[0].Name
		a.fn = fd.Name.Name
		if a.pt != nil {
			a.ew = newElemWalker(a.pt, fd)
		}
		a.stmts(fd.Body.List, held{})
	}
	// entry locks: what every in-package call site of an unexported method holds (greatest fixpoint)
	all := held{}
	for m := range a.mutexes {
		all[m] = 2
	}
	entry := map[string]held{}
	sites := map[string][]callRec{}
	for _, c := range a.calls {
		sites[c.callee] = append(sites[c.callee], c)
	}
	for m := range a.methods {
		if !isExported(m) && len(sites[m]) > 0 {
			entry[m] = all.clone()
		} else {
			entry[m] = held{}
		}
	}
	for changed := true; changed; {
		changed = false
		for m := range a.methods {
			if isExported(m) || len(sites[m]) == 0 {
				continue
			}
			var e held
			for i, c := range sites[m] {
				at := union(c.held, entry[c.caller])
				if i == 0 {
					e = at
				} else {
					e = intersect(e, at)
				}
			}
			if heldStr(e, 1) != heldStr(entry[m], 1) || heldStr(e, 2) != heldStr(entry[m], 2) {
				entry[m] = e
				changed = true
			}
		}
	}
	var ms []string
	for m := range a.mutexes {
		ms = append(ms, m)
	}
	sort.Strings(ms)
	for _, m := range ms {
		fmt.Printf("mutex %s %s\n", t.typ, m)
	}
	var fs []string
	for f := range a.fields {
		fs = append(fs, f)
	}
	sort.Strings(fs)
	for _, f := range fs {
		fmt.Printf("field %s %s\n", t.typ, f)
	}
	var mn []string
	for m := range a.methods {
		mn = append(mn, m)
	}
	sort.Strings(mn)
	for _, m := range mn {
		if len(entry[m]) > 0 {
			fmt.Printf("entry %s %s locks=%s rlocks=%s sites=%d\n", t.typ, m, heldStr(entry[m], 2), heldStr(entry[m], 1), len(sites[m]))
		}
	}
	for _, r := range a.acc {
		h := union(r.held, entry[r.fn])
		kind := "r"
		if r.write {
			kind = "w"
		}
		phase := "run"
		if t.prepub[r.fn] {
			phase = "prepub"
		}
		fmt.Printf("access %s %s %s %s %d locks=%s rlocks=%s phase=%s\n", t.typ, r.field, kind, r.fn, r.line, heldStr(h, 2), heldStr(h, 1), phase)
	}
	for _, r := range a.elems {
		h := union(r.held, entry[r.fn])
		phase := "run"
		if t.prepub[r.fn] {
			phase = "prepub"
		}
		fmt.Printf("elemwrite %s %s %s %d locks=%s rlocks=%s phase=%s\n", t.typ, r.elem, r.fn, r.line, heldStr(h, 2), heldStr(h, 1), phase)
	}
	return nil
}

// prepubSites checks every non-test call of a pre-publication method in the repo: the receiver must
// be a local variable freshly assigned from the constructor, not mentioned between construction and
// the call (so no other goroutine can hold a reference yet).
func prepubSites(repo, method, ctor string) (sites, bad int) {
	fset := token.NewFileSet()
	for _, top := range []string{"cmd", "pkg", "internal"} {
		_ = filepath.Walk(filepath.Join(repo, top), func(p string, fi os.FileInfo, err error) error {
			if err != nil || fi.IsDir() || !strings.HasSuffix(p, ".go") || strings.HasSuffix(p, "_test.go") || strings.HasPrefix(fi.Name(), "zz_verif") {
				return nil
			}
			f, err := parser.ParseFile(fset, p, nil, 0)
			if err != nil {
				return nil
			}
			ast.Inspect(f, func(n ast.Node) bool {
				blk, ok := n.(*ast.BlockStmt)
				if !ok {
					return true
				}
				for i, s := range blk.List {
					found := ""
					ast.Inspect(s, func(m ast.Node) bool {
						if _, isBlk := m.(*ast.BlockStmt); isBlk && m != ast.Node(s) {
							return false // nested blocks are visited on their own
						}
						if call, ok := m.(*ast.CallExpr); ok {
							if sel, ok := call.Fun.(*ast.SelectorExpr); ok && sel.Sel.Name == method {
								if id, ok := sel.X.(*ast.Ident); ok {
									found = id.Name
								} else {
									found = "?"
								}
							}
						}
						return true
					})
					if found == "" {
						continue
					}
					sites++
					ok := false
					if found != "?" {
						for j := i - 1; j >= 0; j-- {
							if as, isAs := blk.List[j].(*ast.AssignStmt); isAs && len(as.Lhs) >= 1 {
								if id, isId := as.Lhs[0].(*ast.Ident); isId && id.Name == found {
									if call, isCall := as.Rhs[0].(*ast.CallExpr); isCall {
										name := ""
										switch fn := call.Fun.(type) {
										case *ast.Ident:
											name = fn.Name
										case *ast.SelectorExpr:
											name = fn.Sel.Name
										}
										ok = name == ctor
									}
									break
								}
							}
							mention := false
							ast.Inspect(blk.List[j], func(m ast.Node) bool {
								if id, isId := m.(*ast.Ident); isId && id.Name == found {
									mention = true
								}
								return true
							})
							if mention {
								break
							}
						}
					}
					if !ok {
						bad++
						pos := fset.Position(s.Pos())
						fmt.Printf("prepubsite %s %s:%d BAD\n", method, filepath.Base(pos.Filename), pos.Line)
					} else {
						pos := fset.Position(s.Pos())
						fmt.Printf("prepubsite %s %s:%d ok\n", method, filepath.Base(pos.Filename), pos.Line)
					}
				}
				return true
			})
			return nil
		})
	}
	return
}

func extract(repo string) int {
	for _, t := range targets {
		if err := extractType(repo, t); err != nil {
			fmt.Println("error", err)
			return 1
		}
	}
	seenDir := map[string]bool{}
	for _, t := range targets {
		tr := trackedIn(t.dir)
		if seenDir[t.dir] || len(tr) == 0 {
			continue
		}
		seenDir[t.dir] = true
		fset, files, err := parseDir(repo, t.dir)
		if err != nil {
			fmt.Println("error", err)
			return 1
		}
		pt := newPkgTypes(files, tr)
		var names []string
		for n := range pt.ptrShared {
			names = append(names, n+":ptr")
		}
		for n := range pt.valShared {
			if !pt.ptrShared[n] {
				names = append(names, n+":val")
			}
		}
		sort.Strings(names)
		for _, n := range names {
			fmt.Printf("elemtype %s %s\n", t.dir, n)
		}
		trm := map[string]bool{}
		for _, n := range tr {
			trm[n] = true
		}
		for _, r := range freeFunctionStores(fset, files, pt, trm) {
			fmt.Printf("elemwrite - %s %s %d locks=- rlocks=- phase=run\n", r.elem, r.fn, r.line)
		}
	}
	sites, bad := prepubSites(repo, "RestoreFromS3", "NewPartitionLog")
	fmt.Printf("prepub RestoreFromS3 sites=%d bad=%d\n", sites, bad)
	fmt.Println("done")
	return 0
}
