//go:build verif

package main

// Writes through pointers / slices that are SHARED via a guarded container of an analysed type.
//
// The lockset table (extract.go) is about the fields of PartitionLog / WriteBuffer / SegmentCache themselves.  What those
// fields hold is shared too: `l.indexEntries[base]` is a []*IndexEntry that Read copies out under l.mu and then uses after
// the lock is released, so the *IndexEntry values (and the backing arrays of the slices) are shared by every reader.  They
// are safe only because nothing writes them after publication.  This pass lists every store that goes through such a shared
// element, with the lockset held at the store:
//
//	x.F = v / x.F++ / *x = v        x : *T,  T stored BY POINTER in a container field of an analysed type (ptrShared)
//	x[i] = v / x[i].F = v / ...     x : slice or map whose type mentions a ptrShared or by-value (valShared) element type
//	s.F[i] = v                      s : T or *T of such a type (bytes / sub-slices hanging off a shared element)
//
// unless the root variable of the lvalue is a fresh local (only ever assigned &T{}, T{}, new, make, nil, append(fresh…)).
// go/ast only: types are inferred syntactically (declared parameter / result / field types, := from calls of package
// functions and methods, index / range / selector / & / * propagation).  Unknown type => not reported.

import (
	"go/ast"
	"go/token"
)

type varInfo struct {
	typ   ast.Expr
	fresh bool
}

type pkgTypes struct {
	structs   map[string]*ast.StructType
	funcs     map[string]*ast.FuncType // free functions
	methods   map[string]*ast.FuncType // "T.m"
	ptrShared map[string]bool
	valShared map[string]bool
}

type elemRec struct {
	elem string
	fn   string
	line int
	held held
	expr string
}

func newPkgTypes(files []*ast.File, tracked []string) *pkgTypes {
	p := &pkgTypes{structs: map[string]*ast.StructType{}, funcs: map[string]*ast.FuncType{}, methods: map[string]*ast.FuncType{},
		ptrShared: map[string]bool{}, valShared: map[string]bool{}}
	for _, f := range files {
		for _, d := range f.Decls {
			switch v := d.(type) {
			case *ast.GenDecl:
				for _, s := range v.Specs {
					if ts, ok := s.(*ast.TypeSpec); ok {
						if st, ok := ts.Type.(*ast.StructType); ok {
							p.structs[ts.Name.Name] = st
						}
					}
				}
			case *ast.FuncDecl:
				if v.Recv == nil {
					p.funcs[v.Name.Name] = v.Type
				} else if len(v.Recv.List) == 1 {
					if n := structName(v.Recv.List[0].Type); n != "" {
						p.methods[n+"."+v.Name.Name] = v.Type
					}
				}
			}
		}
	}
	isTracked := map[string]bool{}
	for _, t := range targets {
		isTracked[t.typ] = true
	}
	// element types: struct types of this package that occur inside a slice / map / pointer / array in a field type of a
	// tracked struct (transitively through the element types' own fields)
	var visit func(t ast.Expr, inContainer, viaPtr bool)
	seen := map[string]bool{}
	visit = func(t ast.Expr, inContainer, viaPtr bool) {
		switch v := t.(type) {
		case *ast.StarExpr:
			visit(v.X, true, true)
		case *ast.ArrayType:
			visit(v.Elt, true, false)
		case *ast.MapType:
			visit(v.Value, true, false)
		case *ast.Ident:
			st, ok := p.structs[v.Name]
			if !ok || isTracked[v.Name] || !inContainer {
				return
			}
			if viaPtr {
				p.ptrShared[v.Name] = true
			} else {
				p.valShared[v.Name] = true
			}
			if seen[v.Name] {
				return
			}
			seen[v.Name] = true
			for _, fl := range st.Fields.List {
				visit(fl.Type, false, false)
			}
		}
	}
	for _, name := range tracked {
		if st, ok := p.structs[name]; ok {
			for _, fl := range st.Fields.List {
				visit(fl.Type, false, false)
			}
		}
	}
	return p
}

func structName(t ast.Expr) string {
	if s, ok := t.(*ast.StarExpr); ok {
		t = s.X
	}
	if p, ok := t.(*ast.ParenExpr); ok {
		return structName(p.X)
	}
	if id, ok := t.(*ast.Ident); ok {
		return id.Name
	}
	return ""
}

func (p *pkgTypes) shared(name string) bool { return p.ptrShared[name] || p.valShared[name] }

// mentions: the first shared element type a type expression mentions
func (p *pkgTypes) mentions(t ast.Expr) string {
	switch v := t.(type) {
	case *ast.StarExpr:
		return p.mentions(v.X)
	case *ast.ArrayType:
		return p.mentions(v.Elt)
	case *ast.MapType:
		return p.mentions(v.Value)
	case *ast.Ellipsis:
		return p.mentions(v.Elt)
	case *ast.ParenExpr:
		return p.mentions(v.X)
	case *ast.Ident:
		if p.shared(v.Name) {
			return v.Name
		}
	}
	return ""
}

func elemOf(t ast.Expr) ast.Expr {
	switch v := t.(type) {
	case *ast.ArrayType:
		return v.Elt
	case *ast.MapType:
		return v.Value
	case *ast.Ellipsis:
		return v.Elt
	case *ast.ParenExpr:
		return elemOf(v.X)
	}
	return nil
}

func isRefContainer(t ast.Expr) bool {
	switch v := t.(type) {
	case *ast.ArrayType:
		return v.Len == nil
	case *ast.MapType:
		return true
	case *ast.Ellipsis:
		return true
	case *ast.ParenExpr:
		return isRefContainer(v.X)
	}
	return false
}

type elemWalker struct {
	p   *pkgTypes
	env map[string]*varInfo
}

func (w *elemWalker) fieldType(t ast.Expr, name string) ast.Expr {
	st, ok := w.p.structs[structName(t)]
	if !ok {
		return nil
	}
	for _, fl := range st.Fields.List {
		for _, n := range fl.Names {
			if n.Name == name {
				return fl.Type
			}
		}
	}
	return nil
}

func resultType(ft *ast.FuncType, i int) ast.Expr {
	if ft == nil || ft.Results == nil {
		return nil
	}
	k := 0
	for _, fl := range ft.Results.List {
		n := len(fl.Names)
		if n == 0 {
			n = 1
		}
		if i < k+n {
			return fl.Type
		}
		k += n
	}
	return nil
}

func (w *elemWalker) callType(c *ast.CallExpr, i int) ast.Expr {
	switch fn := c.Fun.(type) {
	case *ast.Ident:
		switch fn.Name {
		case "new":
			if len(c.Args) == 1 {
				return &ast.StarExpr{X: c.Args[0]}
			}
		case "make":
			if len(c.Args) >= 1 {
				return c.Args[0]
			}
		case "append":
			if len(c.Args) >= 1 {
				return w.typeOf(c.Args[0])
			}
		}
		if ft, ok := w.p.funcs[fn.Name]; ok {
			return resultType(ft, i)
		}
	case *ast.SelectorExpr:
		if tx := w.typeOf(fn.X); tx != nil {
			if ft, ok := w.p.methods[structName(tx)+"."+fn.Sel.Name]; ok {
				return resultType(ft, i)
			}
		}
	}
	return nil
}

func (w *elemWalker) typeOf(e ast.Expr) ast.Expr {
	switch v := e.(type) {
	case *ast.Ident:
		if vi, ok := w.env[v.Name]; ok {
			return vi.typ
		}
	case *ast.ParenExpr:
		return w.typeOf(v.X)
	case *ast.SelectorExpr:
		if tx := w.typeOf(v.X); tx != nil {
			return w.fieldType(tx, v.Sel.Name)
		}
	case *ast.IndexExpr:
		return elemOf(w.typeOf(v.X))
	case *ast.SliceExpr:
		return w.typeOf(v.X)
	case *ast.StarExpr:
		if s, ok := w.typeOf(v.X).(*ast.StarExpr); ok {
			return s.X
		}
	case *ast.UnaryExpr:
		if v.Op == token.AND {
			if t := w.typeOf(v.X); t != nil {
				return &ast.StarExpr{X: t}
			}
		}
	case *ast.CompositeLit:
		return v.Type
	case *ast.CallExpr:
		return w.callType(v, 0)
	case *ast.TypeAssertExpr:
		return v.Type
	}
	return nil
}

func (w *elemWalker) isFresh(e ast.Expr) bool {
	switch v := e.(type) {
	case *ast.CompositeLit, *ast.BasicLit, *ast.FuncLit:
		return true
	case *ast.ParenExpr:
		return w.isFresh(v.X)
	case *ast.UnaryExpr:
		if v.Op == token.AND {
			_, ok := v.X.(*ast.CompositeLit)
			return ok
		}
	case *ast.SliceExpr:
		return w.isFresh(v.X)
	case *ast.Ident:
		if v.Name == "nil" {
			return true
		}
		if vi, ok := w.env[v.Name]; ok {
			return vi.fresh
		}
	case *ast.CallExpr:
		if id, ok := v.Fun.(*ast.Ident); ok {
			switch id.Name {
			case "new", "make":
				return true
			case "append":
				return len(v.Args) >= 1 && w.isFresh(v.Args[0])
			}
		}
	}
	return false
}

func (w *elemWalker) define(name string, t ast.Expr, fresh bool) {
	if name == "_" {
		return
	}
	if vi, ok := w.env[name]; ok {
		vi.fresh = vi.fresh && fresh
		if vi.typ == nil {
			vi.typ = t
		}
		return
	}
	w.env[name] = &varInfo{t, fresh}
}

func (w *elemWalker) fieldList(fl *ast.FieldList) {
	if fl == nil {
		return
	}
	for _, f := range fl.List {
		for _, n := range f.Names {
			w.define(n.Name, f.Type, false)
		}
	}
}

// newElemWalker builds the (flow-insensitive, per function) variable environment of a function declaration.
func newElemWalker(p *pkgTypes, fd *ast.FuncDecl) *elemWalker {
	w := &elemWalker{p: p, env: map[string]*varInfo{}}
	w.fieldList(fd.Recv)
	w.fieldList(fd.Type.Params)
	w.fieldList(fd.Type.Results)
	if fd.Body == nil {
		return w
	}
	// two rounds: a variable's type may depend on one defined later in source order (closures)
	for round := 0; round < 2; round++ {
		ast.Inspect(fd.Body, func(n ast.Node) bool {
			switch v := n.(type) {
			case *ast.FuncLit:
				w.fieldList(v.Type.Params)
				w.fieldList(v.Type.Results)
			case *ast.AssignStmt:
				for i, l := range v.Lhs {
					id, ok := l.(*ast.Ident)
					if !ok {
						continue
					}
					if len(v.Lhs) == len(v.Rhs) {
						w.define(id.Name, w.typeOf(v.Rhs[i]), w.isFresh(v.Rhs[i]))
					} else if len(v.Rhs) == 1 {
						switch r := v.Rhs[0].(type) {
						case *ast.CallExpr:
							w.define(id.Name, w.callType(r, i), false)
						default:
							if i == 0 {
								w.define(id.Name, w.typeOf(r), false)
							}
						}
					}
				}
			case *ast.RangeStmt:
				tx := w.typeOf(v.X)
				if id, ok := v.Value.(*ast.Ident); ok {
					w.define(id.Name, elemOf(tx), w.isFresh(v.X))
				}
				if id, ok := v.Key.(*ast.Ident); ok {
					if m, isMap := tx.(*ast.MapType); isMap {
						w.define(id.Name, m.Key, true)
					}
				}
			case *ast.ValueSpec:
				for i, n := range v.Names {
					switch {
					case i < len(v.Values):
						t := v.Type
						if t == nil {
							t = w.typeOf(v.Values[i])
						}
						w.define(n.Name, t, w.isFresh(v.Values[i]))
					default:
						w.define(n.Name, v.Type, true) // zero value
					}
				}
			}
			return true
		})
	}
	return w
}

// sharedStore: does the lvalue go through a shared element?  Returns the element type name.
func (w *elemWalker) sharedStore(lhs ast.Expr) (string, bool) {
	hit := ""
	cur := lhs
	for {
		switch v := cur.(type) {
		case *ast.ParenExpr:
			cur = v.X
			continue
		case *ast.SelectorExpr:
			if s, ok := w.typeOf(v.X).(*ast.StarExpr); ok {
				if n := structName(s.X); w.p.ptrShared[n] {
					hit = n
				}
			}
			cur = v.X
			continue
		case *ast.StarExpr:
			if s, ok := w.typeOf(v.X).(*ast.StarExpr); ok {
				if n := structName(s.X); w.p.ptrShared[n] {
					hit = n
				}
			}
			cur = v.X
			continue
		case *ast.IndexExpr:
			tb := w.typeOf(v.X)
			if tb != nil && isRefContainer(tb) {
				if n := w.p.mentions(tb); n != "" {
					hit = n
				} else if sel, ok := v.X.(*ast.SelectorExpr); ok {
					// s.F[i] where s is (a pointer to / a copy of) a shared element: F's backing array is shared
					if n := structName(w.typeOf(sel.X)); n != "" && w.p.shared(n) {
						hit = n
					}
				}
			}
			cur = v.X
			continue
		case *ast.SliceExpr:
			cur = v.X
			continue
		case *ast.Ident:
			if hit == "" {
				return "", false
			}
			if vi, ok := w.env[v.Name]; ok && vi.fresh {
				return "", false
			}
			return hit, true
		default: // call result, type assertion, …: not a fresh local
			return hit, hit != ""
		}
	}
}

func (w *elemWalker) stores(s ast.Stmt) []ast.Expr {
	switch v := s.(type) {
	case *ast.AssignStmt:
		var out []ast.Expr
		for _, l := range v.Lhs {
			if _, isId := l.(*ast.Ident); !isId {
				out = append(out, l)
			}
		}
		return out
	case *ast.IncDecStmt:
		if _, isId := v.X.(*ast.Ident); !isId {
			return []ast.Expr{v.X}
		}
	}
	return nil
}

// freeFunctionStores: functions and methods of the directory that are NOT methods of an analysed type run with whatever
// their callers hold; nothing is assumed, i.e. the lockset is empty.
func freeFunctionStores(fset *token.FileSet, files []*ast.File, p *pkgTypes, tracked map[string]bool) []elemRec {
	var out []elemRec
	for _, f := range files {
		for _, d := range f.Decls {
			fd, ok := d.(*ast.FuncDecl)
			if !ok || fd.Body == nil {
				continue
			}
			name := fd.Name.Name
			if fd.Recv != nil && len(fd.Recv.List) == 1 {
				rn := structName(fd.Recv.List[0].Type)
				if tracked[rn] {
					continue
				}
				name = rn + "." + name
			}
			w := newElemWalker(p, fd)
			ast.Inspect(fd.Body, func(n ast.Node) bool {
				if s, ok := n.(ast.Stmt); ok {
					for _, l := range w.stores(s) {
						if el, ok := w.sharedStore(l); ok {
							out = append(out, elemRec{elem: el, fn: name, line: fset.Position(l.Pos()).Line, held: held{}})
						}
					}
				}
				return true
			})
		}
	}
	return out
}
