//go:build verif

package storage

import (
	"bytes"
	"encoding/binary"
	"fmt"
	"time"
)

// VerifScanned is what the PITR scanner recovers of one record.
type VerifScanned struct {
	Offset    int64
	Timestamp int64
}

// VerifScanSegment walks the frames of a segment the way collectRecoverableBatches does and runs
// the real scanRecord over every record of every batch (recordCount iterations).
func VerifScanSegment(seg []byte) ([]VerifScanned, error) {
	if len(seg) < segmentHeaderLen+segmentFooterLen {
		return nil, fmt.Errorf("segment too small")
	}
	if string(seg[:4]) != segmentMagic {
		return nil, fmt.Errorf("invalid segment magic")
	}
	body := seg[segmentHeaderLen : len(seg)-segmentFooterLen]
	out := []VerifScanned{}
	for offset := 0; offset+batchFrameHeaderLen <= len(body); {
		batchLen := int(binary.BigEndian.Uint32(body[offset+8 : offset+12]))
		if batchLen <= 0 {
			break
		}
		frameLen := batchFrameHeaderLen + batchLen
		if offset+frameLen > len(body) {
			return nil, fmt.Errorf("record batch exceeds segment bounds")
		}
		batch := body[offset : offset+frameLen]
		if len(batch) < recordBatchHeaderLen {
			return nil, fmt.Errorf("record batch too small")
		}
		if compressionType(int16(binary.BigEndian.Uint16(batch[21:23]))) != 0 {
			return nil, fmt.Errorf("compressed")
		}
		base := int64(binary.BigEndian.Uint64(batch[0:8]))
		first := int64(binary.BigEndian.Uint64(batch[27:35]))
		count := int32(binary.BigEndian.Uint32(batch[57:61]))
		reader := bytes.NewReader(batch[recordBatchHeaderLen:])
		for i := int32(0); i < count; i++ {
			td, od, err := scanRecord(reader)
			if err != nil {
				return nil, err
			}
			out = append(out, VerifScanned{Offset: base + int64(od), Timestamp: first + td})
		}
		offset += frameLen
	}
	return out, nil
}

// VerifCollect exposes collectRecoverableBatches.
func VerifCollect(seg []byte, cutoffMs int64) ([]RecordBatch, error) {
	return collectRecoverableBatches(seg, cutoffMs)
}

// VerifParseIndexMeta exposes parseIndexMetadata.
func VerifParseIndexMeta(data []byte) (int32, []*IndexEntry, error) {
	return parseIndexMetadata(data)
}

// VerifParseFooter exposes parseSegmentFooter.
func VerifParseFooter(data []byte) (int64, error) { return parseSegmentFooter(data) }

// VerifPlan exposes buildRestorePlan.
func VerifPlan(seg, idx []byte, restoreMs, createdMs int64) (outSeg, outIdx []byte, base, last int64, keep bool, err error) {
	p, err := buildRestorePlan(seg, idx, time.UnixMilli(restoreMs).UTC(), time.UnixMilli(createdMs).UTC())
	if err != nil {
		return nil, nil, 0, 0, false, err
	}
	return p.segmentBytes, p.indexBytes, p.baseOffset, p.lastOffset, p.keep, nil
}
