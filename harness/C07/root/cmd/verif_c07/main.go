//go:build verif

// C07/C08/C34 root-module harness: drives the real segment writer (BuildSegment, IndexBuilder,
// PartitionLog flush path), ParseIndex and the PITR scanner with the op lines on stdin and prints
// one canonical line per op (same format as lean/KafVerif/Model/KafkaDriver.lean).
package main

import (
	"bufio"
	"bytes"
	"context"
	"encoding/binary"
	"encoding/hex"
	"fmt"
	"hash/crc32"
	"os"
	"runtime"
	"strconv"
	"strings"
	"time"

	"github.com/KafScale/platform/pkg/storage"
	"github.com/twmb/franz-go/pkg/kmsg"
)

func hx(b []byte) string {
	if b == nil {
		return "N"
	}
	if len(b) == 0 {
		return "-"
	}
	return hex.EncodeToString(b)
}

func unhx(s string) []byte {
	if s == "N" {
		return nil
	}
	if s == "-" {
		return []byte{}
	}
	b, err := hex.DecodeString(s)
	if err != nil {
		panic("bad hex")
	}
	return b
}

type tok struct {
	f []string
	i int
}

func (t *tok) next() string {
	if t.i >= len(t.f) {
		panic("short op")
	}
	s := t.f[t.i]
	t.i++
	return s
}
func (t *tok) int() int64 {
	v, err := strconv.ParseInt(t.next(), 10, 64)
	if err != nil {
		panic("bad int")
	}
	return v
}
func (t *tok) lit(s string) {
	if t.next() != s {
		panic("expected " + s)
	}
}

var castagnoli = crc32.MakeTable(crc32.Castagnoli)

// encodeBatch serialises one record batch with the franz-go codec (what a producer sends).
func encodeBatch(t *tok) []byte {
	t.lit("B")
	rb := kmsg.RecordBatch{
		FirstOffset: t.int(), Magic: 2, ProducerID: -1, ProducerEpoch: -1, FirstSequence: -1,
	}
	rb.FirstTimestamp = t.int()
	rb.MaxTimestamp = t.int()
	rb.LastOffsetDelta = int32(t.int())
	n := int(t.int())
	rb.NumRecords = int32(n)
	var recs []byte
	for i := 0; i < n; i++ {
		t.lit("R")
		r := kmsg.Record{}
		r.Attributes = int8(t.int())
		r.TimestampDelta64 = t.int()
		r.OffsetDelta = int32(t.int())
		r.Key = unhx(t.next())
		r.Value = unhx(t.next())
		nh := int(t.int())
		for j := 0; j < nh; j++ {
			k := unhx(t.next())
			v := unhx(t.next())
			r.Headers = append(r.Headers, kmsg.Header{Key: string(k), Value: v})
		}
		body := r.AppendTo(nil)
		// body starts with varint(Length=0) = one byte; the real length is what follows
		r.Length = int32(len(body) - 1)
		recs = r.AppendTo(recs)
	}
	rb.Records = recs
	raw := rb.AppendTo(nil)
	binary.BigEndian.PutUint32(raw[8:12], uint32(len(raw)-12))
	binary.BigEndian.PutUint32(raw[17:21], crc32.Checksum(raw[21:], castagnoli))
	return raw
}

func entriesStr(es []*storage.IndexEntry) string {
	var sb strings.Builder
	for i, e := range es {
		if i > 0 {
			sb.WriteByte(',')
		}
		fmt.Fprintf(&sb, "%d:%d", e.Offset, e.Position)
	}
	if len(es) == 0 {
		return "-"
	}
	return sb.String()
}

func doBuild(f []string) string {
	t := &tok{f: f, i: 1}
	interval := int32(t.int())
	created := t.int()
	nb := int(t.int())
	var batches []storage.RecordBatch
	var raws [][]byte
	for i := 0; i < nb; i++ {
		raw := encodeBatch(t)
		raws = append(raws, raw)
		b, err := storage.NewRecordBatchFromBytes(raw)
		if err != nil {
			return "err"
		}
		batches = append(batches, b)
	}
	art, err := storage.BuildSegment(storage.SegmentWriterConfig{IndexIntervalMessages: interval}, batches, time.UnixMilli(created))
	if err != nil {
		return "err"
	}
	// the broker path: PartitionLog.AppendBatch (patches the base offset) + Flush -> S3
	logRes := "skip"
	contiguous := true
	for i := 1; i < len(batches); i++ {
		if batches[i].BaseOffset != batches[i-1].BaseOffset+int64(batches[i-1].LastOffsetDelta)+1 {
			contiguous = false
		}
	}
	for _, b := range batches {
		if b.LastOffsetDelta < 0 {
			contiguous = false
		}
	}
	if contiguous {
		mem := storage.NewMemoryS3Client()
		pl := storage.NewPartitionLog("default", "t", 0, batches[0].BaseOffset, mem, nil, storage.PartitionLogConfig{
			Buffer:  storage.WriteBufferConfig{MaxBytes: 1 << 30, MaxMessages: 1 << 30, MaxBatches: 1 << 30, FlushInterval: time.Hour},
			Segment: storage.SegmentWriterConfig{IndexIntervalMessages: interval},
		}, nil, nil, nil)
		ok := true
		for _, raw := range raws {
			cp := append([]byte(nil), raw...)
			binary.BigEndian.PutUint64(cp[0:8], 0x7777) // the broker must overwrite whatever the client sent
			b, err := storage.NewRecordBatchFromBytes(cp)
			if err != nil {
				ok = false
				break
			}
			if _, err := pl.AppendBatch(context.Background(), b); err != nil {
				ok = false
			}
		}
		if ok {
			if err := pl.Flush(context.Background()); err != nil {
				ok = false
			}
		}
		logRes = "err"
		if ok {
			objs, _ := mem.ListSegments(context.Background(), "default/t/0/")
			if len(objs) == 1 {
				seg, err1 := mem.DownloadSegment(context.Background(), objs[0].Key, nil)
				idx, err2 := mem.DownloadIndex(context.Background(), strings.TrimSuffix(objs[0].Key, ".kfs")+".index")
				want := fmt.Sprintf("default/t/0/segment-%020d.kfs", batches[0].BaseOffset)
				if err1 == nil && err2 == nil && objs[0].Key == want && len(seg) == len(art.SegmentBytes) &&
					bytes.Equal(seg[:20], art.SegmentBytes[:20]) && bytes.Equal(seg[28:], art.SegmentBytes[28:]) &&
					bytes.Equal(idx, art.IndexBytes) {
					logRes = "same"
				} else {
					logRes = "diff"
				}
			} else {
				logRes = "diff"
			}
		}
	}
	return fmt.Sprintf("built base=%d last=%d count=%d entries=%s log=%s seg=%s idx=%s",
		art.BaseOffset, art.LastOffset, art.MessageCount, entriesStr(art.RelativeIndex), logRes, hx(art.SegmentBytes), hx(art.IndexBytes))
}

func batchesStr(bs []storage.RecordBatch) string {
	if len(bs) == 0 {
		return "-"
	}
	parts := make([]string, 0, len(bs))
	for _, b := range bs {
		parts = append(parts, fmt.Sprintf("%d:%d:%d:%s", b.BaseOffset, b.LastOffsetDelta, b.MessageCount, hx(b.Bytes)))
	}
	return strings.Join(parts, ",")
}

// measure runs the code under test and records the bytes it allocated (C34 monitor).
var lastAlloc uint64

func measure(fn func()) {
	var ms runtime.MemStats
	runtime.ReadMemStats(&ms)
	before := ms.TotalAlloc
	defer func() {
		runtime.ReadMemStats(&ms)
		lastAlloc = ms.TotalAlloc - before
	}()
	fn()
}

func doOp(f []string) string {
	switch f[0] {
	case "build":
		return doBuild(f)
	case "pidx":
		in := unhx(f[1])
		var iv int32
		var es []*storage.IndexEntry
		var err error
		measure(func() { iv, es, err = storage.VerifParseIndexMeta(in) })
		if err != nil {
			return "err"
		}
		return fmt.Sprintf("ok %d %s", iv, entriesStr(es))
	case "footer":
		last, err := storage.VerifParseFooter(unhx(f[1]))
		if err != nil {
			return "err"
		}
		return fmt.Sprintf("ok %d", last)
	case "scanrecs":
		in := unhx(f[1])
		var rs []storage.VerifScanned
		var err error
		measure(func() { rs, err = storage.VerifScanSegment(in) })
		if err != nil {
			return "err"
		}
		parts := make([]string, 0, len(rs))
		for _, r := range rs {
			parts = append(parts, fmt.Sprintf("%d:%d", r.Offset, r.Timestamp))
		}
		return strings.TrimSpace(fmt.Sprintf("ok %d %s", len(rs), strings.Join(parts, " ")))
	case "collect":
		cutoff, _ := strconv.ParseInt(f[1], 10, 64)
		in := unhx(f[2])
		var bs []storage.RecordBatch
		var err error
		measure(func() { bs, err = storage.VerifCollect(in, cutoff) })
		if err != nil {
			return "err"
		}
		return fmt.Sprintf("ok %d %s", len(bs), batchesStr(bs))
	case "plan":
		restore, _ := strconv.ParseInt(f[1], 10, 64)
		created, _ := strconv.ParseInt(f[2], 10, 64)
		in1, in2 := unhx(f[3]), unhx(f[4])
		var seg, idx []byte
		var base, last int64
		var keep bool
		var err error
		measure(func() { seg, idx, base, last, keep, err = storage.VerifPlan(in1, in2, restore, created) })
		if err != nil {
			return "err"
		}
		if !keep {
			return "ok keep=false"
		}
		return fmt.Sprintf("ok keep=true base=%d last=%d seg=%s idx=%s", base, last, hx(seg), hx(idx))
	}
	return "bad-op"
}

func safeOp(f []string) (res string) {
	defer func() {
		if r := recover(); r != nil {
			res = "panic"
		}
	}()
	return doOp(f)
}

func main() {
	w := bufio.NewWriterSize(os.Stdout, 1<<20)
	defer w.Flush()
	sc := bufio.NewScanner(os.Stdin)
	sc.Buffer(make([]byte, 1<<20), 1<<28)
	for sc.Scan() {
		f := strings.Fields(sc.Text())
		if len(f) == 0 || strings.HasPrefix(f[0], "#") {
			continue
		}
		lastAlloc = 0
		res := safeOp(f)
		fmt.Fprintf(w, "%s #alloc=%d\n", res, lastAlloc)
		w.Flush()
	}
}
