//go:build verif

// C07 harness for the skeleton processor: its decoder takes object keys only (it never reads
// the segment), so every `dec` op just calls Decode and reports what came back.
package main

import (
	"bufio"
	"context"
	"fmt"
	"os"
	"strings"

	"github.com/KafScale/platform/addons/processors/skeleton/internal/decoder"
)

func main() {
	w := bufio.NewWriterSize(os.Stdout, 1<<20)
	defer w.Flush()
	sc := bufio.NewScanner(os.Stdin)
	sc.Buffer(make([]byte, 1<<20), 1<<28)
	for sc.Scan() {
		f := strings.Fields(sc.Text())
		if len(f) == 0 || strings.HasPrefix(f[0], "#") {
			continue
		}
		if f[0] != "dec" {
			fmt.Fprintln(w, "bad-op #alloc=0")
			continue
		}
		res := func() (res string) {
			defer func() {
				if r := recover(); r != nil {
					res = "panic"
				}
			}()
			batches, err := decoder.New().Decode(context.Background(), "default/t/0/segment-00000000000000000000.kfs", "default/t/0/segment-00000000000000000000.index")
			if err != nil {
				return "err"
			}
			var sb strings.Builder
			fmt.Fprintf(&sb, "ok %d", len(batches))
			for _, b := range batches {
				fmt.Fprintf(&sb, " %d::%x", b.Offset, b.Payload)
			}
			return sb.String()
		}()
		fmt.Fprintf(w, "%s #alloc=0\n", res)
		w.Flush()
	}
}
