//go:build verif

package decoder

// C07, lower seam: the real s3Decoder (Decode -> getObject -> decodeSegment) over the chunking / faulting fake of
// the S3 GetObject API (harness/C07/iceberg/cmd/verif_c07s3).

// VerifNewS3Decoder builds the S3-backed decoder of New() over the given GetObject implementation.
func VerifNewS3Decoder(client getObjectAPI, bucket string) Decoder {
	return &s3Decoder{client: client, bucket: bucket}
}
