//go:build verif

package decoder

// VerifDecodeSegment exposes decodeSegment.
func VerifDecodeSegment(segment []byte) ([]Record, error) { return decodeSegment(segment, "t", 0) }

// VerifIndexEntry is one parsed index row.
type VerifIndexEntry struct {
	Offset   int64
	Position int32
}

// VerifParseIndex exposes parseIndex.
func VerifParseIndex(data []byte) ([]VerifIndexEntry, error) {
	es, err := parseIndex(data)
	if err != nil {
		return nil, err
	}
	out := make([]VerifIndexEntry, 0, len(es))
	for _, e := range es {
		out = append(out, VerifIndexEntry{e.Offset, e.Position})
	}
	return out, nil
}
