//go:build verif

// C07/C34 decoder harness for the iceberg processor: feeds the segment / index bytes of every op
// line to the real decoder and prints one canonical line per op.
package main

import (
	"bufio"
	"encoding/hex"
	"fmt"
	"os"
	"runtime"
	"strings"

	"github.com/KafScale/platform/addons/processors/iceberg-processor/internal/decoder"
)

func hx(b []byte) string {
	if b == nil {
		return "N"
	}
	if len(b) == 0 {
		return "-"
	}
	return hex.EncodeToString(b)
}

func unhx(s string) []byte {
	if s == "-" {
		return []byte{}
	}
	b, err := hex.DecodeString(s)
	if err != nil {
		panic("bad hex")
	}
	return b
}

var lastAlloc uint64

func measure(fn func()) {
	var ms runtime.MemStats
	runtime.ReadMemStats(&ms)
	before := ms.TotalAlloc
	defer func() {
		runtime.ReadMemStats(&ms)
		lastAlloc = ms.TotalAlloc - before
	}()
	fn()
}

func doOp(f []string) string {
	switch f[0] {
	case "dec":
		in := unhx(f[1])
		var recs []decoder.Record
		var err error
		measure(func() { recs, err = decoder.VerifDecodeSegment(in) })
		if err != nil {
			return "err"
		}
		var sb strings.Builder
		fmt.Fprintf(&sb, "ok %d", len(recs))
		for _, r := range recs {
			fmt.Fprintf(&sb, " %d:%d:%s:%s:", r.Offset, r.Timestamp, hx(r.Key), hx(r.Value))
			if len(r.Headers) == 0 {
				sb.WriteString("-")
			}
			for i, h := range r.Headers {
				if i > 0 {
					sb.WriteByte(',')
				}
				k := "-"
				if len(h.Key) > 0 {
					k = hex.EncodeToString([]byte(h.Key))
				}
				fmt.Fprintf(&sb, "%s=%s", k, hx(h.Value))
			}
		}
		return sb.String()
	case "didx":
		in := unhx(f[1])
		var es []decoder.VerifIndexEntry
		var err error
		measure(func() { es, err = decoder.VerifParseIndex(in) })
		if err != nil {
			return "err"
		}
		if len(es) == 0 {
			return "ok -"
		}
		parts := make([]string, 0, len(es))
		for _, e := range es {
			parts = append(parts, fmt.Sprintf("%d:%d", e.Offset, e.Position))
		}
		return "ok " + strings.Join(parts, ",")
	}
	return "bad-op"
}

func safeOp(f []string) (res string) {
	defer func() {
		if r := recover(); r != nil {
			res = "panic"
		}
	}()
	return doOp(f)
}

func main() {
	w := bufio.NewWriterSize(os.Stdout, 1<<20)
	defer w.Flush()
	sc := bufio.NewScanner(os.Stdin)
	sc.Buffer(make([]byte, 1<<20), 1<<28)
	for sc.Scan() {
		f := strings.Fields(sc.Text())
		if len(f) == 0 || strings.HasPrefix(f[0], "#") {
			continue
		}
		lastAlloc = 0
		res := safeOp(f)
		fmt.Fprintf(w, "%s #alloc=%d\n", res, lastAlloc)
		w.Flush()
	}
}
