//go:build verif

// C07, lower seam of the iceberg processor's decoder: the real s3Decoder.Decode (getObject + decodeSegment) over the
// chunking / faulting S3 fake (zz_verif_c07_s3chunks_fake.go).  One result line per op, in the format of the `dec` op
// of cmd/verif_c07:
//
//	s3dec <segment hex> <GET script>   the endpoint holds the segment; Decode fetches it with the scripted answer
//	                                   -> "ok <n> <records…>" | "err"   (+ " calls=…" after a "|")
package main

import (
	"bufio"
	"context"
	"encoding/hex"
	"fmt"
	"os"
	"strings"

	"github.com/KafScale/platform/addons/processors/iceberg-processor/internal/decoder"
)

func hx(b []byte) string {
	if b == nil {
		return "N"
	}
	if len(b) == 0 {
		return "-"
	}
	return hex.EncodeToString(b)
}

const segKey = "default/orders/0/segment-00000000000000000000.kfs"

func doOp(f []string) string {
	if f[0] != "s3dec" || len(f) != 3 {
		return "bad-op"
	}
	seg, err := hex.DecodeString(f[1])
	if err != nil {
		return "bad-op"
	}
	api := newS3Fake(true)
	api.objects[segKey] = seg
	api.script("GET", f[2])
	d := decoder.VerifNewS3Decoder(api, "bucket")
	recs, err := d.Decode(context.Background(), segKey, strings.TrimSuffix(segKey, ".kfs")+".index", "t", 0)
	if err != nil {
		return "err | calls=" + api.callLog()
	}
	var sb strings.Builder
	fmt.Fprintf(&sb, "ok %d", len(recs))
	for _, r := range recs {
		fmt.Fprintf(&sb, " %d:%d:%s:%s:", r.Offset, r.Timestamp, hx(r.Key), hx(r.Value))
		if len(r.Headers) == 0 {
			sb.WriteString("-")
		}
		for i, h := range r.Headers {
			if i > 0 {
				sb.WriteByte(',')
			}
			k := "-"
			if len(h.Key) > 0 {
				k = hex.EncodeToString([]byte(h.Key))
			}
			fmt.Fprintf(&sb, "%s=%s", k, hx(h.Value))
		}
	}
	return sb.String() + " | calls=" + api.callLog()
}

func safeOp(f []string) (res string) {
	defer func() {
		if r := recover(); r != nil {
			res = "panic"
		}
	}()
	return doOp(f)
}

func main() {
	w := bufio.NewWriterSize(os.Stdout, 1<<20)
	defer w.Flush()
	sc := bufio.NewScanner(os.Stdin)
	sc.Buffer(make([]byte, 1<<20), 1<<28)
	for sc.Scan() {
		f := strings.Fields(sc.Text())
		if len(f) == 0 || strings.HasPrefix(f[0], "#") {
			continue
		}
		fmt.Fprintln(w, safeOp(f))
		w.Flush()
	}
}
