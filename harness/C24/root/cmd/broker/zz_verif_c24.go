//go:build verif

package main

// C24 harness (VERIF_HARNESS=C24): real handler with ACLs from KAFSCALE_ACL_JSON, in-memory store, counting
// S3; one typed request per op from a named principal; full per-resource snapshots before/after; the real
// authorizer's verdict for the permission the property requires (given by the check) is reported per item.
//
//	new <autocreate 0|1> <acl json hex>
//	do <principal> <key> <need> <name,name,...>      need = action:resource[|action:resource]
//
// The principal and every name are percent-decoded (%XX), so that ids with '|', ':', '/', ' ', ',' … can be sent;
// names in the `changed=` list of the answer are percent-encoded the same way (plain names are unchanged).
// All `do` ops between two `new` lines go to the SAME handler (one broker, several principals).
// `srv` / `conn` / `cdo`: the same requests over connections of the real server loop, see zz_verif_c24_conn.go.

import (
	"bufio"
	"context"
	"encoding/binary"
	"encoding/hex"
	"fmt"
	"io"
	"log/slog"
	"os"
	"sort"
	"strconv"
	"strings"
	"sync"

	"github.com/KafScale/platform/pkg/acl"
	"github.com/KafScale/platform/pkg/metadata"
	"github.com/KafScale/platform/pkg/protocol"
	"github.com/KafScale/platform/pkg/storage"
	"github.com/twmb/franz-go/pkg/kmsg"
)

type verifC24S3 struct {
	*storage.MemoryS3Client
	mu      sync.Mutex
	uploads map[string]int // key -> count
}

func (s *verifC24S3) UploadSegment(ctx context.Context, key string, body []byte) error {
	s.mu.Lock()
	s.uploads[key]++
	s.mu.Unlock()
	return s.MemoryS3Client.UploadSegment(ctx, key, body)
}

type verifC24Env struct {
	h      *handler
	store  *metadata.InMemoryStore
	s3     *verifC24S3
	groups map[string]bool // every group named by a request of this session (their live state is snapshotted)
}

func verifC24Plain(c byte) bool {
	return c >= 'a' && c <= 'z' || c >= 'A' && c <= 'Z' || c >= '0' && c <= '9' || c == '-' || c == '_' || c == '.' || c == '*'
}

func verifC24Esc(s string) string {
	var sb strings.Builder
	for i := 0; i < len(s); i++ {
		if verifC24Plain(s[i]) {
			sb.WriteByte(s[i])
		} else {
			fmt.Fprintf(&sb, "%%%02X", s[i])
		}
	}
	return sb.String()
}

func verifC24Unesc(s string) string {
	var sb strings.Builder
	for i := 0; i < len(s); i++ {
		if s[i] == '%' && i+2 < len(s) {
			if b, err := hex.DecodeString(s[i+1 : i+3]); err == nil {
				sb.WriteByte(b[0])
				i += 2
				continue
			}
		}
		sb.WriteByte(s[i])
	}
	return sb.String()
}

// "topic:<name>" -> "topic:<escaped name>"
func verifC24EscKey(k string) string {
	if i := strings.IndexByte(k, ':'); i >= 0 {
		return k[:i+1] + verifC24Esc(k[i+1:])
	}
	return k
}

var verifC24Topics = []string{"orders", "t1", "t2", "secret"}
var verifC24Groups = []string{"g1", "g2"}

func verifC24New(autocreate string, aclJSON string) *verifC24Env {
	os.Setenv("KAFSCALE_ACL_ENABLED", "true")
	os.Setenv("KAFSCALE_ACL_JSON", aclJSON)
	if autocreate == "1" {
		os.Setenv("KAFSCALE_AUTO_CREATE_TOPICS", "true")
	} else {
		os.Setenv("KAFSCALE_AUTO_CREATE_TOPICS", "false")
	}
	brokerInfo := protocol.MetadataBroker{NodeID: 1, Host: "localhost", Port: 19092}
	store := metadata.NewInMemoryStore(metadataForBroker(brokerInfo))
	s3 := &verifC24S3{MemoryS3Client: storage.NewMemoryS3Client(), uploads: map[string]int{}}
	h := newHandler(store, s3, brokerInfo, slog.New(slog.NewTextHandler(io.Discard, nil)))
	verifC24Store = store
	env := &verifC24Env{h: h, store: store, s3: s3, groups: map[string]bool{}}
	for _, g := range verifC24Groups {
		env.groups[g] = true
	}
	return env
}

// snapshot: resource name -> canonical description of everything the property speaks about
func (e *verifC24Env) snapshot() map[string]string {
	ctx := context.Background()
	out := map[string]string{}
	meta, _ := e.store.Metadata(ctx, nil)
	for _, t := range meta.Topics {
		name := *t.Topic
		var sb strings.Builder
		fmt.Fprintf(&sb, "parts=%d", len(t.Partitions))
		for p := 0; p < len(t.Partitions) && p < 4; p++ {
			no, _ := e.store.NextOffset(ctx, name, int32(p))
			fmt.Fprintf(&sb, " off%d=%d", p, no)
		}
		if cfg, err := e.store.FetchTopicConfig(ctx, name); err == nil && cfg != nil {
			fmt.Fprintf(&sb, " cfg=%d/%d/%d", cfg.RetentionMs, cfg.RetentionBytes, cfg.SegmentBytes)
		}
		out["topic:"+name] = sb.String()
	}
	e.s3.mu.Lock()
	keys := make([]string, 0, len(e.s3.uploads))
	for k, n := range e.s3.uploads {
		keys = append(keys, fmt.Sprintf("%s#%d", k, n))
	}
	e.s3.mu.Unlock()
	sort.Strings(keys)
	for _, k := range keys {
		// S3 keys are <namespace>/<topic>/<partition>/...
		parts := strings.Split(k, "/")
		name := "?"
		if len(parts) > 1 {
			name = parts[1]
		}
		out["topic:"+name] += " s3=" + k
	}
	e.h.logMu.RLock()
	for tname, ps := range e.h.logs {
		for p, pl := range ps {
			out["topic:"+tname] += fmt.Sprintf(" buffered%d=%d", p, pl.BufferedHighWatermark())
		}
	}
	e.h.logMu.RUnlock()
	groups, _ := e.store.ListConsumerGroups(ctx)
	for _, g := range groups {
		out["group:"+g.GroupId] += fmt.Sprintf("stored(state=%s gen=%d members=%d)", g.State, g.GenerationId, len(g.Members))
	}
	dreq := kmsg.NewPtrDescribeGroupsRequest()
	for g := range e.groups {
		dreq.Groups = append(dreq.Groups, g)
	}
	sort.Strings(dreq.Groups)
	if dresp, err := e.h.coordinator.DescribeGroups(ctx, dreq); err == nil {
		for _, g := range dresp.Groups {
			out["group:"+g.Group] += fmt.Sprintf(" live(state=%s members=%d err=%d)", g.State, len(g.Members), g.ErrorCode)
		}
	}
	offs, _ := e.store.ListConsumerOffsets(ctx)
	// group names may contain any character: keep (group, text) apart instead of splitting a joined string
	type commit struct{ group, text string }
	var os_ []commit
	for _, o := range offs {
		os_ = append(os_, commit{o.Group, fmt.Sprintf("%s/%d=%d", o.Topic, o.Partition, o.Offset)})
	}
	sort.Slice(os_, func(i, j int) bool {
		if os_[i].group != os_[j].group {
			return os_[i].group < os_[j].group
		}
		return os_[i].text < os_[j].text
	})
	for _, o := range os_ {
		out["group:"+o.group] += " commit(" + o.text + ")"
	}
	return out
}

var verifC24Store *metadata.InMemoryStore

// the id the store knows the topic by (or the id the name would get, for topics that do not exist)
func verifC24TopicID(name string) [16]byte {
	if verifC24Store != nil {
		if meta, err := verifC24Store.Metadata(context.Background(), nil); err == nil {
			for _, t := range meta.Topics {
				if t.Topic != nil && *t.Topic == name {
					return t.TopicID
				}
			}
		}
	}
	return metadata.TopicIDForName(name)
}

func verifC24Batch() []byte {
	data := make([]byte, 70)
	binary.BigEndian.PutUint32(data[8:12], 58)
	data[16] = 2
	binary.BigEndian.PutUint32(data[57:61], 1)
	return data
}

type verifC24Result struct {
	codes []int16
	data  bool
}

// build the request for key over the named resources; returns (request, version, prefix for snapshot names)
func verifC24Request(key int16, names []string) (kmsg.Request, int16, string) {
	switch key {
	case 101: // Fetch v13 addressing topics by TopicID only
		r := kmsg.NewPtrFetchRequest()
		r.MaxWaitMillis = 0
		r.MaxBytes = 1 << 20
		for _, n := range names {
			t := kmsg.NewFetchRequestTopic()
			t.TopicID = verifC24TopicID(n)
			p := kmsg.NewFetchRequestTopicPartition()
			p.PartitionMaxBytes = 1 << 20
			t.Partitions = append(t.Partitions, p)
			r.Topics = append(r.Topics, t)
		}
		return r, 13, "topic:"
	case 103: // Metadata v12 addressing topics by TopicID only
		r := kmsg.NewPtrMetadataRequest()
		for _, n := range names {
			t := kmsg.NewMetadataRequestTopic()
			t.TopicID = verifC24TopicID(n)
			r.Topics = append(r.Topics, t)
		}
		return r, 12, "topic:"
	case 0:
		r := kmsg.NewPtrProduceRequest()
		r.Acks = -1
		r.TimeoutMillis = 1000
		for _, n := range names {
			t := kmsg.NewProduceRequestTopic()
			t.Topic = n
			p := kmsg.NewProduceRequestTopicPartition()
			p.Records = verifC24Batch()
			t.Partitions = append(t.Partitions, p)
			r.Topics = append(r.Topics, t)
		}
		return r, 9, "topic:"
	case 1:
		r := kmsg.NewPtrFetchRequest()
		r.MaxWaitMillis = 0
		r.MaxBytes = 1 << 20
		for _, n := range names {
			t := kmsg.NewFetchRequestTopic()
			t.Topic = n
			p := kmsg.NewFetchRequestTopicPartition()
			p.PartitionMaxBytes = 1 << 20
			t.Partitions = append(t.Partitions, p)
			r.Topics = append(r.Topics, t)
		}
		return r, 12, "topic:"
	case 2:
		r := kmsg.NewPtrListOffsetsRequest()
		for _, n := range names {
			t := kmsg.NewListOffsetsRequestTopic()
			t.Topic = n
			p := kmsg.NewListOffsetsRequestTopicPartition()
			p.Timestamp = -2 // earliest: goes through getPartitionLog (auto-create path)
			t.Partitions = append(t.Partitions, p)
			r.Topics = append(r.Topics, t)
		}
		return r, 4, "topic:"
	case 3:
		r := kmsg.NewPtrMetadataRequest()
		for _, n := range names {
			t := kmsg.NewMetadataRequestTopic()
			t.Topic = kmsg.StringPtr(n)
			r.Topics = append(r.Topics, t)
		}
		return r, 9, "topic:"
	case 8:
		r := kmsg.NewPtrOffsetCommitRequest()
		r.Group = names[0]
		r.Generation = -1
		t := kmsg.NewOffsetCommitRequestTopic()
		t.Topic = "orders"
		p := kmsg.NewOffsetCommitRequestTopicPartition()
		p.Offset = 5
		t.Partitions = append(t.Partitions, p)
		r.Topics = append(r.Topics, t)
		return r, 3, "group:"
	case 9:
		r := kmsg.NewPtrOffsetFetchRequest()
		r.Group = names[0]
		t := kmsg.NewOffsetFetchRequestTopic()
		t.Topic = "orders"
		t.Partitions = []int32{0}
		r.Topics = append(r.Topics, t)
		return r, 5, "group:"
	case 10:
		r := kmsg.NewPtrFindCoordinatorRequest()
		r.CoordinatorKey = names[0]
		return r, 3, "group:"
	case 11:
		r := kmsg.NewPtrJoinGroupRequest()
		r.Group = names[0]
		r.SessionTimeoutMillis = 30000
		r.RebalanceTimeoutMillis = 30000
		r.ProtocolType = "consumer"
		pr := kmsg.NewJoinGroupRequestProtocol()
		pr.Name = "range"
		pr.Metadata = []byte{0, 0, 0, 0, 0, 1, 0, 6, 'o', 'r', 'd', 'e', 'r', 's', 0, 0, 0, 0}
		r.Protocols = append(r.Protocols, pr)
		return r, 4, "group:"
	case 12:
		r := kmsg.NewPtrHeartbeatRequest()
		r.Group = names[0]
		r.MemberID = "m"
		return r, 4, "group:"
	case 13:
		r := kmsg.NewPtrLeaveGroupRequest()
		r.Group = names[0]
		m := kmsg.NewLeaveGroupRequestMember()
		m.MemberID = "m"
		r.Members = append(r.Members, m)
		return r, 4, "group:"
	case 14:
		r := kmsg.NewPtrSyncGroupRequest()
		r.Group = names[0]
		r.MemberID = "m"
		return r, 4, "group:"
	case 15:
		r := kmsg.NewPtrDescribeGroupsRequest()
		r.Groups = names
		return r, 5, "group:"
	case 16:
		return kmsg.NewPtrListGroupsRequest(), 4, "group:"
	case 18:
		return kmsg.NewPtrApiVersionsRequest(), 3, "none:"
	case 19:
		r := kmsg.NewPtrCreateTopicsRequest()
		for _, n := range names {
			t := kmsg.NewCreateTopicsRequestTopic()
			t.Topic = n
			t.NumPartitions = 1
			t.ReplicationFactor = 1
			r.Topics = append(r.Topics, t)
		}
		return r, 2, "topic:"
	case 20:
		r := kmsg.NewPtrDeleteTopicsRequest()
		r.TopicNames = names
		return r, 2, "topic:"
	case 23:
		r := kmsg.NewPtrOffsetForLeaderEpochRequest()
		r.ReplicaID = -1
		for _, n := range names {
			t := kmsg.NewOffsetForLeaderEpochRequestTopic()
			t.Topic = n
			p := kmsg.NewOffsetForLeaderEpochRequestTopicPartition()
			t.Partitions = append(t.Partitions, p)
			r.Topics = append(r.Topics, t)
		}
		return r, 3, "topic:"
	case 32:
		r := kmsg.NewPtrDescribeConfigsRequest()
		for _, n := range names {
			res := kmsg.NewDescribeConfigsRequestResource()
			res.ResourceType = kmsg.ConfigResourceTypeTopic
			res.ResourceName = n
			r.Resources = append(r.Resources, res)
		}
		return r, 4, "topic:"
	case 33:
		r := kmsg.NewPtrAlterConfigsRequest()
		for _, n := range names {
			res := kmsg.NewAlterConfigsRequestResource()
			res.ResourceType = kmsg.ConfigResourceTypeTopic
			res.ResourceName = n
			c := kmsg.NewAlterConfigsRequestResourceConfig()
			c.Name = "retention.ms"
			c.Value = kmsg.StringPtr("12345")
			res.Configs = append(res.Configs, c)
			r.Resources = append(r.Resources, res)
		}
		return r, 1, "topic:"
	case 37:
		r := kmsg.NewPtrCreatePartitionsRequest()
		for _, n := range names {
			t := kmsg.NewCreatePartitionsRequestTopic()
			t.Topic = n
			t.Count = 3
			r.Topics = append(r.Topics, t)
		}
		return r, 3, "topic:"
	case 42:
		r := kmsg.NewPtrDeleteGroupsRequest()
		r.Groups = names
		return r, 2, "group:"
	}
	return nil, 0, ""
}

// per-item codes of the reply, in request order
func verifC24Codes(key int16, ver int16, payload []byte, n int) verifC24Result {
	resp := kmsg.ResponseForKey(key)
	resp.SetVersion(ver)
	off := 4
	if resp.IsFlexible() && key != 18 {
		off = 5
	}
	res := verifC24Result{}
	if err := resp.ReadFrom(payload[off:]); err != nil {
		return verifC24Result{codes: []int16{-999}}
	}
	rep := func(c int16) {
		for i := 0; i < n; i++ {
			res.codes = append(res.codes, c)
		}
	}
	switch r := resp.(type) {
	case *kmsg.ProduceResponse:
		for _, t := range r.Topics {
			for _, p := range t.Partitions {
				res.codes = append(res.codes, p.ErrorCode)
			}
		}
	case *kmsg.FetchResponse:
		for _, t := range r.Topics {
			for _, p := range t.Partitions {
				res.codes = append(res.codes, p.ErrorCode)
				if len(p.RecordBatches) > 0 {
					res.data = true
				}
			}
		}
	case *kmsg.ListOffsetsResponse:
		for _, t := range r.Topics {
			for _, p := range t.Partitions {
				res.codes = append(res.codes, p.ErrorCode)
			}
		}
	case *kmsg.MetadataResponse:
		for _, t := range r.Topics {
			res.codes = append(res.codes, t.ErrorCode)
		}
	case *kmsg.OffsetCommitResponse:
		for _, t := range r.Topics {
			for _, p := range t.Partitions {
				res.codes = append(res.codes, p.ErrorCode)
			}
		}
	case *kmsg.OffsetFetchResponse:
		c := r.ErrorCode
		for _, t := range r.Topics {
			for _, p := range t.Partitions {
				if p.ErrorCode != 0 {
					c = p.ErrorCode
				}
				if p.Offset >= 0 {
					res.data = true // a committed offset is group data
				}
			}
		}
		rep(c)
	case *kmsg.FindCoordinatorResponse:
		rep(r.ErrorCode)
	case *kmsg.JoinGroupResponse:
		rep(r.ErrorCode)
	case *kmsg.HeartbeatResponse:
		rep(r.ErrorCode)
	case *kmsg.LeaveGroupResponse:
		rep(r.ErrorCode)
	case *kmsg.SyncGroupResponse:
		rep(r.ErrorCode)
	case *kmsg.DescribeGroupsResponse:
		for _, g := range r.Groups {
			res.codes = append(res.codes, g.ErrorCode)
		}
	case *kmsg.ListGroupsResponse:
		rep(r.ErrorCode)
		if len(r.Groups) > 0 {
			res.data = true
		}
	case *kmsg.ApiVersionsResponse:
		rep(r.ErrorCode)
	case *kmsg.CreateTopicsResponse:
		for _, t := range r.Topics {
			res.codes = append(res.codes, t.ErrorCode)
		}
	case *kmsg.DeleteTopicsResponse:
		for _, t := range r.Topics {
			res.codes = append(res.codes, t.ErrorCode)
		}
	case *kmsg.OffsetForLeaderEpochResponse:
		for _, t := range r.Topics {
			for _, p := range t.Partitions {
				res.codes = append(res.codes, p.ErrorCode)
			}
		}
	case *kmsg.DescribeConfigsResponse:
		for _, x := range r.Resources {
			res.codes = append(res.codes, x.ErrorCode)
			if len(x.Configs) > 0 {
				res.data = true
			}
		}
	case *kmsg.AlterConfigsResponse:
		for _, x := range r.Resources {
			res.codes = append(res.codes, x.ErrorCode)
		}
	case *kmsg.CreatePartitionsResponse:
		for _, t := range r.Topics {
			res.codes = append(res.codes, t.ErrorCode)
		}
	case *kmsg.DeleteGroupsResponse:
		for _, g := range r.Groups {
			res.codes = append(res.codes, g.ErrorCode)
		}
	}
	return res
}

func verifC24Do(e *verifC24Env, principal string, key int16, need string, names []string) (out string) {
	defer func() {
		if r := recover(); r != nil {
			out = fmt.Sprintf("panic %v", r)
		}
	}()
	ctx := context.Background()
	req, ver, prefix := verifC24Request(key, names)
	if req == nil {
		return "bad-key"
	}
	req.SetVersion(ver)
	// the real authorizer's verdict on the permission the property requires, per item
	allowed := make([]string, len(names))
	for i, n := range names {
		ok := need == "-"
		for _, alt := range strings.Split(need, "|") {
			ar := strings.Split(alt, ":")
			if len(ar) != 2 {
				continue
			}
			name := n
			if ar[1] == "cluster" {
				name = "cluster"
			}
			if e.h.authorizer.Allows(principal, acl.Action(ar[0]), acl.Resource(ar[1]), name) {
				ok = true
			}
		}
		allowed[i] = map[bool]string{true: "1", false: "0"}[ok]
	}
	exists := make([]string, len(names))
	if prefix == "group:" {
		for _, n := range names {
			if n != "*" {
				e.groups[n] = true
			}
		}
	}
	before := e.snapshot()
	for i, n := range names {
		_, ok := before[prefix+n]
		exists[i] = map[bool]string{true: "1", false: "0"}[ok && strings.HasPrefix(before[prefix+n], "parts=")]
	}
	cid := principal
	key = key % 100
	payload, err := e.h.Handle(ctx, &protocol.RequestHeader{APIKey: key, APIVersion: ver, CorrelationID: 1, ClientID: &cid}, req)
	after := e.snapshot()
	var changed []string
	seen := map[string]bool{}
	for k, v := range before {
		seen[k] = true
		if after[k] != v {
			changed = append(changed, k)
		}
	}
	for k := range after {
		if !seen[k] {
			changed = append(changed, k)
		}
	}
	for i := range changed {
		changed[i] = verifC24EscKey(changed[i])
	}
	sort.Strings(changed)
	if err != nil {
		return fmt.Sprintf("do error allowed=%s exists=%s changed=%s", strings.Join(allowed, ","), strings.Join(exists, ","), strings.Join(changed, ";"))
	}
	if payload == nil {
		return fmt.Sprintf("do noreply allowed=%s exists=%s changed=%s", strings.Join(allowed, ","), strings.Join(exists, ","), strings.Join(changed, ";"))
	}
	res := verifC24Codes(key, ver, payload, len(names))
	cs := make([]string, len(res.codes))
	for i, c := range res.codes {
		cs[i] = strconv.Itoa(int(c))
	}
	ch := "-"
	if len(changed) > 0 {
		ch = strings.Join(changed, ";")
	}
	return fmt.Sprintf("do codes=%s data=%v allowed=%s exists=%s changed=%s", strings.Join(cs, ","), res.data, strings.Join(allowed, ","), strings.Join(exists, ","), ch)
}

func init() {
	if os.Getenv("VERIF_HARNESS") != "C24" {
		return
	}
	w := bufio.NewWriter(os.Stdout)
	var env *verifC24Env
	sc := bufio.NewScanner(os.Stdin)
	sc.Buffer(make([]byte, 1<<20), 1<<24)
	for sc.Scan() {
		f := strings.Fields(sc.Text())
		if len(f) == 0 || strings.HasPrefix(f[0], "#") {
			continue
		}
		switch {
		case f[0] == "new" && len(f) == 3:
			js, err := hex.DecodeString(f[2])
			if err != nil {
				fmt.Fprintln(w, "bad-op")
				break
			}
			if verifC24Server != nil {
				verifC24Server.close()
				verifC24Server = nil
			}
			env = verifC24New(f[1], string(js))
			fmt.Fprintln(w, "new")
		case f[0] == "do" && len(f) == 5 && env != nil:
			k, _ := strconv.Atoi(f[2])
			names := strings.Split(f[4], ",")
			for i := range names {
				names[i] = verifC24Unesc(names[i])
			}
			fmt.Fprintln(w, verifC24Do(env, verifC24Unesc(f[1]), int16(k), f[3], names))
		// connection stream (zz_verif_c24_conn.go): the real broker.Server loop + the real buildConnContextFunc
		case f[0] == "srv" && len(f) == 3 && env != nil:
			fmt.Fprintln(w, verifC24Srvop(env, f[1], f[2]))
		case f[0] == "conn" && len(f) == 4 && env != nil:
			fmt.Fprintln(w, verifC24ConnOp(f[1], f[2], f[3]))
		case f[0] == "cdo" && len(f) == 7 && env != nil:
			k, _ := strconv.Atoi(f[4])
			names := strings.Split(f[6], ",")
			for i := range names {
				names[i] = verifC24Unesc(names[i])
			}
			fmt.Fprintln(w, verifC24Cdo(env, f[1], f[2], f[3], int16(k), f[5], names))
		default:
			fmt.Fprintln(w, "bad-op")
		}
		w.Flush()
	}
	os.Exit(0)
}
