//go:build verif

package main

// C24 connection stream: requests travel over CONNECTIONS served by the real broker.Server.handleConnection loop
// (pkg/broker, reached through C11's VerifServeConn) with the ConnContextFunc the real buildConnContextFunc returns for
// the configured KAFSCALE_PRINCIPAL_SOURCE / KAFSCALE_PROXY_PROTOCOL, so that the principal of every request is whatever
// principalFromContext derives from (that connection's ConnContext, that request's client.id).
//
//	srv <source> <proxy>                      =<escaped value> or ~ (variable unset); (re)builds the server of the current handler
//	conn <id> <remote addr> <prefix hex>      opens connection <id>: socket remote address =<escaped>, bytes sent first (PROXY header) or -
//	cdo <id> <client id> <as> <key> <need> <names>   client id: =<escaped> or ~ (null); <as> = =<escaped principal the check expects>
//	                                          (only used for the `allowed=` column: the real authorizer's verdict for that principal)
//
// Answers of cdo are those of `do` plus ` ctx=<principal>|<remote>|<proxy>` (escaped; the ConnContext attached to the
// connection as it is AFTER the request, `none` when the server attached none, `?` when the ConnContextFunc has not
// returned), or `do closed …` when the server closed the connection instead of answering.

import (
	"encoding/binary"
	"encoding/hex"
	"fmt"
	"io"
	"log"
	"log/slog"
	"net"
	"os"
	"sort"
	"strconv"
	"strings"
	"sync"
	"time"

	"github.com/KafScale/platform/pkg/acl"
	"github.com/KafScale/platform/pkg/broker"
	"github.com/KafScale/platform/pkg/protocol"
)

type verifC24Addr string

func (a verifC24Addr) Network() string { return "tcp" }
func (a verifC24Addr) String() string  { return string(a) }

// the accepted socket with the remote address the check chose
type verifC24RemoteConn struct {
	net.Conn
	remote verifC24Addr
}

func (c *verifC24RemoteConn) RemoteAddr() net.Addr { return c.remote }

type verifC24Client struct {
	conn net.Conn
	mu   sync.Mutex
	info *broker.ConnContext // what the real ConnContextFunc returned for this connection
	set  bool                // the ConnContextFunc has returned
	corr int32
}

type verifC24Srv struct {
	srv     *broker.Server
	ln      net.Listener
	clients map[string]*verifC24Client
	// server-side conn -> client record (filled before the server loop starts)
	bySrv sync.Map
}

var verifC24Server *verifC24Srv

func verifC24SetEnv(name, tok string) {
	if tok == "~" {
		os.Unsetenv(name)
		return
	}
	os.Setenv(name, verifC24Unesc(strings.TrimPrefix(tok, "=")))
}

func (s *verifC24Srv) close() {
	for _, c := range s.clients {
		_ = c.conn.Close()
	}
	if s.ln != nil {
		_ = s.ln.Close()
	}
}

func verifC24Srvop(e *verifC24Env, source, proxy string) string {
	if verifC24Server != nil {
		verifC24Server.close()
	}
	log.SetOutput(io.Discard)
	verifC24SetEnv("KAFSCALE_PRINCIPAL_SOURCE", source)
	verifC24SetEnv("KAFSCALE_PROXY_PROTOCOL", proxy)
	s := &verifC24Srv{clients: map[string]*verifC24Client{}}
	// exactly what main() does: ConnContextFunc: buildConnContextFunc(logger)
	real := buildConnContextFunc(slog.New(slog.NewTextHandler(io.Discard, nil)))
	s.srv = &broker.Server{Handler: e.h}
	if real != nil {
		s.srv.ConnContextFunc = func(conn net.Conn) (net.Conn, *broker.ConnContext, error) {
			wrapped, info, err := real(conn)
			if v, ok := s.bySrv.Load(conn); ok {
				c := v.(*verifC24Client)
				c.mu.Lock()
				c.info, c.set = info, true
				c.mu.Unlock()
			}
			return wrapped, info, err
		}
	}
	ln, err := net.Listen("tcp", "127.0.0.1:0")
	if err != nil {
		return "srv listen-failed"
	}
	s.ln = ln
	verifC24Server = s
	if real == nil {
		return "srv func=nil"
	}
	return "srv func=set"
}

func verifC24ConnOp(id, remote, prefixHex string) string {
	s := verifC24Server
	if s == nil {
		return "bad-op"
	}
	var prefix []byte
	if prefixHex != "-" {
		b, err := hex.DecodeString(prefixHex)
		if err != nil {
			return "bad-op"
		}
		prefix = b
	}
	cc, err := net.Dial("tcp", s.ln.Addr().String())
	if err != nil {
		return "conn dial-failed"
	}
	sc, err := s.ln.Accept()
	if err != nil {
		return "conn accept-failed"
	}
	if old, ok := s.clients[id]; ok {
		_ = old.conn.Close()
	}
	cl := &verifC24Client{conn: cc}
	s.clients[id] = cl
	srvConn := &verifC24RemoteConn{Conn: sc, remote: verifC24Addr(verifC24Unesc(strings.TrimPrefix(remote, "=")))}
	s.bySrv.Store(net.Conn(srvConn), cl)
	go broker.VerifServeConn(s.srv, srvConn) // Server.handleConnection
	if len(prefix) > 0 {
		if _, err := cc.Write(prefix); err != nil {
			return "conn write-failed"
		}
	}
	return "conn ok"
}

func verifC24CtxField(cl *verifC24Client, hasFunc bool) string {
	if !hasFunc {
		return "none"
	}
	cl.mu.Lock()
	defer cl.mu.Unlock()
	if !cl.set {
		return "?"
	}
	if cl.info == nil {
		return "none"
	}
	return verifC24Esc(cl.info.Principal) + "|" + verifC24Esc(cl.info.RemoteAddr) + "|" + verifC24Esc(cl.info.ProxyAddr)
}

func verifC24Cdo(e *verifC24Env, id, cidTok, asTok string, key int16, need string, names []string) (out string) {
	defer func() {
		if r := recover(); r != nil {
			out = fmt.Sprintf("panic %v", r)
		}
	}()
	s := verifC24Server
	if s == nil {
		return "bad-op"
	}
	cl, ok := s.clients[id]
	if !ok {
		return "bad-op"
	}
	req, ver, prefix := verifC24Request(key, names)
	if req == nil {
		return "bad-key"
	}
	req.SetVersion(ver)
	as := verifC24Unesc(strings.TrimPrefix(asTok, "="))
	allowed := make([]string, len(names))
	for i, n := range names {
		ok := need == "-"
		for _, alt := range strings.Split(need, "|") {
			ar := strings.Split(alt, ":")
			if len(ar) != 2 {
				continue
			}
			name := n
			if ar[1] == "cluster" {
				name = "cluster"
			}
			if e.h.authorizer.Allows(as, acl.Action(ar[0]), acl.Resource(ar[1]), name) {
				ok = true
			}
		}
		allowed[i] = map[bool]string{true: "1", false: "0"}[ok]
	}
	if prefix == "group:" {
		for _, n := range names {
			if n != "*" {
				e.groups[n] = true
			}
		}
	}
	before := e.snapshot()
	exists := make([]string, len(names))
	for i, n := range names {
		_, ok := before[prefix+n]
		exists[i] = map[bool]string{true: "1", false: "0"}[ok && strings.HasPrefix(before[prefix+n], "parts=")]
	}
	key = key % 100
	// request frame: header (api key, version, correlation id, nullable client id, tagged fields when flexible) + body
	cl.corr++
	var hdr []byte
	hdr = binary.BigEndian.AppendUint16(hdr, uint16(key))
	hdr = binary.BigEndian.AppendUint16(hdr, uint16(ver))
	hdr = binary.BigEndian.AppendUint32(hdr, uint32(cl.corr))
	if cidTok == "~" {
		hdr = binary.BigEndian.AppendUint16(hdr, 0xffff)
	} else {
		cid := verifC24Unesc(strings.TrimPrefix(cidTok, "="))
		hdr = binary.BigEndian.AppendUint16(hdr, uint16(len(cid)))
		hdr = append(hdr, cid...)
	}
	if req.IsFlexible() {
		hdr = append(hdr, 0)
	}
	frame := req.AppendTo(hdr)
	closed := false
	var payload []byte
	_ = cl.conn.SetDeadline(time.Now().Add(20 * time.Second))
	if err := protocol.WriteFrame(cl.conn, frame); err != nil {
		closed = true
	} else if fr, err := protocol.ReadFrame(cl.conn); err != nil {
		closed = true
	} else {
		payload = fr.Payload
	}
	after := e.snapshot()
	var changed []string
	seen := map[string]bool{}
	for k, v := range before {
		seen[k] = true
		if after[k] != v {
			changed = append(changed, k)
		}
	}
	for k := range after {
		if !seen[k] {
			changed = append(changed, k)
		}
	}
	for i := range changed {
		changed[i] = verifC24EscKey(changed[i])
	}
	sort.Strings(changed)
	ch := "-"
	if len(changed) > 0 {
		ch = strings.Join(changed, ";")
	}
	ctx := verifC24CtxField(cl, s.srv.ConnContextFunc != nil)
	if closed {
		return fmt.Sprintf("do closed allowed=%s exists=%s changed=%s ctx=%s", strings.Join(allowed, ","), strings.Join(exists, ","), ch, ctx)
	}
	if len(payload) >= 4 && int32(binary.BigEndian.Uint32(payload[:4])) != cl.corr {
		return fmt.Sprintf("do wrong-correlation allowed=%s exists=%s changed=%s ctx=%s", strings.Join(allowed, ","), strings.Join(exists, ","), ch, ctx)
	}
	res := verifC24Codes(key, ver, payload, len(names))
	cs := make([]string, len(res.codes))
	for i, c := range res.codes {
		cs[i] = strconv.Itoa(int(c))
	}
	return fmt.Sprintf("do codes=%s data=%v allowed=%s exists=%s changed=%s ctx=%s", strings.Join(cs, ","), res.data, strings.Join(allowed, ","), strings.Join(exists, ","), ch, ctx)
}
