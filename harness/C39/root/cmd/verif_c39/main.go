//go:build verif

// C39 correspondence harness: BuildClusterMetadata, defaultEtcdSnapshotBucket, sanitizeBucketName
// and (for the deployed-objects monitor) the broker StatefulSet / headless Service reconcilers.
package main

import (
	"bufio"
	"encoding/hex"
	"fmt"
	"os"
	"strconv"
	"strings"

	metav1 "k8s.io/apimachinery/pkg/apis/meta/v1"

	kafscalev1alpha1 "github.com/KafScale/platform/api/v1alpha1"
	"github.com/KafScale/platform/pkg/operator"
)

func unhex(s string) (string, bool) {
	if s == "-" {
		return "", true
	}
	b, err := hex.DecodeString(s)
	return string(b), err == nil
}

func hx(s string) string {
	if s == "" {
		return "-"
	}
	return hex.EncodeToString([]byte(s))
}

func optInt(s string) (*int32, bool) {
	if s == "nil" {
		return nil, true
	}
	n, err := strconv.ParseInt(s, 10, 32)
	if err != nil {
		return nil, false
	}
	v := int32(n)
	return &v, true
}

func ints(xs []int32) string {
	p := make([]string, len(xs))
	for i, x := range xs {
		p[i] = strconv.Itoa(int(x))
	}
	return strings.Join(p, ".")
}

func mkCluster(f []string) (*kafscalev1alpha1.KafscaleCluster, bool) {
	name, ok1 := unhex(f[0])
	ns, ok2 := unhex(f[1])
	rep, ok3 := optInt(f[2])
	host, ok4 := unhex(f[3])
	port, ok5 := optInt(f[4])
	if !(ok1 && ok2 && ok3 && ok4 && ok5) {
		return nil, false
	}
	c := &kafscalev1alpha1.KafscaleCluster{ObjectMeta: metav1.ObjectMeta{Name: name, Namespace: ns}}
	c.Spec.Brokers.Replicas = rep
	c.Spec.Brokers.AdvertisedHost = host
	c.Spec.Brokers.AdvertisedPort = port
	return c, true
}

func main() {
	w := bufio.NewWriter(os.Stdout)
	defer w.Flush()
	sc := bufio.NewScanner(os.Stdin)
	sc.Buffer(make([]byte, 1<<20), 1<<26)
	for sc.Scan() {
		f := strings.Fields(sc.Text())
		if len(f) == 0 || strings.HasPrefix(f[0], "#") {
			continue
		}
		out := func() (res string) {
			defer func() {
				if r := recover(); r != nil {
					res = "panic"
				}
			}()
			switch {
			case f[0] == "san" && len(f) == 2:
				raw, ok := unhex(f[1])
				if !ok {
					return "bad-op"
				}
				return "bucket " + hx(operator.VerifSanitizeBucketName(raw))
			case f[0] == "bk" && len(f) == 3:
				ns, ok1 := unhex(f[1])
				name, ok2 := unhex(f[2])
				if !ok1 || !ok2 {
					return "bad-op"
				}
				c := &kafscalev1alpha1.KafscaleCluster{ObjectMeta: metav1.ObjectMeta{Name: name, Namespace: ns}}
				return "bucket " + hx(operator.VerifDefaultEtcdSnapshotBucket(c))
			case f[0] == "md" && len(f) == 7:
				c, ok := mkCluster(f[1:6])
				if !ok {
					return "bad-op"
				}
				var topics []kafscalev1alpha1.KafscaleTopic
				if f[6] != "-" {
					for _, ts := range strings.Split(f[6], ",") {
						kv := strings.SplitN(ts, ":", 2)
						if len(kv) != 2 {
							return "bad-op"
						}
						tn, ok := unhex(kv[0])
						n, err := strconv.ParseInt(kv[1], 10, 32)
						if !ok || err != nil {
							return "bad-op"
						}
						t := kafscalev1alpha1.KafscaleTopic{ObjectMeta: metav1.ObjectMeta{Name: tn, Namespace: c.Namespace}}
						t.Spec.ClusterRef = c.Name
						t.Spec.Partitions = int32(n)
						topics = append(topics, t)
					}
				}
				md := operator.BuildClusterMetadata(c, topics)
				var b strings.Builder
				b.WriteString("ok ctrl=" + strconv.Itoa(int(md.ControllerID)) + " brokers=")
				for i, br := range md.Brokers {
					if i > 0 {
						b.WriteByte(',')
					}
					fmt.Fprintf(&b, "%d@%s:%d", br.NodeID, hx(br.Host), br.Port)
				}
				b.WriteString(" topics=")
				for i, t := range md.Topics {
					if i > 0 {
						b.WriteByte(',')
					}
					tn := ""
					if t.Topic != nil {
						tn = *t.Topic
					}
					b.WriteString(hx(tn) + "[")
					for j, p := range t.Partitions {
						if j > 0 {
							b.WriteByte(';')
						}
						fmt.Fprintf(&b, "%d/%d/%s/%s", p.Partition, p.Leader, ints(p.Replicas), ints(p.ISR))
					}
					b.WriteString("]")
				}
				return b.String()
			case f[0] == "dep" && len(f) == 6:
				c, ok := mkCluster(f[1:6])
				if !ok {
					return "bad-op"
				}
				sts, svc, rep, headless, env, err := operator.VerifDeployed(c)
				if err != nil {
					return "err"
				}
				return fmt.Sprintf("deployed sts=%s svc=%s replicas=%d headless=%s env=%s", hx(sts), hx(svc), rep, hx(headless), hx(env))
			}
			return "bad-op"
		}()
		fmt.Fprintln(w, out)
	}
}
