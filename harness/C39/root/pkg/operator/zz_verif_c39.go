//go:build verif

package operator

import (
	"context"

	appsv1 "k8s.io/api/apps/v1"
	autoscalingv2 "k8s.io/api/autoscaling/v2"
	corev1 "k8s.io/api/core/v1"
	"k8s.io/apimachinery/pkg/runtime"
	"k8s.io/apimachinery/pkg/types"
	"sigs.k8s.io/controller-runtime/pkg/client/fake"

	kafscalev1alpha1 "github.com/KafScale/platform/api/v1alpha1"
)

// VerifSanitizeBucketName exposes sanitizeBucketName to the C39 harness.
func VerifSanitizeBucketName(raw string) string { return sanitizeBucketName(raw) }

// VerifDefaultEtcdSnapshotBucket exposes defaultEtcdSnapshotBucket to the C39 harness.
func VerifDefaultEtcdSnapshotBucket(cluster *kafscalev1alpha1.KafscaleCluster) string {
	return defaultEtcdSnapshotBucket(cluster)
}

// VerifDeployed runs the broker StatefulSet and headless Service reconcilers against a fake
// API server and reports what was deployed: StatefulSet name, its governing service name,
// replica count, the name of the headless Service object that was created, and the value of the
// broker containers' KAFSCALE_BROKER_SERVICE environment variable ("" when absent).
func VerifDeployed(cluster *kafscalev1alpha1.KafscaleCluster) (stsName, stsService string, replicas int32, headless, serviceEnv string, err error) {
	scheme := runtime.NewScheme()
	for _, add := range []func(*runtime.Scheme) error{kafscalev1alpha1.AddToScheme, appsv1.AddToScheme, corev1.AddToScheme, autoscalingv2.AddToScheme} {
		if err = add(scheme); err != nil {
			return
		}
	}
	c := fake.NewClientBuilder().WithScheme(scheme).WithObjects(cluster).Build()
	r := &ClusterReconciler{Client: c, Scheme: scheme}
	ctx := context.Background()
	if err = r.reconcileBrokerHeadlessService(ctx, cluster); err != nil {
		return
	}
	if err = r.reconcileBrokerDeployment(ctx, cluster, []string{"http://etcd:2379"}); err != nil {
		return
	}
	var stsList appsv1.StatefulSetList
	if err = c.List(ctx, &stsList); err != nil {
		return
	}
	for _, s := range stsList.Items {
		stsName, stsService = s.Name, s.Spec.ServiceName
		if s.Spec.Replicas != nil {
			replicas = *s.Spec.Replicas
		}
		for _, ct := range s.Spec.Template.Spec.Containers {
			for _, e := range ct.Env {
				if e.Name == "KAFSCALE_BROKER_SERVICE" {
					serviceEnv = e.Value
				}
			}
		}
	}
	svc := &corev1.Service{}
	if err = c.Get(ctx, types.NamespacedName{Namespace: cluster.Namespace, Name: stsService}, svc); err != nil {
		return
	}
	if svc.Spec.ClusterIP == corev1.ClusterIPNone {
		headless = svc.Name
	}
	return
}
