"""C33 — processors deliver every record at least once before checkpointing."""
import json
import os
import subprocess

from checks import lib

PROPERTY = "C33"
LEAN_MODULES = ["KafVerif.Props.C33"]
OBLIGATIONS = [
    "KafVerif.C33.checkpoint_covered",
    "KafVerif.C33.checkpoint_covered_growing",
    "KafVerif.C33.coveredB_of_covered",
    "KafVerif.C33.clean_cycle_delivers",
    "KafVerif.C33.offset_zero_delivered",
    "KafVerif.C33.checkpoint_covered_stat_skip",
    "KafVerif.C33.clean_cycle_delivers_stat_skip",
    "KafVerif.C33.skip_le_loses_record",
    "KafVerif.C33.continue_loses_records",
    "KafVerif.C33.lfs_drop_loses_records",
    "KafVerif.C33.noop_drops_offset_zero",
]
BUILDS = {
    "sql": ("sql", "./internal/processor", ["C33"], {"test": True}),
    "iceberg": ("iceberg", "./internal/processor", ["C33"], {"test": True}),
    "skeleton": ("skeleton", "./cmd/verif_c33", ["C33"]),
}
TECHNIQUE = ("Lean 4 invariant proof over a model of the polling loop + Go/Lean differential correspondence through "
             "the real Processor.Run (virtual time via testing/synctest; skeleton on the real clock) + direct monitors")
LEVEL_TEXT = ("proof: checkpoint_covered — for every listing (offset order per partition), both checkpoint stores and every "
              "history of polling cycles with arbitrary listing/claim/load/decode/LFS/sink/commit failures and lease "
              "losses, every record at or below its partition's checkpoint is in the sink (induction over the history on "
              "a generalised loop invariant); checkpoint_covered_growing — the same when new segments complete between "
              "ticks (each listing extends the previous one per partition); clean_cycle_delivers / offset_zero_delivered — a failure-free cycle leaves "
              "every record of the leased partition, offset 0 included, in the sink; checkpoint_covered_stat_skip / "
              "clean_cycle_delivers_stat_skip — both still hold for a loop that skips the download of a segment whose listed "
              "MaxOffset is strictly below the next offset to deliver (refinement of the plain loop), and skip_le_loses_record — "
              "the off-by-one comparison loses a single-record segment. Three witness theorems show the code "
              "before fixes/C33-*.patch violates the property. The model is tied to the current source by running the "
              "same failure timelines through the three real Run loops and the model and diffing lease, records written "
              "and checkpoints after every tick, plus a monitor inside the fake CommitOffset.")
LEVEL_NOTE = ("Liveness is a one-cycle lemma (no fairness argument about how often failure-free cycles occur). A worker "
              "processes only the partition it holds the lease for (the repo's tests pin this); delivery of other "
              "partitions needs other workers and is not claimed. Schema validation (iceberg, lenient mode drops invalid "
              "records by design) is off; LFS modes other than resolve are not exercised. For the iceberg variant the real "
              "etcdStore (claim txn, renew, release, LoadOffset, CommitOffset) runs over an in-memory clientv3 KV/Lease; "
              "failures are injected in front of it (a CommitOffset that fails after its first Put is not modelled).")
ASSUMPTIONS = [
    "ListCompleted returns a partition's segments in offset order (discovery sorts by topic, partition, base offset); between ticks the listing only grows at the end of a partition (checkpoint_covered_growing), completed segments never disappear",
    "Decode returns the same records for the same segment on every successful call",
    "one worker; a second worker holding an expired lease concurrently is not modelled (it can only add duplicates or move the checkpoint backwards)",
    "time: every tick is an atomic step; a failing lease renewal is delivered between two ticks (the harness delays it by one virtual second)",
]
DEFAULT_SEED = 33

FAULTS = "nldsc"


def gen_case(rng, variant, ncycles, quiet=False):
    store = "noop" if rng.chance(1, 5) else "mem"
    if variant == "iceberg" and store == "mem" and rng.chance(1, 2):
        store = "etcd"      # the real etcdStore (etcd.go) over an in-memory clientv3 KV/Lease
    # sql: the listing carries MinOffset/MaxOffset statistics the way the real s3Lister fills them in
    # ("next": MaxOffset = next segment's base - 1, absent on the newest segment; "footer": first/last
    # record of the segment itself) or none at all
    stats = rng.choice(["", "next", "next", "footer"]) if variant == "sql" else ""
    # layout "singles": most segments hold exactly ONE record (at every position of the partition)
    singles = rng.chance(1, 3)
    ntp = rng.choice([1, 1, 2, 3])
    tps = sorted(rng.choice([0, 1, 2, 3, 5]) for _ in range(ntp))
    tps = sorted(set(tps))
    segs = []
    for tp in tps:
        nseg = rng.range(1, 4)
        o = 0 if rng.chance(4, 5) else rng.range(1, 40)
        for _ in range(nseg):
            n = rng.choice([0, 1, 1, 2, 3, 4]) if rng.chance(1, 6) else rng.range(1, 4)
            if singles and rng.chance(3, 4):
                n = 1
            offs = []
            for _ in range(n):
                offs.append(o)
                o += 1 if rng.chance(5, 6) else rng.range(2, 5)
            segs.append((tp, offs))
            if rng.chance(1, 10):
                o += rng.range(1, 3)
    if len(tps) > 1 and rng.chance(1, 4):
        # interleave partitions (each stays in offset order)
        a = [s for s in segs if s[0] == tps[0]]
        b = [s for s in segs if s[0] != tps[0]]
        segs = []
        while a or b:
            if a and (not b or rng.chance(1, 2)):
                segs.append(a.pop(0))
            else:
                segs.append(b.pop(0))
    lines = ["case %s %s" % (variant, store) + (" stats=" + stats if stats else "")]
    for tp, offs in segs:
        lines.append("seg %d %s" % (tp, ",".join(map(str, offs)) or "-"))
    nxt = {}
    for tp, offs in segs:
        if offs:
            nxt[tp] = max(nxt.get(tp, 0), offs[-1] + 1)
        else:
            nxt.setdefault(tp, 0)
    grow = (not quiet) and rng.chance(1, 3)
    for c in range(ncycles):
        if grow and c > 0 and rng.chance(1, 3):
            # a new segment of an existing partition completes (listed from this tick on)
            tp = rng.choice(sorted(nxt))
            o = nxt[tp] + (0 if rng.chance(4, 5) else rng.range(1, 3))
            offs = list(range(o, o + (1 if singles and rng.chance(3, 4) else rng.range(1, 3))))
            nxt[tp] = offs[-1] + 1
            segs.append((tp, offs))
            lines.append("seg %d %s" % (tp, ",".join(map(str, offs))))
        listfail = (not quiet) and rng.chance(1, 12)
        claim = "-"
        if not quiet and rng.chance(1, 5):
            claim = "".join("1" if rng.chance(1, 2) else "0" for _ in segs)
        fs = []
        for tp, offs in segs:
            if quiet or rng.chance(3, 5):
                fs.append("n")
            elif variant == "iceberg" and rng.chance(1, 3):
                bad = [o for o in offs if rng.chance(1, 3)] or offs[:1]
                fs.append("f" + "+".join(map(str, bad)) if bad else "n")
            else:
                fs.append(rng.choice(list("ldsc")))
        lines.append("cycle %d %s %s" % (1 if listfail else 0, claim, ",".join(fs)))
        if not quiet and rng.chance(1, 9):
            lines.append("lost")
    return lines


def parse_line(l):
    return dict(x.split("=", 1) for x in l.split()[1:] if "=" in x)


def monitor(case_lines, out_lines):
    """The property, evaluated on the implementation's trace.  Returns (fingerprint, what) or None."""
    script = iter([l for l in case_lines if l != "lost"])      # aligns 1:1 with the non-`lost` output lines
    segs = []
    sink = set()
    for o in out_lines:
        if o == "panic":
            return "processor-panic", "Processor.Run panicked"
        if o == "lost":
            continue
        src = next(script, None)
        if src is None:
            break
        if src.startswith("seg "):
            f = src.split()
            segs.append((int(f[1]), [int(x) for x in f[2].split(",")] if f[2] != "-" else []))
            continue
        if not o.startswith("cycle ") or not src.startswith("cycle "):
            continue
        kv = parse_line(o)
        oracle = src.split()
        if kv["wrote"] != "-":
            for w in kv["wrote"].split(","):
                tp, off = w.split(":")
                sink.add((int(tp), int(off)))
        if kv.get("early", "-") != "-":
            return ("checkpoint-past-unwritten-record",
                    "CommitOffset was called with an offset at or above records never handed to the sink: %s" % kv["early"])
        cp = {}
        if kv["cp"] != "-":
            for x in kv["cp"].split(","):
                tp, v = x.split("=")
                cp[int(tp)] = v
        for tp, offs in segs:
            v = cp.get(tp)
            if v is None or v == "err":
                continue
            for off in offs:
                if off <= int(v) and (tp, off) not in sink:
                    return ("checkpoint-past-unwritten-record",
                            "checkpoint of partition %d is %s but offset %d was never written" % (tp, v, off))
        if oracle[1] == "0" and all(f == "n" for f in oracle[3].split(",")) and kv["lease"] != "-":
            tp = int(kv["lease"])
            for t, offs in segs:
                for off in offs:
                    if t == tp and (tp, off) not in sink:
                        if off == 0:
                            return ("offset-zero-never-written",
                                    "a failure-free cycle with the lease on partition %d did not write offset 0" % tp)
                        return ("clean-cycle-missed-records",
                                "a failure-free cycle with the lease on partition %d left offset %d unwritten" % (tp, off))
    return None


def split_cases(lines):
    cases, cur = [], []
    for l in lines:
        if l == "end":
            cases.append(cur)
            cur = []
        else:
            cur.append(l)
    if cur:
        cases.append(cur)
    return cases


def lean_input(case_lines, impl_lines):
    """The model's op list: the scenario with `lost` where the implementation observed it."""
    it = iter([l for l in case_lines if l != "lost"])
    out = []
    for o in impl_lines:
        if o == "lost":
            out.append("lost")
        else:
            try:
                out.append(next(it))
            except StopIteration:
                break
    out.extend(it)
    return out


def run_virtual(ck, binary, cases, tag):
    fn, outp = ck.path("ops_%s.txt" % tag), ck.path("out_%s.txt" % tag)
    open(fn, "w").write("\n".join(l for c in cases for l in c) + "\n")
    if os.path.exists(outp):
        os.remove(outp)
    rc, out, err = ck.run_bin(binary, args=["-test.run", "^TestVerifC33$", "-test.timeout", "300s"],
                              env={"VERIF_C33_OPS": fn, "VERIF_C33_OUT": outp}, timeout=400)
    res = split_cases(open(outp).read().split("\n")[:-1]) if os.path.exists(outp) else []
    if rc != 0 or len(res) != len(cases):
        return res, "rc=%s cases=%d/%d %s" % (rc, len(res), len(cases), (out + err)[-1500:])
    return res, None


def strip_early(l):
    return " ".join(x for x in l.split() if not x.startswith("early="))


def compare(ck, name, cases, results, rerun=None):
    """Monitors + model correspondence for one variant.  Returns False when the correspondence broke."""
    model_in = []
    for c, r in zip(cases, results):
        model_in += lean_input(c, r)
    fn = ck.path("lean_%s.txt" % name)
    open(fn, "w").write("\n".join(model_in) + "\n")
    model = ck.lean_run("C33", fn)
    pos = 0
    ok = True
    for c, r in zip(cases, results):
        n = len(lean_input(c, r))
        mo = model[pos:pos + n]
        pos += n
        faults = sum(1 for l in c if l.startswith("cycle") for f in l.split()[3].split(",") if f != "n")
        commits = len(set(parse_line(l)["cp"] for l in r if l.startswith("cycle")))
        ck.count("%s_cases" % name)
        ck.count("faults_injected", faults)
        ck.count("lease_losses", sum(1 for l in r if l == "lost"))
        ck.count("cycles", sum(1 for l in r if l.startswith("cycle")))
        ck.case((name, tuple(c)), nontrivial=(faults > 0 and commits > 1),
                sample={"variant": name, "scenario": c[:8], "impl": r[:8]})
        ck.cov["traces_validated_against_impl"] += 1
        mon = monitor(c, r)
        if mon:
            fp, what = mon
            small = c
            seen = fp in [v["fingerprint"] for v in ck.violations] or fp in [h["fingerprint"] for h in ck.known_hits]
            if rerun is not None and not seen:
                first = next(i for i, l in enumerate(c) if l.startswith("cycle"))
                head, tail = c[:first], c[first:]
                small_tail = lib.ddmin(tail, lambda cand: _fails(rerun, head + cand, fp))
                small = head + small_tail
            ck.violation(fp, "%s processor: %s" % (name, what),
                         {"variant": name, "scenario": small, "impl": r if small is c else None,
                          "expected": "every record at or below the checkpoint is in the sink; a clean cycle delivers the partition"})
            continue
        io = [strip_early(l) for l in r]
        d = lib.first_diff(io, mo)
        if d is not None:
            ck.cov["disagreements_checked"] += 1
            if ok:
                ck.broke("correspondence model/implementation (%s Processor.Run)" % name,
                         "scenario:\n%s\nline %d\nimpl : %s\nmodel: %s" % (
                             "\n".join(c), d, io[d] if d < len(io) else None, mo[d] if d < len(mo) else None))
            ok = False
    return ok


def _fails(rerun, lines, fp):
    res = rerun([lines])
    if not res:
        return False
    m = monitor(lines, res[0])
    return m is not None and m[0] == fp


def corpus(variant):
    """Pinned regressions (the three defects replayed on the code before the fixes)."""
    out = [
        ["case %s mem" % variant, "seg 0 0,1", "seg 0 2,3", "cycle 0 - d,n", "cycle 0 - n,n", "cycle 0 - n,n"],
        ["case %s mem" % variant, "seg 0 0,1", "seg 0 2,3", "cycle 0 - s,n", "cycle 0 - n,n"],
        ["case %s mem" % variant, "seg 0 0,1", "seg 0 2,3", "cycle 0 - l,n", "cycle 0 - n,n"],
        ["case %s noop" % variant, "seg 0 0,1,2", "cycle 0 - n", "cycle 0 - n"],
        ["case %s mem" % variant, "seg 0 0,1", "seg 1 0", "seg 0 2,3", "cycle 0 100 n,n,n", "lost", "cycle 0 - c,n,n",
         "cycle 0 - n,n,n", "cycle 0 - n,n,n", "cycle 0 - n,n,n"],
    ]
    # single-record segments at every position (first record of the partition, middle, newest), a run of
    # them after a multi-record segment, with a gap, with a segment completing later; for sql with each kind
    # of listing statistics (a segment that holds exactly the one next record to deliver must be downloaded)
    singles = [
        ["seg 0 0", "seg 0 1", "seg 0 2", "cycle 0 - n,n,n", "cycle 0 - n,n,n"],
        ["seg 0 0", "seg 0 1,2", "seg 0 3", "seg 0 4,5", "cycle 0 - n,n,n,n", "cycle 0 - n,n,n,n"],
        ["seg 0 0,1", "seg 0 2", "seg 0 3", "seg 0 4", "cycle 0 - n,d,n,n", "cycle 0 - n,n,n,n", "cycle 0 - n,n,n,n"],
        ["seg 1 7", "seg 1 8", "seg 1 10", "seg 1 11,12", "cycle 0 - n,n,c,n", "cycle 0 - n,n,n,n"],
        ["seg 0 0", "seg 2 0", "seg 0 1", "seg 2 1", "cycle 0 - n,n,n,n", "lost", "cycle 0 10 n,n,n,n", "cycle 0 - n,n,n,n"],
        ["seg 0 0", "seg 0 1", "cycle 0 - n,n", "seg 0 2", "cycle 0 - n,n,n", "seg 0 3", "cycle 0 - n,n,n,n", "cycle 0 - n,n,n,n"],
        ["seg 0 0,1,2", "cycle 0 - n", "seg 0 3", "cycle 0 - n,s", "seg 0 4", "cycle 0 - n,n,n"],
    ]
    for st in (["", "next", "footer"] if variant == "sql" else [""]):
        for k, body in enumerate(singles):
            store = "noop" if (k == 1 and st != "next") else "mem"
            out.append(["case %s %s" % (variant, store) + (" stats=" + st if st else "")] + body)
    if variant == "iceberg":
        out.append(["case iceberg mem", "seg 0 0,1,2", "cycle 0 - f1", "cycle 0 - n"])
        out.append(["case iceberg mem", "seg 0 0,1,2", "seg 0 3", "cycle 0 - f0+2,n", "cycle 0 - n,n"])
    return out


def build_parallel(ck, names):
    """lib.build_all builds sequentially; the three modules are independent, so build them side by side
    (same lib.go_build, same overlay rules).  Returns {name: path} or None after recording the broken build."""
    import threading
    res = {}

    def one(n):
        b = BUILDS[n]
        kw = dict(b[3]) if len(b) > 3 else {}
        kw.setdefault("name", "h_" + n)
        res[n] = ck.go_build(b[0], b[1], b[2], **kw)
    ths = [threading.Thread(target=one, args=(n,)) for n in names]
    for t in ths:
        t.start()
    for t in ths:
        t.join()
    for n in names:
        out, log = res[n]
        if out is None:
            ck.broke("correspondence harness build %s (%s %s, overlay %s)" % (n, BUILDS[n][0], BUILDS[n][1], BUILDS[n][2]), log)
            return None
    return {n: res[n][0] for n in names}


def run(ck):
    bins = build_parallel(ck, ["skeleton", "sql", "iceberg"])
    if bins is None:
        return
    ck.log("harness binaries built")
    quick = ck.quick()
    ck.cov["rule"] = ("one case = one set of completed segments (1-3 partitions, 1-4 segments each, offsets from 0 or a "
                      "base, gaps and empty segments; in 1/3 of the cases most segments hold exactly one record; sql: the "
                      "listing carries MinOffset/MaxOffset statistics as the real lister computes them, or none) plus a timeline of polling cycles with per-segment failure oracles, "
                      "claim/list failures and lease losses, generated from VERIF_SEED; non-trivial when at least one "
                      "failure was injected and the checkpoint moved; distinct = distinct scenario texts")
    # skeleton: real clock, all cases concurrently, few ticks — start it first, collect it last
    nsk = 40 if quick else 200
    sk_cycles = 3 if quick else 6
    def trim(c):
        first = next(i for i, l in enumerate(c) if l.startswith("cycle"))
        head, tail = c[:first], c[first:]
        k, keep = 0, []
        for l in tail:
            if l == "lost" and quick:
                continue
            if l.startswith("cycle"):
                k += 1
                if k > sk_cycles:
                    break
            keep.append(l)
        while keep and not keep[-1].startswith("cycle"):
            keep.pop()
        return head + keep
    sk_cases = [trim(c) for c in (corpus("skeleton")[:4] + corpus("skeleton")[5:] if quick else corpus("skeleton"))]
    rs = ck.rng.fork()
    for _ in range(nsk):
        sk_cases.append(trim(gen_case(rs, "skeleton", sk_cycles)))
    sk_in = ck.path("ops_skeleton.txt")
    open(sk_in, "w").write("\n".join(l for c in sk_cases for l in c) + "\n")
    sk_proc = subprocess.Popen([bins["skeleton"]], stdin=open(sk_in), stdout=subprocess.PIPE, stderr=subprocess.PIPE,
                               env=lib.go_env(), text=True)
    all_ok = True
    try:
        for name in ("sql", "iceberg"):
            n = 150 if quick else 1500
            cases = corpus(name)
            r = ck.rng.fork()
            for i in range(n):
                cases.append(gen_case(r, name, r.range(4, 9) if quick else r.range(4, 16), quiet=(i % 10 == 9)))
            results, crash = run_virtual(ck, bins[name], cases, name)
            if crash:
                ck.broke("implementation harness (%s) did not answer every case" % name, crash)
                all_ok = False
                continue
            rerun = (lambda cs, b=bins[name], nm=name: run_virtual(ck, b, cs, nm + "_dd")[0])
            if not compare(ck, name, cases, results, rerun):
                all_ok = False
            ck.log("%s: %d cases compared" % (name, len(cases)))
    finally:
        try:
            out, err = sk_proc.communicate(timeout=120 if quick else 300)
        except subprocess.TimeoutExpired:
            sk_proc.kill()
            out, err = sk_proc.communicate()
    res = split_cases(out.split("\n")[:-1])
    if sk_proc.returncode != 0 or len(res) != len(sk_cases):
        ck.broke("implementation harness (skeleton) did not answer every case",
                 "rc=%s cases=%d/%d %s" % (sk_proc.returncode, len(res), len(sk_cases), err[-1500:]))
    else:
        compare(ck, "skeleton", sk_cases, res, None)


def replay(ck, path):
    rep = json.load(open(path))
    bins = ck.build_all()
    if bins is None:
        return
    name, lines = rep["variant"], rep["scenario"]
    if name == "skeleton":
        fn = ck.path("replay.txt")
        open(fn, "w").write("\n".join(lines) + "\n")
        rc, out, err = ck.run_bin(bins["skeleton"], stdin_path=fn, timeout=600)
        res = split_cases(out.split("\n")[:-1])
    else:
        res, crash = run_virtual(ck, bins[name], [lines], name + "_replay")
    r = res[0] if res else []
    for l in r:
        print("  " + l)
    ck.case((name, tuple(lines)), sample={"variant": name, "scenario": lines, "impl": r})
    ck.cov["distinct_nontrivial"] = max(ck.cov["distinct_nontrivial"], 2)
    mon = monitor(lines, r)
    if mon:
        ck.violation(mon[0], "%s processor: %s" % (name, mon[1]), {"variant": name, "scenario": lines, "impl": r})
