"""C33 — processors deliver every record at least once before checkpointing."""
import json
import os
import subprocess

from checks import lib

PROPERTY = "C33"
LEAN_MODULES = ["KafVerif.Props.C33", "KafVerif.Props.C33Pages"]
OBLIGATIONS = [
    "KafVerif.C33.checkpoint_covered",
    "KafVerif.C33.checkpoint_covered_growing",
    "KafVerif.C33.coveredB_of_covered",
    "KafVerif.C33.clean_cycle_delivers",
    "KafVerif.C33.offset_zero_delivered",
    "KafVerif.C33.checkpoint_covered_stat_skip",
    "KafVerif.C33.clean_cycle_delivers_stat_skip",
    "KafVerif.C33.skip_le_loses_record",
    "KafVerif.C33.fullListing_sorted",
    "KafVerif.C33.checkpoint_covered_listing",
    "KafVerif.C33.checkpoint_covered_listing_growing",
    "KafVerif.C33.clean_cycle_delivers_listing",
    "KafVerif.C33.checkpoint_covered_stale_listing",
    "KafVerif.C33.listManifest_prefix",
    "KafVerif.C33.probe_error_drops_middle_segment",
    "KafVerif.C33.probe_error_loss_is_permanent",
    "KafVerif.C33.unsorted_listing_loses_records",
    "KafVerif.C33.continue_loses_records",
    "KafVerif.C33.lfs_drop_loses_records",
    "KafVerif.C33.noop_drops_offset_zero",
    "KafVerif.C33.paged_listing_pairs_across_pages",
    "KafVerif.C33.paged_listing_independent_of_page_cuts",
    "KafVerif.C33.per_page_pairing_sublisting",
    "KafVerif.C33.paged_lister_is_complete_lister",
    "KafVerif.C33.per_page_pairing_drops_split_segment",
    "KafVerif.C33.download_ok_is_whole_object",
    "KafVerif.C33.download_cut_is_error",
    "KafVerif.C33.truncated_decode_loses_records",
]
BUILDS = {
    "sql": ("sql", "./internal/processor", ["C33"], {"test": True}),
    "iceberg": ("iceberg", "./internal/processor", ["C33"], {"test": True}),
    "skeleton": ("skeleton", "./cmd/verif_c33", ["C33"]),
}
TECHNIQUE = ("Lean 4 invariant proof over a model of the polling loop + Go/Lean differential correspondence through "
             "the real Processor.Run (virtual time via testing/synctest; skeleton on the real clock), fed by scripted listers "
             "and by the real iceberg/sql S3 and manifest listers over an in-process S3 endpoint with a per-request fault "
             "oracle, ListObjectsV2 pagination (small pages and S3's 1000-key pages behind filler keys) and GetObject bodies cut "
             "mid-transfer in front of the real sql s3Decoder + direct monitors")
LEVEL_TEXT = ("proof: checkpoint_covered — for every listing (offset order per partition), both checkpoint stores and every "
              "history of polling cycles with arbitrary listing/claim/load/decode/LFS/sink/commit failures and lease "
              "losses, every record at or below its partition's checkpoint is in the sink (induction over the history on "
              "a generalised loop invariant); checkpoint_covered_growing — the same when new segments complete between "
              "ticks (each listing extends the previous one per partition); clean_cycle_delivers / offset_zero_delivered — a failure-free cycle leaves "
              "every record of the leased partition, offset 0 included, in the sink; checkpoint_covered_stat_skip / "
              "clean_cycle_delivers_stat_skip — both still hold for a loop that skips the download of a segment whose listed "
              "MaxOffset is strictly below the next offset to deliver (refinement of the plain loop), and skip_le_loses_record — "
              "the off-by-one comparison loses a single-record segment. The lister is part of the model: ListCompleted "
              "over a bucket of .kfs/.index pairs with an S3 fault oracle answers an error (the tick is skipped) or the "
              "complete listing sorted by (partition, base offset); fullListing_sorted derives the offset order the loop "
              "needs from the sort and from unique keys / ordered segments in the bucket; checkpoint_covered_listing(_growing) "
              "and clean_cycle_delivers_listing restate safety and progress over ALL completed segments of the bucket, "
              "listed this tick or not; checkpoint_covered_stale_listing — the most general form: segments complete between "
              "ticks and every answered listing is any per-partition prefix of the complete one (a stale manifest, a cached "
              "listing), with listManifest_prefix for the sql manifest lister. Witnesses for the listers before the fixes: "
              "probe_error_drops_middle_segment / probe_error_loss_is_permanent (a footer probe that fails once drops a middle "
              "segment, the next one commits past it, no later tick ever writes it) and unsorted_listing_loses_records (a "
              "manifest in file order). Three more witness theorems show the loop "
              "before fixes/C33-*.patch violates the property. The model is tied to the current source by running the "
              "same failure timelines through the three real Run loops and the model and diffing lease, records written "
              "and checkpoints after every tick, plus a monitor inside the fake CommitOffset; a fifth of the timelines run the real "
              "s3Lister (iceberg, sql) and manifestLister (sql; fresh, unsorted and stale manifest.json, fallback) over an "
              "in-process S3 endpoint whose ListObjectsV2 / manifest GetObject / per-segment footer probe fail once on demand, "
              "and the listing each tick produced is diffed against the model's as well. The endpoint answers ListObjectsV2 in "
              "pages (1-7 keys per page, or S3's own 1000-key pages behind ~1000 filler keys, so that a page boundary falls "
              "between the .index and the .kfs key of a segment in the middle of a partition): paged_listing_pairs_across_pages / "
              "paged_listing_independent_of_page_cuts / paged_lister_is_complete_lister — the page walk pairs a segment exactly when "
              "both keys were listed on whichever pages, so the paged lister IS the lister of the theorems above for every page "
              "cut; per_page_pairing_drops_split_segment — witness for a lister that pairs per page. For sql a third of the "
              "real-lister timelines also run the REAL s3Decoder inside the loop over real segment objects, with downloads cut "
              "mid-body under a full Content-Length (download_ok_is_whole_object, download_cut_is_error; "
              "truncated_decode_loses_records — a Decode that answers the leading batches with a nil error loses the rest).")
LEVEL_NOTE = ("Liveness is a one-cycle lemma (no fairness argument about how often failure-free cycles occur). A worker "
              "processes only the partition it holds the lease for (the repo's tests pin this); delivery of other "
              "partitions needs other workers and is not claimed. Schema validation (iceberg, lenient mode drops invalid "
              "records by design) is off; LFS modes other than resolve are not exercised. For the iceberg variant the real "
              "etcdStore (claim txn, renew, release, LoadOffset, CommitOffset) runs over an in-memory clientv3 KV/Lease; "
              "failures are injected in front of it (a CommitOffset that fails after its first Put is not modelled). "
              "Listers: the skeleton has only a placeholder lister; the iceberg etcdLister (topic/partition filter from the "
              "metadata snapshot) and the sql cachedLister / time-index enrichment are not run (a cached or stale listing is "
              "covered by checkpoint_covered_stale_listing as a per-partition prefix); S3 faults are HTTP 403 answers (not "
              "retried by the SDK), a listed object that disappears before its probe (NoSuchKey, skipped by design) is not "
              "generated. The real s3Decoder runs in the loop for sql only (iceberg: scripted decoder; its S3 fetch is covered "
              "by C07's chunking fake); ListObjectsV2 page faults hit the first page request of the tick.")
ASSUMPTIONS = [
    "bucket: one .kfs/.index pair per (topic, partition, base offset) key, a segment's records are in offset order and a segment with a larger base offset holds larger offsets (BucketWF) — the offset order of ListCompleted's answer is then a theorem (fullListing_sorted) and is checked on the real listers; between ticks the bucket only grows at the end of a partition, completed segments never disappear; a listing that is not the complete one is a per-partition prefix of it (stale manifest, cache)",
    "Decode returns the same records for the same segment on every successful call",
    "one worker; a second worker holding an expired lease concurrently is not modelled (it can only add duplicates or move the checkpoint backwards)",
    "time: every tick is an atomic step; a failing lease renewal is delivered between two ticks (the harness delays it by one virtual second)",
]
DEFAULT_SEED = 33

FAULTS = "nldsc"


def gen_case(rng, variant, ncycles, quiet=False):
    store = "noop" if rng.chance(1, 5) else "mem"
    if variant == "iceberg" and store == "mem" and rng.chance(1, 2):
        store = "etcd"      # the real etcdStore (etcd.go) over an in-memory clientv3 KV/Lease
    # sql: the listing carries MinOffset/MaxOffset statistics the way the real s3Lister fills them in
    # ("next": MaxOffset = next segment's base - 1, absent on the newest segment; "footer": first/last
    # record of the segment itself) or none at all
    stats = rng.choice(["", "next", "next", "footer"]) if variant == "sql" else ""
    # layout "singles": most segments hold exactly ONE record (at every position of the partition)
    singles = rng.chance(1, 3)
    ntp = rng.choice([1, 1, 2, 3])
    tps = sorted(rng.choice([0, 1, 2, 3, 5]) for _ in range(ntp))
    tps = sorted(set(tps))
    segs = []
    for tp in tps:
        nseg = rng.range(1, 4)
        o = 0 if rng.chance(4, 5) else rng.range(1, 40)
        for _ in range(nseg):
            n = rng.choice([0, 1, 1, 2, 3, 4]) if rng.chance(1, 6) else rng.range(1, 4)
            if singles and rng.chance(3, 4):
                n = 1
            offs = []
            for _ in range(n):
                offs.append(o)
                o += 1 if rng.chance(5, 6) else rng.range(2, 5)
            segs.append((tp, offs))
            if rng.chance(1, 10):
                o += rng.range(1, 3)
    if len(tps) > 1 and rng.chance(1, 4):
        # interleave partitions (each stays in offset order)
        a = [s for s in segs if s[0] == tps[0]]
        b = [s for s in segs if s[0] != tps[0]]
        segs = []
        while a or b:
            if a and (not b or rng.chance(1, 2)):
                segs.append(a.pop(0))
            else:
                segs.append(b.pop(0))
    lines = ["case %s %s" % (variant, store) + (" stats=" + stats if stats else "")]
    for tp, offs in segs:
        lines.append("seg %d %s" % (tp, ",".join(map(str, offs)) or "-"))
    nxt = {}
    for tp, offs in segs:
        if offs:
            nxt[tp] = max(nxt.get(tp, 0), offs[-1] + 1)
        else:
            nxt.setdefault(tp, 0)
    grow = (not quiet) and rng.chance(1, 3)
    for c in range(ncycles):
        if grow and c > 0 and rng.chance(1, 3):
            # a new segment of an existing partition completes (listed from this tick on)
            tp = rng.choice(sorted(nxt))
            o = nxt[tp] + (0 if rng.chance(4, 5) else rng.range(1, 3))
            offs = list(range(o, o + (1 if singles and rng.chance(3, 4) else rng.range(1, 3))))
            nxt[tp] = offs[-1] + 1
            segs.append((tp, offs))
            lines.append("seg %d %s" % (tp, ",".join(map(str, offs))))
        listfail = (not quiet) and rng.chance(1, 12)
        claim = "-"
        if not quiet and rng.chance(1, 5):
            claim = "".join("1" if rng.chance(1, 2) else "0" for _ in segs)
        fs = []
        for tp, offs in segs:
            if quiet or rng.chance(3, 5):
                fs.append("n")
            elif variant == "iceberg" and rng.chance(1, 3):
                bad = [o for o in offs if rng.chance(1, 3)] or offs[:1]
                fs.append("f" + "+".join(map(str, bad)) if bad else "n")
            else:
                fs.append(rng.choice(list("ldsc")))
        lines.append("cycle %d %s %s" % (1 if listfail else 0, claim, ",".join(fs)))
        if not quiet and rng.chance(1, 9):
            lines.append("lost")
    return lines


def gen_lister_case(rng, variant, ncycles):
    """A case whose listing comes from the REAL lister of the module (iceberg/sql `s3Lister`, sql
    `manifestLister` with the s3Lister as fallback) over an in-process S3 endpoint.  The `seg` lines are the
    bucket's completed segments (in `manifest` mode also the order of the manifest entries, so half of the
    cases shuffle them); a cycle's 5th field names the S3 requests of that tick's ListCompleted that fail
    once: L = ListObjectsV2, m = GetObject of manifest.json, p<i> = footer probe of segment i."""
    # "stale": manifest.json is written at the first tick and never refreshed — later segments are listed
    # only by the ticks whose manifest read fails (fallback S3 lister)
    lister = "s3" if variant == "iceberg" else rng.choice(["s3", "s3", "manifest", "manifest", "stale"])
    store = "noop" if rng.chance(1, 8) else "mem"
    if variant == "iceberg" and store == "mem" and rng.chance(1, 3):
        store = "etcd"
    tps = sorted(set(rng.choice([0, 1, 2, 3, 5]) for _ in range(rng.choice([1, 1, 2]))))
    segs = []
    nxt = {}
    for tp in tps:
        o = 0 if rng.chance(4, 5) else rng.range(1, 40)
        for _ in range(rng.range(2, 4)):
            n = 1 if rng.chance(1, 4) else rng.range(1, 3)
            offs = []
            for _ in range(n):
                offs.append(o)
                o += 1 if rng.chance(5, 6) else rng.range(2, 4)
            segs.append((tp, offs))
            if rng.chance(1, 10):
                o += rng.range(1, 3)
        nxt[tp] = o
    if rng.chance(1, 2):
        # bucket keys have no order of their own; a manifest may name its entries in any order
        order = []
        pool = list(segs)
        while pool:
            order.append(pool.pop(rng.range(0, len(pool) - 1)))
        segs = order
    # round 3b: ListObjectsV2 answers in PAGES (page=<k> keys per page; small odd k puts a page boundary between the
    # .index and the .kfs object of a segment in the middle of a partition; fill=<n> filler keys in front do the same with
    # S3's own 1000-key pages), and (sql, lister=s3) decoder=real: the module's real s3Decoder downloads real segment
    # objects inside the loop, s3 items c<i> / h<i> cut that tick's download of segment i mid-body
    opts = ""
    if rng.chance(1, 2):
        opts += " page=%d" % rng.choice([1, 2, 3, 3, 3, 5, 5, 7, 4])
    elif rng.chance(1, 12):
        opts += " fill=%d" % (999 - 2 * rng.range(0, len(segs) - 1))
    realdec = variant == "sql" and lister == "s3" and rng.chance(1, 2)
    if realdec:
        opts += " decoder=real"
    lines = ["case %s %s lister=%s%s" % (variant, store, lister, opts)]
    for tp, offs in segs:
        lines.append("seg %d %s" % (tp, ",".join(map(str, offs))))
    grow = rng.chance(1, 3) or lister == "stale"
    for c in range(ncycles):
        if grow and c > 0 and rng.chance(1, 3):
            tp = rng.choice(sorted(nxt))
            o = nxt[tp] + (0 if rng.chance(4, 5) else rng.range(1, 3))
            offs = list(range(o, o + rng.range(1, 2)))
            nxt[tp] = offs[-1] + 1
            segs.append((tp, offs))
            lines.append("seg %d %s" % (tp, ",".join(map(str, offs))))
        s3 = []
        if c < 2 and rng.chance(1, 2) or rng.chance(1, 5):
            if lister in ("manifest", "stale") and rng.chance(2, 3):
                s3.append("m")
            k = rng.choice([1, 1, 1, 2])
            for _ in range(k):
                if rng.chance(1, 8):
                    s3.append("L")
                else:
                    # not the first listed segment of its partition, if there is a choice
                    i = rng.range(0, len(segs) - 1)
                    first = min((offs[0], j) for j, (tp, offs) in enumerate(segs) if tp == segs[i][0])[1]
                    if i == first and rng.chance(3, 4):
                        later = [j for j, (tp, _) in enumerate(segs) if tp == segs[i][0] and j != first]
                        if later:
                            i = rng.choice(later)
                    s3.append("p%d" % i)
        if realdec and (c < 2 and rng.chance(1, 2) or rng.chance(1, 6)):
            # a download cut mid-body, mostly of a segment that is not the newest of its partition
            i = rng.range(0, len(segs) - 1)
            newest = max((offs[0], j) for j, (tp, offs) in enumerate(segs) if tp == segs[i][0])[1]
            if i == newest and rng.chance(3, 4):
                older = [j for j, (tp, _) in enumerate(segs) if tp == segs[i][0] and j != newest]
                if older:
                    i = rng.choice(older)
            s3.append("%s%d" % (rng.choice("ch"), i))
        claim = "-"
        if rng.chance(1, 8):
            claim = "".join("1" if rng.chance(1, 2) else "0" for _ in segs)
        fs = []
        for tp, offs in segs:
            if rng.chance(5, 6):
                fs.append("n")
            else:
                fs.append(rng.choice(list("ldsc")))
        lines.append("cycle %d %s %s" % (1 if rng.chance(1, 20) else 0, claim, ",".join(fs)) +
                     (" s3=" + "+".join(sorted(set(s3))) if s3 else ""))
        if rng.chance(1, 12):
            lines.append("lost")
    return lines


def s3_faults(cycle_line):
    f = cycle_line.split()
    return [x for x in f[4][3:].split("+") if x] if len(f) > 4 and f[4].startswith("s3=") else []


def is_cut(x):
    return len(x) > 1 and x[0] in "ch" and x[1:].isdigit()


def model_cycle(cycle_line):
    """The model's view of a cycle line of a decoder=real case: a download of segment i that is cut mid-body (s3 item
    c<i> / h<i>) is a failed Decode of that segment in this tick (unless LoadOffset fails first)."""
    f = cycle_line.split()
    cuts = [int(x[1:]) for x in s3_faults(cycle_line) if is_cut(x)]
    if not cuts:
        return cycle_line
    fs = f[3].split(",")
    for i in cuts:
        if i < len(fs) and fs[i][0] in "nsc":
            fs[i] = "d"
    rest = [x for x in s3_faults(cycle_line) if not is_cut(x)]
    return " ".join(f[:3] + [",".join(fs)] + (["s3=" + "+".join(rest)] if rest else []))


def listing_clean(case_line, cycle_line):
    """Does this tick's ListCompleted have to succeed with the complete listing (and every download)?"""
    s3 = s3_faults(cycle_line)
    if any(is_cut(x) for x in s3):
        return False
    if "lister=stale" in case_line.split() and "m" not in s3:
        return False        # an old manifest is read: only the segments it names have to be delivered
    if "lister=manifest" in case_line.split() and "m" not in s3:
        return True         # the manifest is read; the S3 listing and the probes are not used
    return not any(x == "L" or x.startswith("p") for x in s3)


def parse_line(l):
    return dict(x.split("=", 1) for x in l.split()[1:] if "=" in x)


def monitor(case_lines, out_lines):
    """The property, evaluated on the implementation's trace.  Returns (fingerprint, what) or None."""
    script = iter([l for l in case_lines if l != "lost"])      # aligns 1:1 with the non-`lost` output lines
    segs = []
    sink = set()
    for o in out_lines:
        if o == "panic":
            return "processor-panic", "Processor.Run panicked"
        if o == "lost":
            continue
        src = next(script, None)
        if src is None:
            break
        if src.startswith("seg "):
            f = src.split()
            segs.append((int(f[1]), [int(x) for x in f[2].split(",")] if f[2] != "-" else []))
            continue
        if not o.startswith("cycle ") or not src.startswith("cycle "):
            continue
        kv = parse_line(o)
        oracle = src.split()
        if kv["wrote"] != "-":
            for w in kv["wrote"].split(","):
                tp, off = w.split(":")
                sink.add((int(tp), int(off)))
        if kv.get("early", "-") != "-":
            return ("checkpoint-past-unwritten-record",
                    "CommitOffset was called with an offset at or above records never handed to the sink: %s" % kv["early"])
        cp = {}
        if kv["cp"] != "-":
            for x in kv["cp"].split(","):
                tp, v = x.split("=")
                cp[int(tp)] = v
        for tp, offs in segs:
            v = cp.get(tp)
            if v is None or v == "err":
                continue
            for off in offs:
                if off <= int(v) and (tp, off) not in sink:
                    return ("checkpoint-past-unwritten-record",
                            "checkpoint of partition %d is %s but offset %d was never written" % (tp, v, off))
        if (oracle[1] == "0" and all(f == "n" for f in oracle[3].split(",")) and kv["lease"] != "-"
                and listing_clean(case_lines[0], src)):
            tp = int(kv["lease"])
            for t, offs in segs:
                for off in offs:
                    if t == tp and (tp, off) not in sink:
                        if off == 0:
                            return ("offset-zero-never-written",
                                    "a failure-free cycle with the lease on partition %d did not write offset 0" % tp)
                        return ("clean-cycle-missed-records",
                                "a failure-free cycle with the lease on partition %d left offset %d unwritten" % (tp, off))
    return None


def split_cases(lines):
    cases, cur = [], []
    for l in lines:
        if l == "end":
            cases.append(cur)
            cur = []
        else:
            cur.append(l)
    if cur:
        cases.append(cur)
    return cases


def lean_input(case_lines, impl_lines):
    """The model's op list: the scenario with `lost` where the implementation observed it."""
    it = iter([model_cycle(l) if l.startswith("cycle ") else l for l in case_lines if l != "lost"])
    out = []
    for o in impl_lines:
        if o == "lost":
            out.append("lost")
        else:
            try:
                out.append(next(it))
            except StopIteration:
                break
    out.extend(it)
    return out


def run_virtual(ck, binary, cases, tag):
    fn, outp = ck.path("ops_%s.txt" % tag), ck.path("out_%s.txt" % tag)
    open(fn, "w").write("\n".join(l for c in cases for l in c) + "\n")
    if os.path.exists(outp):
        os.remove(outp)
    rc, out, err = ck.run_bin(binary, args=["-test.run", "^TestVerifC33$", "-test.timeout", "300s"],
                              env={"VERIF_C33_OPS": fn, "VERIF_C33_OUT": outp}, timeout=400)
    res = split_cases(open(outp).read().split("\n")[:-1]) if os.path.exists(outp) else []
    if rc != 0 or len(res) != len(cases):
        return res, "rc=%s cases=%d/%d %s" % (rc, len(res), len(cases), (out + err)[-1500:])
    return res, None


def strip_early(l):
    return " ".join(x for x in l.split() if not x.startswith("early="))


def compare(ck, name, cases, results, rerun=None):
    """Monitors + model correspondence for one variant.  Returns False when the correspondence broke."""
    model_in = []
    for c, r in zip(cases, results):
        model_in += lean_input(c, r)
    fn = ck.path("lean_%s.txt" % name)
    open(fn, "w").write("\n".join(model_in) + "\n")
    model = ck.lean_run("C33", fn)
    pos = 0
    ok = True
    for c, r in zip(cases, results):
        n = len(lean_input(c, r))
        mo = model[pos:pos + n]
        pos += n
        faults = sum(1 for l in c if l.startswith("cycle") for f in l.split()[3].split(",") if f != "n")
        commits = len(set(parse_line(l)["cp"] for l in r if l.startswith("cycle")))
        ck.count("%s_cases" % name)
        ck.count("faults_injected", faults)
        if "lister=" in c[0]:
            ck.count("%s_real_lister_cases" % name)
            ck.count("s3_faults_injected", sum(len(s3_faults(l)) for l in c if l.startswith("cycle")))
            ck.count("footer_probe_faults", sum(1 for l in c if l.startswith("cycle") for x in s3_faults(l) if x.startswith("p")))
            ck.count("paged_listing_cases", 1 if (" page=" in c[0] or " fill=" in c[0]) else 0)
            ck.count("real_decoder_cases", 1 if "decoder=real" in c[0] else 0)
            ck.count("downloads_cut_mid_body", sum(1 for l in c if l.startswith("cycle") for x in s3_faults(l) if is_cut(x)))
            ck.count("listings_failed", sum(1 for l in r if l.endswith("listed=err")))
            ck.count("listings_answered", sum(1 for l in r if " listed=" in l and not l.endswith("listed=err")))
        ck.count("lease_losses", sum(1 for l in r if l == "lost"))
        ck.count("cycles", sum(1 for l in r if l.startswith("cycle")))
        ck.case((name, tuple(c)), nontrivial=(faults > 0 and commits > 1),
                sample={"variant": name, "scenario": c[:8], "impl": r[:8]})
        ck.cov["traces_validated_against_impl"] += 1
        mon = monitor(c, r)
        if mon:
            fp, what = mon
            small = c
            seen = fp in [v["fingerprint"] for v in ck.violations] or fp in [h["fingerprint"] for h in ck.known_hits]
            if rerun is not None and not seen:
                first = next(i for i, l in enumerate(c) if l.startswith("cycle"))
                head, tail = c[:first], c[first:]
                small_tail = lib.ddmin(tail, lambda cand: _fails(rerun, head + cand, fp))
                small = head + small_tail
            ck.violation(fp, "%s processor: %s" % (name, what),
                         {"variant": name, "scenario": small, "impl": r if small is c else None,
                          "expected": "every record at or below the checkpoint is in the sink; a clean cycle delivers the partition"})
            continue
        io = [strip_early(l) for l in r]
        d = lib.first_diff(io, mo)
        if d is not None:
            ck.cov["disagreements_checked"] += 1
            if ok:
                ck.broke("correspondence model/implementation (%s Processor.Run)" % name,
                         "scenario:\n%s\nline %d\nimpl : %s\nmodel: %s" % (
                             "\n".join(c), d, io[d] if d < len(io) else None, mo[d] if d < len(mo) else None))
            ok = False
    return ok


def _fails(rerun, lines, fp):
    res = rerun([lines])
    if not res:
        return False
    m = monitor(lines, res[0])
    return m is not None and m[0] == fp


def corpus(variant):
    """Pinned regressions (the three defects replayed on the code before the fixes)."""
    out = [
        ["case %s mem" % variant, "seg 0 0,1", "seg 0 2,3", "cycle 0 - d,n", "cycle 0 - n,n", "cycle 0 - n,n"],
        ["case %s mem" % variant, "seg 0 0,1", "seg 0 2,3", "cycle 0 - s,n", "cycle 0 - n,n"],
        ["case %s mem" % variant, "seg 0 0,1", "seg 0 2,3", "cycle 0 - l,n", "cycle 0 - n,n"],
        ["case %s noop" % variant, "seg 0 0,1,2", "cycle 0 - n", "cycle 0 - n"],
        ["case %s mem" % variant, "seg 0 0,1", "seg 1 0", "seg 0 2,3", "cycle 0 100 n,n,n", "lost", "cycle 0 - c,n,n",
         "cycle 0 - n,n,n", "cycle 0 - n,n,n", "cycle 0 - n,n,n"],
    ]
    # single-record segments at every position (first record of the partition, middle, newest), a run of
    # them after a multi-record segment, with a gap, with a segment completing later; for sql with each kind
    # of listing statistics (a segment that holds exactly the one next record to deliver must be downloaded)
    singles = [
        ["seg 0 0", "seg 0 1", "seg 0 2", "cycle 0 - n,n,n", "cycle 0 - n,n,n"],
        ["seg 0 0", "seg 0 1,2", "seg 0 3", "seg 0 4,5", "cycle 0 - n,n,n,n", "cycle 0 - n,n,n,n"],
        ["seg 0 0,1", "seg 0 2", "seg 0 3", "seg 0 4", "cycle 0 - n,d,n,n", "cycle 0 - n,n,n,n", "cycle 0 - n,n,n,n"],
        ["seg 1 7", "seg 1 8", "seg 1 10", "seg 1 11,12", "cycle 0 - n,n,c,n", "cycle 0 - n,n,n,n"],
        ["seg 0 0", "seg 2 0", "seg 0 1", "seg 2 1", "cycle 0 - n,n,n,n", "lost", "cycle 0 10 n,n,n,n", "cycle 0 - n,n,n,n"],
        ["seg 0 0", "seg 0 1", "cycle 0 - n,n", "seg 0 2", "cycle 0 - n,n,n", "seg 0 3", "cycle 0 - n,n,n,n", "cycle 0 - n,n,n,n"],
        ["seg 0 0,1,2", "cycle 0 - n", "seg 0 3", "cycle 0 - n,s", "seg 0 4", "cycle 0 - n,n,n"],
    ]
    for st in (["", "next", "footer"] if variant == "sql" else [""]):
        for k, body in enumerate(singles):
            store = "noop" if (k == 1 and st != "next") else "mem"
            out.append(["case %s %s" % (variant, store) + (" stats=" + st if st else "")] + body)
    # the REAL listers over the in-process S3 endpoint: the footer probe of the middle segment fails once
    # (pre-fix: the segment is dropped, the later one commits past it); ListObjectsV2 fails; shuffled bucket;
    # a segment completes between ticks; per-segment faults are indexed by seg line, not by listing position
    if variant in ("iceberg", "sql"):
        out.append(["case %s mem lister=s3" % variant, "seg 0 0,1", "seg 0 2,3", "seg 0 4,5",
                    "cycle 0 - n,n,n s3=p1", "cycle 0 - n,n,n", "cycle 0 - n,n,n"])
        out.append(["case %s mem lister=s3" % variant, "seg 0 4,5", "seg 1 0", "seg 0 0,1", "seg 0 2,3",
                    "cycle 0 - n,n,n,n s3=L", "cycle 0 - n,n,n,d", "cycle 0 - n,n,n,n s3=p0", "cycle 0 - n,n,n,n"])
        out.append(["case %s noop lister=s3" % variant, "seg 2 7", "seg 2 8,9", "seg 2 10", "cycle 0 - n,n,n s3=p2",
                    "cycle 0 - n,n,n s3=p1", "seg 2 11", "cycle 0 - n,n,n,n s3=p3", "cycle 0 - n,n,n,n"])
        # ListObjectsV2 in pages: a page boundary between the .index and the .kfs object of the MIDDLE segment (3-key
        # pages; S3's own 1000-key pages behind 997 filler keys), of every segment (1-key pages), two partitions with a
        # shuffled bucket, a failing probe on a later page, a segment completing between ticks
        three = ["seg 0 0,1", "seg 0 2,3", "seg 0 4,5", "cycle 0 - n,n,n", "cycle 0 - n,n,n"]
        out.append(["case %s mem lister=s3 page=3" % variant] + three)
        out.append(["case %s mem lister=s3 fill=997" % variant] + three)
        out.append(["case %s mem lister=s3 page=1" % variant] + three)
        out.append(["case %s mem lister=s3 fill=995" % variant, "seg 0 0", "seg 0 1", "seg 0 2,3", "seg 0 4", "cycle 0 - n,n,n,n",
                    "seg 0 5", "cycle 0 - n,n,n,n,n", "cycle 0 - n,n,n,n,n"])
        out.append(["case %s mem lister=s3 page=5" % variant, "seg 1 2,3", "seg 0 4,5", "seg 1 0,1", "seg 0 0,1", "seg 0 2,3", "seg 1 4",
                    "cycle 0 - n,n,n,n,n,n s3=p4", "cycle 0 - n,n,n,n,n,n", "lost", "cycle 0 - n,n,n,n,n,n", "cycle 0 - n,n,n,n,n,n"])
        out.append(["case %s noop lister=s3 page=7" % variant, "seg 2 7", "seg 2 8,9", "seg 2 10", "seg 2 11", "cycle 0 - n,n,n,n",
                    "seg 2 12", "cycle 0 - n,n,n,n,n s3=L", "cycle 0 - n,n,n,n,n"])
    if variant == "sql":
        # the REAL s3Decoder inside the loop: the download of a segment that is not the newest is cut mid-body
        # (Content-Length announces the whole object): the tick must stop at that segment, never commit the next one
        for cut in ("c1", "h1", "c0", "h0+c1"):
            out.append(["case sql mem lister=s3 decoder=real", "seg 0 0,1", "seg 0 2,3,4", "seg 0 5,6", "cycle 0 - n,n,n s3=" + cut,
                        "cycle 0 - n,n,n", "cycle 0 - n,n,n"])
        out.append(["case sql mem lister=s3 decoder=real page=3", "seg 0 4", "seg 0 0,1,2,3", "seg 1 0", "seg 0 5", "cycle 0 - n,n,n,n s3=h1",
                    "cycle 0 - n,n,n,s s3=c0", "cycle 0 - n,n,n,n"])
        out.append(["case sql noop lister=s3 decoder=real", "seg 0 0", "seg 0 1", "cycle 0 - n,n", "seg 0 2", "cycle 0 - n,n,n s3=c1+p0",
                    "cycle 0 - n,l,n s3=h1", "cycle 0 - n,n,n"])
        # manifest.json names the segments out of offset order (pre-fix: handed out as is); the manifest cannot be
        # read and the fallback S3 lister meets a failing probe / a failing ListObjectsV2
        out.append(["case sql mem lister=manifest", "seg 0 2,3", "seg 0 0,1", "seg 0 4,5", "cycle 0 - n,n,n", "cycle 0 - n,n,n"])
        out.append(["case sql mem lister=manifest", "seg 0 2,3", "seg 0 0,1", "seg 0 4,5", "cycle 0 - n,n,n s3=m",
                    "cycle 0 - n,n,n s3=m+p0", "seg 0 6", "cycle 0 - n,n,n,n s3=L+m", "cycle 0 - n,n,n,n s3=p1",
                    "cycle 0 - n,n,n,n"])
        out.append(["case sql mem lister=stale", "seg 0 2,3", "seg 0 0,1", "cycle 0 - n,n", "seg 0 4,5", "cycle 0 - n,n,n",
                    "cycle 0 - n,n,n s3=m", "seg 0 6", "cycle 0 - n,n,n,n", "cycle 0 - n,n,n,n s3=m+p1", "cycle 0 - n,n,n,n s3=m",
                    "cycle 0 - n,n,n,n"])
        out.append(["case sql mem lister=manifest", "seg 1 3", "seg 0 0", "seg 1 0,1,2", "seg 0 1", "cycle 0 10 n,n,n,n s3=m+p2",
                    "cycle 0 10 n,n,n,n", "lost", "cycle 0 - n,n,n,n", "cycle 0 - n,n,n,n"])
    if variant == "iceberg":
        out.append(["case iceberg mem", "seg 0 0,1,2", "cycle 0 - f1", "cycle 0 - n"])
        out.append(["case iceberg mem", "seg 0 0,1,2", "seg 0 3", "cycle 0 - f0+2,n", "cycle 0 - n,n"])
    return out


def build_parallel(ck, names):
    """lib.build_all builds sequentially; the three modules are independent, so build them side by side
    (same lib.go_build, same overlay rules).  Returns {name: path} or None after recording the broken build."""
    import threading
    res = {}

    def one(n):
        b = BUILDS[n]
        kw = dict(b[3]) if len(b) > 3 else {}
        kw.setdefault("name", "h_" + n)
        res[n] = ck.go_build(b[0], b[1], b[2], **kw)
    ths = [threading.Thread(target=one, args=(n,)) for n in names]
    for t in ths:
        t.start()
    for t in ths:
        t.join()
    for n in names:
        out, log = res[n]
        if out is None:
            ck.broke("correspondence harness build %s (%s %s, overlay %s)" % (n, BUILDS[n][0], BUILDS[n][1], BUILDS[n][2]), log)
            return None
    return {n: res[n][0] for n in names}


def run(ck):
    bins = build_parallel(ck, ["skeleton", "sql", "iceberg"])
    if bins is None:
        return
    ck.log("harness binaries built")
    quick = ck.quick()
    ck.cov["rule"] = ("one case = one set of completed segments (1-3 partitions, 1-4 segments each, offsets from 0 or a "
                      "base, gaps and empty segments; in 1/3 of the cases most segments hold exactly one record; sql: the "
                      "listing carries MinOffset/MaxOffset statistics as the real lister computes them, or none) plus a timeline of polling cycles with per-segment failure oracles, "
                      "claim/list failures and lease losses, generated from VERIF_SEED; a further 60 (quick) timelines per "
                      "processor take the listing from the real S3 / manifest lister over an in-process S3 endpoint (bucket = the "
                      "seg lines, shuffled in half of the cases; per tick a set of S3 requests that fail once: ListObjectsV2, "
                      "manifest GetObject, footer probe of segment i, mostly a segment in the middle of a partition; half of them list in pages of 1-7 keys, "
                      "some behind 990-999 filler keys with 1000-key pages; sql lister=s3: half run the real s3Decoder over real segment objects with "
                      "downloads of mostly non-newest segments cut mid-body); non-trivial when at least one "
                      "failure was injected and the checkpoint moved; distinct = distinct scenario texts")
    # skeleton: real clock, all cases concurrently, few ticks — start it first, collect it last
    nsk = 40 if quick else 200
    sk_cycles = 3 if quick else 6
    def trim(c):
        first = next(i for i, l in enumerate(c) if l.startswith("cycle"))
        head, tail = c[:first], c[first:]
        k, keep = 0, []
        for l in tail:
            if l == "lost" and quick:
                continue
            if l.startswith("cycle"):
                k += 1
                if k > sk_cycles:
                    break
            keep.append(l)
        while keep and not keep[-1].startswith("cycle"):
            keep.pop()
        return head + keep
    sk_cases = [trim(c) for c in (corpus("skeleton")[:4] + corpus("skeleton")[5:] if quick else corpus("skeleton"))]
    rs = ck.rng.fork()
    for _ in range(nsk):
        sk_cases.append(trim(gen_case(rs, "skeleton", sk_cycles)))
    sk_in = ck.path("ops_skeleton.txt")
    open(sk_in, "w").write("\n".join(l for c in sk_cases for l in c) + "\n")
    sk_proc = subprocess.Popen([bins["skeleton"]], stdin=open(sk_in), stdout=subprocess.PIPE, stderr=subprocess.PIPE,
                               env=lib.go_env(), text=True)
    all_ok = True
    try:
        for name in ("sql", "iceberg"):
            n = 150 if quick else 1500
            cases = corpus(name)
            r = ck.rng.fork()
            for i in range(n):
                cases.append(gen_case(r, name, r.range(4, 9) if quick else r.range(4, 16), quiet=(i % 10 == 9)))
            # the same loop fed by the module's REAL lister over an in-process S3 endpoint with a fault oracle
            rl = ck.rng.fork()
            for i in range(60 if quick else 500):
                cases.append(gen_lister_case(rl, name, rl.range(3, 7) if quick else rl.range(4, 12)))
            results, crash = run_virtual(ck, bins[name], cases, name)
            if crash:
                ck.broke("implementation harness (%s) did not answer every case" % name, crash)
                all_ok = False
                continue
            rerun = (lambda cs, b=bins[name], nm=name: run_virtual(ck, b, cs, nm + "_dd")[0])
            if not compare(ck, name, cases, results, rerun):
                all_ok = False
            ck.log("%s: %d cases compared" % (name, len(cases)))
    finally:
        try:
            out, err = sk_proc.communicate(timeout=120 if quick else 300)
        except subprocess.TimeoutExpired:
            sk_proc.kill()
            out, err = sk_proc.communicate()
    res = split_cases(out.split("\n")[:-1])
    if sk_proc.returncode != 0 or len(res) != len(sk_cases):
        ck.broke("implementation harness (skeleton) did not answer every case",
                 "rc=%s cases=%d/%d %s" % (sk_proc.returncode, len(res), len(sk_cases), err[-1500:]))
    else:
        compare(ck, "skeleton", sk_cases, res, None)


def replay(ck, path):
    rep = json.load(open(path))
    bins = ck.build_all()
    if bins is None:
        return
    name, lines = rep["variant"], rep["scenario"]
    if name == "skeleton":
        fn = ck.path("replay.txt")
        open(fn, "w").write("\n".join(lines) + "\n")
        rc, out, err = ck.run_bin(bins["skeleton"], stdin_path=fn, timeout=600)
        res = split_cases(out.split("\n")[:-1])
    else:
        res, crash = run_virtual(ck, bins[name], [lines], name + "_replay")
    r = res[0] if res else []
    for l in r:
        print("  " + l)
    ck.case((name, tuple(lines)), sample={"variant": name, "scenario": lines, "impl": r})
    ck.cov["distinct_nontrivial"] = max(ck.cov["distinct_nontrivial"], 2)
    mon = monitor(lines, r)
    if mon:
        ck.violation(mon[0], "%s processor: %s" % (name, mon[1]), {"variant": name, "scenario": lines, "impl": r})
