"""C40 — the ops MCP tools never change cluster state."""
import json
import os
import re

from checks import lib

PROPERTY = "C40"
LEAN_MODULES = ["KafVerif.Props.C40"]
OBLIGATIONS = [
    "KafVerif.C40.reads_preserve_state",
    "KafVerif.C40.tools_read_only",
    "KafVerif.C40.interface_covered",
    "KafVerif.C40.tools_nonvacuous",
    "KafVerif.C40.tool_calls_preserve_state",
    "KafVerif.C40.runTool_preserves_state",
    "KafVerif.C40.mutators_change_state",
    "KafVerif.C40.read_returns_fresh_buffers",
    "KafVerif.C40.handler_writes_preserve_store",
    "KafVerif.C40.aliasing_read_breaks_store",
    "KafVerif.C40.aliasing_partition_array_breaks_store",
    "KafVerif.C40.etcd_reads_issue_no_writes",
    "KafVerif.C40.etcd_table_nonvacuous",
    "KafVerif.C40.etcd_read_ops_preserve_keyspace",
    "KafVerif.C40.etcd_lookup_preserves_keyspace",
    "KafVerif.C40.etcd_fetch_offsets_preserves_keyspace",
    "KafVerif.C40.lazy_retention_lookup_changes_keyspace",
    "KafVerif.C40.rewrite_same_bytes_bumps_revision",
    "KafVerif.C40.put_changes_keyspace",
]
BUILDS = {"h": ("root", "./cmd/verif_c40", ["C40"])}
LEVEL_TEXT = ("Lean 4: over the table REGENERATED from the source (per registered MCP tool, the metadata.Store methods reachable "
              "from its handler inside internal/mcpserver) every tool reaches only read-only methods and hands the store to nothing "
              "else (tools_read_only, decide); read-only calls are the identity on the store model and every other Store method "
              "provably is not (reads_preserve_state, mutators_change_state); hence any sequence of calls a tool can make, with any "
              "arguments, leaves the state unchanged (tool_calls_preserve_state); same for the hand-written handler models "
              "(runTool_preserves_state) whose outputs are compared with the real tools; on a nested heap model (topics array -> "
              "partitions arrays -> replica arrays) the deep clone hands out only fresh buffers at every level and no handler write "
              "into them changes what the store holds (read_returns_fresh_buffers, handler_writes_preserve_store); for the "
              "etcd-backed store a second REGENERATED table (per Store method of EtcdStore: the etcd client operations and the "
              "calls on its cached snapshot reachable inside pkg/metadata) shows that every method a tool reaches issues only "
              "Get/Watch (etcd_reads_issue_no_writes), and on a revisioned key-value model such operations leave keys, values and "
              "revisions unchanged (etcd_read_ops_preserve_keyspace), the offset lookup does so whatever the age of the commit "
              "(etcd_lookup_preserves_keyspace) while a lazily expiring lookup does not (lazy_retention_lookup_changes_keyspace).")
LEVEL_NOTE = ("Trusted: Lean kernel; the go/ast extractor (call graph restricted to internal/mcpserver, Store methods recognised by "
              "name, any other use of the store value counted as an escape); that the real read methods do not write is validated, not "
              "proved: full snapshots of InMemoryStore and of EtcdStore (etcd key dump WITH mod/create revisions, versions and "
              "leases + cached metadata) before/after every call through a real MCP client session, on stores that also hold "
              "commits made long ago (etcd records with committed_at 1 h .. 1 year old, zero, unparsable, empty).")
TECHNIQUE = "Lean 4 table obligation over go/ast-extracted facts + store model + before/after snapshots of the real stores"
ASSUMPTIONS = [
    "the go-sdk MCP server dispatches a tool call only to the handler registered under that name",
    "Store methods are recognised by name in internal/mcpserver; a call through reflection or through another package is only caught by the before/after snapshots",
    "topic/group/member ids are single digits (string order = numeric order in the canonical output)",
    "ALIASING: the Store-call model (`exec`) has immutable values, i.e. it assumes every read returns a COPY; that assumption is "
    "stated and proved separately on a typed, NESTED heap model (topics array -> partitions arrays -> replica/ISR/offline arrays; "
    "cloneMetadata hands out only fresh buffers at every level, so no handler write into anything reachable from the result can "
    "reach a store-owned buffer: read_returns_fresh_buffers, handler_writes_preserve_store; without the clone it fails, for a "
    "replica list (aliasing_read_breaks_store) and for the partitions array of a by-value topic copy "
    "(aliasing_partition_array_breaks_store)) and is VALIDATED on the real stores by this run: stores are populated with topics "
    "whose PARTITIONS ARRAY is stored in non-ascending id order (2,0,1; duplicate ids; gaps) and whose Replicas/ISR/"
    "OfflineReplicas lists (and group subscriptions / assignments) are non-ascending and duplicate-carrying, every tool is called "
    "with explicit topic subsets (the by-name form takes its own path through the store), 1-3 times in a row, and the "
    "before/after snapshots are order-sensitive for every list at every level (topics, partitions, replicas, isr, offline; "
    "groups and configs as deterministic protobuf bytes)",
    "TIME: the store model keeps no clock; that a read does not depend on the AGE of what it reads (lazy expiry, read-repair, "
    "touch-on-read) is covered by (a) the regenerated etcd-operation table (a read method of EtcdStore that reaches Put/Delete/Txn "
    "fails etcd_reads_issue_no_writes), (b) old commits written straight into etcd with committed_at 1 h, 6 d 23 h, just under "
    "7 d, 7 d + 1 s, 30 d, 1 year, zero time, unparsable and empty before every tool is called, with the etcd dump compared "
    "including revisions (a rewrite with identical bytes still bumps mod_revision: rewrite_same_bytes_bumps_revision); ages "
    "beyond 1 year and clocks moving during a run are not explored; the in-memory store keeps no timestamps at all",
    "the etcd-operation extractor recognises etcd calls by operation name (Get/Put/Delete/Txn/Do/Compact/Watch/lease ops/Op*) on "
    "a receiver whose text mentions client/cli/kv/txn/lease/etcd, inside pkg/metadata; an etcd write through another package or "
    "under another receiver name is only caught by the before/after dumps",
    "the broker list is always stored in ascending node-id order (its clone is a flat copy of value structs); a handler that "
    "reorders a shared broker array would only be seen if another run stored it unsorted",
]

GEN = os.path.join(lib.LEAN, "KafVerif", "Gen", "C40McpCalls.lean")
TOOLS = ["cluster_status", "cluster_metrics", "list_topics", "describe_topics", "list_groups", "describe_group",
         "fetch_offsets", "describe_configs"]


def _binary(ck):
    b = getattr(ck, "_c40_bin", None)
    if b:
        return b
    bins = ck.build_all()
    if bins is None:
        return None
    ck._c40_bin = bins["h"]
    return ck._c40_bin


def lean_ctor(name):
    return "." + name[0].lower() + name[1:]


def extract(ck, binary):
    rc, out, err = ck.run_bin(binary, args=["extract", lib.REPO])
    if rc != 0:
        raise RuntimeError("extractor failed: " + out + err)
    methods, tools, ntools = [], [], None
    etcd, netcd = [], None
    for l in out.split("\n"):
        if l.startswith("method "):
            methods.append(l.split()[1])
        elif l.startswith("etcdmethods "):
            netcd = int(l.split()[1])
        elif l.startswith("etcdmethod "):
            m = re.match(r"etcdmethod (\S+) ops=(\S*) inner=(\S*)$", l)
            if not m:
                raise RuntimeError("bad extractor line " + l)
            etcd.append({"method": m.group(1), "ops": [x for x in m.group(2).split(",") if x],
                         "inner": [x for x in m.group(3).split(",") if x]})
        elif l.startswith("tools "):
            ntools = int(l.split()[1])
        else:
            m = re.match(r'tool ("(?:[^"\\]|\\.)*") handler=(\S+) calls=(\S*) escapes=(.*)$', l)
            if m:
                tools.append({"name": json.loads(m.group(1)), "handler": m.group(2),
                              "calls": [c for c in m.group(3).split(",") if c],
                              "escapes": [e for e in m.group(4).split(",") if e]})
    if not methods or not tools or ntools != len(tools):
        raise RuntimeError("extractor output incomplete: " + out[-500:])
    if netcd != len(etcd) or len(etcd) != len(methods):
        raise RuntimeError("extractor output incomplete (etcd methods): " + out[-500:])
    ck._c40_etcd = etcd
    return methods, tools


def generate(ck):
    binary = _binary(ck)
    if binary is None:
        raise RuntimeError("harness (which contains the extractor) does not build")
    methods, tools = extract(ck, binary)
    ck._c40_tools = tools
    for t in tools:
        if not re.match(r"^[A-Za-z0-9_ .-]*$", t["name"]) or not re.match(r"^[A-Za-z0-9_?]*$", t["handler"]):
            raise RuntimeError("unexpected tool name/handler %r" % t)
    src = ("-- REGENERATED by checks/C40.py from pkg/metadata/store.go and internal/mcpserver/*.go\n"
           "import KafVerif.Model.McpStore\nnamespace KafVerif.Gen.C40\nopen KafVerif.Mcp\n")
    src += "def storeMethods : List Method := [%s]\n" % ", ".join(lean_ctor(m) for m in methods)
    src += "def tools : List ToolFacts := [\n"
    src += ",\n".join('  { name := "%s", handler := "%s", calls := [%s], escapes := %d }'
                      % (t["name"], t["handler"], ", ".join(lean_ctor(c) for c in t["calls"]), len(t["escapes"]))
                      for t in tools)
    src += "]\n"
    # Store methods as implemented by EtcdStore: etcd client operations + calls into the cached in-memory snapshot
    known_ops = {"Get": ".get", "Watch": ".watch", "OpGet": ".opGet", "Put": ".put", "Delete": ".delete", "Txn": ".txn",
                 "OpPut": ".opPut", "OpDelete": ".opDelete", "OpTxn": ".opTxn"}
    src += "def etcdMethods : List EtcdFacts := [\n"
    src += ",\n".join("  { method := %s, ops := [%s], inner := [%s] }"
                      % (lean_ctor(e["method"]), ", ".join(known_ops.get(o, ".other") for o in e["ops"]),
                         ", ".join(lean_ctor(c) for c in e["inner"]))
                      for e in ck._c40_etcd)
    src += "]\nend KafVerif.Gen.C40\n"
    old = open(GEN).read() if os.path.exists(GEN) else None
    if old != src:
        os.makedirs(os.path.dirname(GEN), exist_ok=True)
        tmp = GEN + ".tmp%d" % os.getpid()
        open(tmp, "w").write(src)
        os.replace(tmp, GEN)
    ck.cov["distribution"]["tools_extracted"] = len(tools)
    ck.cov["distribution"]["store_methods"] = len(methods)


# ------------------------------------------------------------------ generator

RAW = ['{}', '{"group_id":5}', '{"names":"x"}', '{"topics":[1,2]}', '{"group_id":"g1","topics":null}', '{"extra":1}',
       '{"group_id":"g1"}', '{"names":["t1","t1","zz"]}', '{"topics":["t0",""]}', '{"group_id":"g1:t1","topics":["0"]}',
       'null', '[]', '{"group_id":"g2","topics":["t1"],"commit":true}', '{"names":[]}']


def csv(rng, hi, maxn):
    n = rng.below(maxn + 1)
    if n == 0:
        return "-"
    xs = []
    for _ in range(n):
        x = rng.below(hi)
        if x not in xs or hi > 10:
            xs.append(x)
    return ",".join(str(x) for x in xs)


def gen_load(rng):
    r = rng.below(100)
    if r < 25:
        return "topic %d %d" % (rng.below(10), rng.choice([1, 1, 2, 3, 4, 0]))
    if r < 55:
        return "commit %d %d %d %d %d" % (rng.below(4), rng.below(10), rng.below(5),
                                          rng.choice([0, 1, 5, 42, -1, 1 << 40, rng.below(1000)]), rng.below(4))
    if r < 75:
        return "group %d %d %d %s" % (rng.below(4), rng.below(4), rng.below(6), csv(rng, 10, 4))
    if r < 88:
        return "config %d %d %d" % (rng.below(10), rng.choice([0, 1, 1, 3, 7]), rng.choice([-1, 0, 5000, 86400000]))
    if r < 93:
        return "parts %d %d" % (rng.below(10), rng.choice([2, 3, 4, 5, 1, 0]))   # CreatePartitions (persisted config may go stale)
    if r < 97:
        # a commit made long ago (etcd record with an old / zero / unparsable committed_at), see AGE_ROWS
        return "oldcommit %d %d %d %d %d" % (rng.below(4), rng.below(10), rng.below(4), rng.choice([0, 7, 42, 1 << 40]), rng.below(AGE_ROWS))
    return "offs %d %d %d" % (rng.below(10), rng.below(4), rng.below(100))


def names_csv(rng, known, maxn):
    """topic subsets: mostly existing topics (explicit names are where a store may hand out shared slices), some unknown"""
    n = rng.below(maxn + 1)
    xs = []
    for _ in range(n):
        x = rng.choice(known) if known and rng.chance(4, 5) else rng.below(10)
        if x not in xs or rng.chance(1, 6):
            xs.append(x)
    return ",".join(str(x) for x in xs) if xs else "-"


def gen_call(rng, tools, known=()):
    known = list(known)
    if rng.chance(1, 8):
        name = rng.choice(tools + ["delete_topic", "create_topic", "commit_offsets"])
        return "callraw %s %s" % (name, rng.choice(RAW).encode().hex())
    t = rng.choice(tools)
    if t == "describe_topics":
        return "call %s %s" % (t, names_csv(rng, known, 4) if rng.chance(4, 5) else "-")
    if t == "describe_group":
        return "call %s %s" % (t, rng.choice(["empty", "0", "1", "2", "3", "7"]))
    if t == "fetch_offsets":
        return "call %s %s %s" % (t, rng.choice(["empty", "0", "1", "2", "3", "7"]), names_csv(rng, known, 3))
    if t == "describe_configs":
        return "call %s %s" % (t, names_csv(rng, known, 3) if rng.chance(2, 3) else "-")
    return "call %s" % t


# rows of the harness' committedAt table: 1 h, 6 d 23 h, 7 d + 1 s, 1 year, 30 d (zone +02:00), just under 7 d, zero time,
# unparsable, empty
AGE_ROWS = 9
N_PART_ORDERS = 7    # rows of partOrderTable (Go harness and Lean model)


def gen_case(rng, tools, first=False):
    ops = ["new %d" % (2 if first else rng.choice([0, 1, 1, 2, 3]))]
    known = []
    unsorted = []     # topics whose Partitions ARRAY is stored in non-ascending partition-id order
    for k in range(4 if first else rng.below(5)):
        t = rng.below(10)
        if t in known:
            continue
        known.append(t)
        if (first and k == 0) or (not first and rng.chance(2, 5)):
            # partitions array itself out of order (ids 2,0,1 / duplicates / gaps), lists inside non-ascending too
            ops.append("ptopic %d %d %d" % (t, 0 if first else rng.below(N_PART_ORDERS), rng.below(12)))
            unsorted.append(t)
        elif first or rng.chance(2, 3):
            # multi-partition topic whose replica / ISR / offline lists are non-ascending and carry duplicates
            ops.append("rtopic %d %d %d" % (t, rng.choice([1, 2, 3, 4]) if not first else 3, rng.below(12)))
        else:
            ops.append("itopic %d %d" % (t, rng.choice([1, 2, 3, 0])))
    initial = list(known)    # topics of the initial snapshot (first case: three partitions each)
    for _ in range(rng.range(4, 14)):
        op = gen_load(rng)
        ops.append(op)
        f = op.split()
        if f[0] == "topic" and int(f[1]) not in known and int(f[2]) > 0 and not ops[0].endswith(" 0"):
            known.append(int(f[1]))

    def emit(call):
        # the same call 1-3 times in a row: an aliasing defect may only show on (or after) the second call
        for _ in range(rng.choice([1, 2, 2, 3])):
            ops.append(call)
    if first:
        # a history in which a persisted topic config is older than a partition expansion, then configs are described
        fresh = [x for x in range(10) if x not in known][:1]
        for x in fresh:
            ops += ["topic %d 1" % x, "config %d 1 5000" % x, "parts %d 3" % x]
            known.append(x)
        # commits of every age (AGE_ROWS) spread over the partitions of the known topics, then EVERY tool: a read-only tool must
        # not expire / touch / rewrite a stale commit (the etcd dump compares keys, values and revisions)
        n = len(initial)
        old_groups = []
        for row in range(AGE_ROWS):
            g = 1 + row // (3 * n)
            ops.append("oldcommit %d %d %d %d %d" % (g, initial[row % n], (row // n) % 3, 40 + row, row))
            if g not in old_groups:
                old_groups.append(g)
        for t in tools:   # every registered tool at least once, in table order, with explicit names where it takes any
            emit(gen_call(rng, [t], known))
        for g in old_groups:
            emit("call fetch_offsets %d %s" % (g, ",".join(str(x) for x in known)))
            emit("call fetch_offsets %d -" % g)
            emit("call describe_group %d" % g)
        for t in unsorted:   # the by-name form on a topic whose partitions array is stored out of order, alone
            emit("call describe_topics %d" % t)
            emit("call fetch_offsets 1 %d" % t)
        emit("call describe_topics %s" % ",".join(str(x) for x in known))
        emit("call fetch_offsets 1 %s" % ",".join(str(x) for x in known))
        emit("call describe_configs %s" % ",".join(str(x) for x in known[:2]))
    for _ in range(rng.range(8, 20)):
        if rng.chance(1, 4):
            ops.append(gen_load(rng))
        elif unsorted and rng.chance(1, 4):
            # explicit names that include an out-of-order topic (the all-topics form takes another path in the store)
            ns = [rng.choice(unsorted)] + [x for x in known if rng.chance(1, 3)]
            ns = [ns[i] for i in rng_perm(rng, len(ns))]
            tool = rng.choice(["describe_topics", "describe_topics", "fetch_offsets", "describe_configs"])
            arg = ",".join(str(x) for x in ns)
            emit("call %s %s" % (tool, ("%s %s" % (rng.choice(["0", "1", "2"]), arg)) if tool == "fetch_offsets" else arg))
        else:
            emit(gen_call(rng, tools, known))
    return ops


def rng_perm(rng, n):
    idx = list(range(n))
    for i in range(n - 1, 0, -1):
        j = rng.below(i + 1)
        idx[i], idx[j] = idx[j], idx[i]
    return idx


# ------------------------------------------------------------------ monitor / compare

def monitor(ops, out):
    for i, (op, o) in enumerate(zip(ops, out)):
        if not op.startswith("call"):
            continue
        tool = op.split()[1]
        if " panic " in o or o.endswith(" panic"):
            return i, "tool-panic:" + tool, "tool %s panicked on %r" % (tool, op)
        m = re.search(r"mem=(\S+) etcd=(\S+)", o)
        if not m:
            continue
        if m.group(1) != "same":
            return i, "tool-changed-store:" + tool, "tool %s changed the in-memory store: %s" % (tool, m.group(1)[:240])
        if m.group(2) not in ("same", "-", "skipped"):
            return i, "tool-changed-store:" + tool, "tool %s changed the etcd store: %s" % (tool, m.group(2)[:240])
    return None


def visible(o):
    o = re.sub(r" mem=\S+ etcd=\S+ agree=\S+$", "", o)
    o = o.replace(" etcd-differs", "")
    if o.startswith("callraw "):
        o = " ".join(o.split()[:2])
    return o


def run_impl(ck, binary, ops, tag, etcd=True):
    fn = ck.path("ops_%s.txt" % tag)
    open(fn, "w").write("\n".join(ops) + "\n")
    rc, out, err = ck.run_bin(binary, stdin_path=fn, timeout=600, env={"VERIF_C40_ETCD": "1" if etcd else "0"})
    impl = out.split("\n")[:-1]
    if rc == 3 and etcd:
        ck.notes.append("embedded etcd did not start; EtcdStore not exercised in this run: " + out[-200:])
        return run_impl(ck, binary, ops, tag, etcd=False)
    if rc != 0 or len(impl) != len(ops):
        return fn, impl, "impl-crash rc=%s lines=%d/%d %s" % (rc, len(impl), len(ops), err[-500:])
    return fn, impl, None


def _report(ck, binary, ops, mon):
    i, fp, what = mon
    if fp in [v["fingerprint"] for v in ck.violations]:
        return
    budget = [40]
    head = [o for o in ops[:i] if not o.startswith("call")]   # keep the population, drop earlier tool calls

    def fails(cand):
        budget[0] -= 1
        if budget[0] < 0:
            return False
        _, io, crash = run_impl(ck, binary, cand + [ops[i]], "dd")
        if crash:
            return False
        m = monitor(cand + [ops[i]], io)
        return m is not None and m[1] == fp
    small = head
    if fails(head):
        small = [ops[0]] + lib.ddmin(head[1:], lambda c: fails([ops[0]] + c)) if len(head) > 1 else head
    else:
        small = ops[:i]
    ck.violation(fp, what, {"ops": small + [ops[i]], "expected": "store snapshot identical before and after the tool call",
                            "actual": what})


def run(ck):
    binary = _binary(ck)
    if binary is None:
        return
    tools_facts = getattr(ck, "_c40_tools", None)
    if tools_facts is None:
        _, tools_facts = extract(ck, binary)
    tools = [t["name"] for t in tools_facts]
    ck.cov["rule"] = ("cases = generated store populations (through the real mutators) interleaved with tool calls with generated "
                      "arguments (incl. raw malformed JSON and unregistered tool names); a case is non-trivial when at least four "
                      "different tools answered without error on a store holding topics, committed offsets and groups; distinct = distinct op files")
    ncases = 40 if ck.quick() else 400
    cases = [gen_case(ck.rng.fork(), tools, first=(i == 0)) for i in range(ncases)]
    all_ops, bounds = [], []
    for ops in cases:
        bounds.append((len(all_ops), len(all_ops) + len(ops)))
        all_ops += ops
    fn, impl, crash = run_impl(ck, binary, all_ops, "all")
    if crash:
        ck.broke("implementation harness did not answer every op", crash)
        return
    try:
        model = ck.lean_run("C40", fn)
        if len(model) != len(all_ops):
            raise RuntimeError("model driver answered %d of %d ops" % (len(model), len(all_ops)))
    except Exception as e:
        ck.broke("model driver", repr(e)[-2000:])
        model = None
    diffs = []
    for (a, b) in bounds:
        ops, io = all_ops[a:b], impl[a:b]
        answered = set(o.split()[1] for op, o in zip(ops, io) if op.startswith("call ") and " err " not in o + " " and len(o.split()) > 2
                       and o.split()[2] != "err")
        ck.count("tool_calls", sum(1 for o in ops if o.startswith("call")))
        ck.count("tool_errors", sum(1 for o in io if re.match(r"call\S* \S+ err", o)))
        ck.count("etcd_result_differs_from_inmemory", sum(1 for o in io if o.endswith("agree=false")))
        ck.count("etcd_snapshots", sum(1 for o in io if " etcd=same" in o))
        ck.count("etcd_snapshots_skipped_unsettled", sum(1 for o in io if " etcd=skipped" in o))
        for op, o in zip(ops, io):
            if op.startswith("call"):
                ck.count("tool:" + op.split()[1] if op.split()[1] in tools else "tool:(unregistered)")
        ck.count("old_commits", sum(1 for o in ops if o.startswith("oldcommit")))
        ck.count("fetch_offsets_after_old_commit_of_that_group",
                 sum(1 for k, o in enumerate(ops) if o.startswith("call fetch_offsets ") and len(o.split()) > 2
                     and any(p.startswith("oldcommit %s " % o.split()[2]) for p in ops[:k])))
        populated = any(o.startswith("commit") for o in ops) and any(o.startswith("group") for o in ops)
        ck.count("topics_with_unsorted_replica_lists", sum(1 for o in ops if o.startswith("rtopic")))
        pts = set(o.split()[1] for o in ops if o.startswith("ptopic"))
        ck.count("topics_with_unsorted_partition_arrays", len(pts))
        ck.count("by_name_calls_on_unsorted_partition_arrays",
                 sum(1 for o in ops if o.startswith("call ") and len(o.split()) > 2 and o.split()[1] in ("describe_topics", "describe_configs", "fetch_offsets")
                     and pts & set(o.split()[-1].split(","))))
        ck.count("describe_topics_with_explicit_names", sum(1 for o in ops if o.startswith("call describe_topics ") and not o.endswith(" -")))
        ck.count("repeated_calls", sum(1 for x, y in zip(ops, ops[1:]) if x == y and x.startswith("call")))
        ck.case(tuple(ops), nontrivial=(len(answered) >= 4 and populated), sample={"ops": ops[:8], "impl": io[:8]})
        ck.cov["traces_validated_against_impl"] += 1
        mon = monitor(ops, io)
        if mon is not None:
            _report(ck, binary, ops, mon)
            continue
        if model is not None:
            mo = model[a:b]
            for j in range(len(ops)):
                if visible(io[j]) != mo[j]:
                    diffs.append((ops, j, io[j], mo[j]))
                    break
    if diffs:
        ck.cov["disagreements_checked"] += len(diffs)
    if diffs and not ck.violations:
        ops, j, il, ml = diffs[0]
        ck.broke("correspondence model/implementation (MCP tool outputs)",
                 "%d of %d cases disagree; first: op #%d %r\nimpl : %s\nmodel: %s\nprefix: %s"
                 % (len(diffs), len(cases), j, ops[j], il, ml, json.dumps(ops[:j + 1][-14:])))
    if ck.broken and not ck.violations:
        # hunt: more populations, monitors only
        for i in range(12):
            ops = gen_case(ck.rng.fork(), tools, first=(i % 3 == 0))
            _, io, crash = run_impl(ck, binary, ops, "hunt")
            ck.cov["evaluations"] += 1
            if crash:
                continue
            mon = monitor(ops, io)
            if mon:
                _report(ck, binary, ops, mon)
                break


def replay(ck, path):
    rep = json.load(open(path))
    binary = _binary(ck)
    if binary is None:
        return
    ops = rep.get("ops")
    if not ops:
        print("replay file holds no op list (broken obligation/correspondence record):")
        print(json.dumps(rep.get("no_longer_checks", rep), indent=1)[:4000])
        return
    fn, io, crash = run_impl(ck, binary, ops, "replay")
    for o, r in zip(ops, io):
        print("  %-40s -> %s" % (o[:40], r))
    ck.case(tuple(ops), sample={"ops": ops})
    ck.cov["evaluations"] = max(ck.cov["evaluations"], 1); ck.cov["distinct_nontrivial"] = 2
    if crash:
        ck.broke("implementation harness did not answer every op", crash)
        return
    mon = monitor(ops, io)
    if mon:
        ck.violation(mon[1], mon[2], {"ops": ops, "actual": mon[2]})
