"""C05 — the durable high watermark (metadata store next_offset) never regresses or runs ahead of S3."""
from checks import lib
from checks import C01_common as K

PROPERTY = "C05"
LEAN_MODULES = ["KafVerif.Props.C05"]
OBLIGATIONS = [
    "KafVerif.C05.hw_mono",
    "KafVerif.C05.hw_mono_run",
    "KafVerif.C05.hw_le_durable",
    "KafVerif.C05.hw_le_committed",
    "KafVerif.C05.old_regresses",
    "KafVerif.C05.fixed_does_not_regress_here",
    "KafVerif.C05.old_runs_ahead",
    "KafVerif.C05.etcd_hw_mono",
    "KafVerif.C05.etcd_hw_mono_run",
    "KafVerif.C05.etcd_compare_once_regresses",
    "KafVerif.C05.etcd_fixed_same_schedule",
]
TECHNIQUE = ("Lean 4 proof (step-wise monotonicity for every step from every state; inductive invariant for the S3 bound) over a hand-written model of the flush protocol and UpdateOffsets + schedule x fault enumeration on the real broker code with a gated onFlush/UpdateOffsets, diffed against the model + direct monitor")
LEVEL_TEXT = ("Lean 4 theorems: no step of the system (append, flush, upload outcome, callback in any order, store failure, crash, restart) lowers the stored next_offset (hw_mono, for every state); in every reachable state every offset below next_offset is covered by an S3 segment object with its index (hw_le_durable). The pre-fix code is refuted on both halves by concrete schedules (old_regresses, old_runs_ahead). Model tied to the current source by replaying all small schedules and random larger ones on the real code, including reordered and failing UpdateOffsets callbacks on the real InMemoryStore.")
LEVEL_NOTE = ("Trusted: Lean kernel; the hand-written transition system `StorageLog` (one step = one l.mu critical section / one S3 or store call / one condvar wake-up; sync.Mutex, sync.Cond, errgroup and S3 put semantics assumed); the Go harness, its quiescence detection and its schedule generators (the tie sees only the schedules it runs: all schedules of 2-3 producers with bounded faults/crashes + random ones). Not covered: acks=0 / flush-off mode, int64 overflow, header lies (C02), two broker incarnations at once (C18/C19), EtcdStore.UpdateOffsets under concurrent writers (only its sequential behaviour is pinned by the repo tests).")
BUILDS = dict(K.BUILDS, e=("root", "./cmd/verif_c05", ["C05"]))
ASSUMPTIONS = K.ASSUMPTIONS + [
    "the metadata store in the broker schedules is the real InMemoryStore behind a gate on UpdateOffsets (the callback of each flush can be delayed past later flushes, or fail)",
    "EtcdStore.UpdateOffsets is driven separately: the real method over an embedded etcd server, 2-4 concurrent callers, every Get / Txn.Commit parked in an interposed clientv3.KV and released by the schedule (all interleavings of small plans + random ones); etcd is linearizable, a txn is atomic, a successful put gets a fresh larger mod revision (assumed); only UpdateOffsets callers write the key (DeleteTopic is out of scope)",
]
TRUSTED = K.TRUSTED
WHICH = {"C05"}


def plans(quick):
    P = K.Plan
    enum = [
        ("2 split producers, callbacks reordered / failing, <=2 faults", P([("append", 1), ("append", 2)], faults=2, pubfail=True), 3000),
        ("split + handler producer, MaxBatches=1 (every append flushes), <=1 fault", P([("append", 1), ("produce", 1)], kb=1, faults=1), 3000),
        ("3 handler producers, no fault (callback orders)", P([("produce", 1), ("produce", 1), ("produce", 1)], faults=0), 3000),
    ]
    if not quick:
        enum.append(("3 split producers, <=1 fault incl. store failures", P([("append", 1), ("append", 1), ("append", 2)], faults=1, pubfail=True), 12000))
        enum.append(("2 split producers + crash, <=1 fault", P([("append", 1), ("append", 2)], faults=1, crashes=1, pubfail=True), 6000))
    rnd = [
        P([("append", 1), ("produce", 2), ("append", 1)], faults=1, pubfail=True),
        P([("produce", 1), ("produce", 1), ("append", 3), ("produce", 1)], kb=1, faults=2),
        P([("append", 2), ("append", 1), ("append", 1), ("produce", 1)], km=2, faults=2, pubfail=True),
        P([("append", 1), ("append", 1), ("append", 1)], faults=1, crashes=1),
    ]
    return enum, rnd


# ----------------------------------------------------------------------------- EtcdStore.UpdateOffsets
class EtcdImpl(K.Impl):
    def __init__(self, ck, binary):
        import subprocess
        env = lib.go_env()
        self.p = subprocess.Popen([binary], env=env, stdin=subprocess.PIPE, stdout=subprocess.PIPE,
                                  stderr=subprocess.DEVNULL, text=True, bufsize=1, cwd=ck.scratch)
        self.n = 0


def etcd_choices(line, lasts, started, faults_left):
    d = K.parse(line)
    cs = []
    for t, pc in sorted(K.pcs_of(d).items()):
        if pc in ("get", "txn"):
            cs.append("%s %d ok" % (pc, t))
            if faults_left > 0:
                cs.append("%s %d fail" % (pc, t))
    if started < len(lasts):
        cs.append("call %d %d" % (started, lasts[started]))
    return cs


def etcd_play(im, lasts, faults, pick, maxlen=40):
    ops = ["new fixed"]
    lines = [im.do(ops[0])]
    started = used = depth = 0
    while len(ops) < maxlen:
        cs = etcd_choices(lines[-1], lasts, started, faults - used)
        if not cs:
            break
        cmd = pick(depth, cs)
        if cmd is None:
            break
        depth += 1
        if cmd.startswith("call"):
            started += 1
        if cmd.endswith("fail"):
            used += 1
        ops.append(cmd)
        lines.append(im.do(cmd))
    return ops, lines


def etcd_enumerate(im, lasts, faults, limit):
    stack, out, exhausted = [[]], [], True
    while stack:
        if len(out) >= limit:
            exhausted = False
            break
        prefix = stack.pop()
        branch = []

        def pick(depth, cs):
            if depth < len(prefix):
                return cs[prefix[depth]] if prefix[depth] < len(cs) else None
            branch.append(len(cs))
            return cs[0]
        out.append(etcd_play(im, lasts, faults, pick))
        for j, ncs in enumerate(branch):
            for alt in range(ncs - 1, 0, -1):
                stack.append(prefix + [0] * j + [alt])
    return out, exhausted


def etcd_monitor(ops, lines):
    prev = 0
    for i, (op, ln) in enumerate(zip(ops, lines)):
        d = K.parse(ln)
        if op.startswith("new"):
            prev = 0
        if d["res"] == "stuck":
            return i, "etcd-harness-stuck", "caller did not reach its next etcd operation after %r" % op
        v = d.get("val", "-")
        cur = 0 if v == "-" else (int(v) if v.isdigit() else -1)
        if cur < prev:
            return i, "etcd-hw-regressed", "next_offset stored in etcd went from %d back to %s" % (prev, v)
        prev = cur
    return None


def run_etcd(ck, binary):
    """EtcdStore.UpdateOffsets under concurrent callers: monitor + correspondence with StorageLogEtcd."""
    quick = ck.quick()
    plans = [([4, 9], 1, 2000), ([9, 4], 1, 2000), ([3, 9, 5], 0, 250 if quick else 8000)]
    if not quick:
        plans += [([3, 9, 5], 1, 8000), ([5, 2, 9, 7], 0, 6000)]
    im = EtcdImpl(ck, binary)
    try:
        scheds = []
        for lasts, faults, limit in plans:
            got, exhausted = etcd_enumerate(im, lasts, faults, limit)
            ck.log("etcd UpdateOffsets callers %s, <=%d failed ops: %d schedules%s" % (lasts, faults, len(got), "" if exhausted else " (limit reached)"))
            ck.count("etcd_enumerated:%s/f%d" % (lasts, faults), len(got))
            scheds += got
        for i in range(50 if quick else 1500):
            rng = ck.rng.fork()
            lasts = [rng.below(12) for _ in range(rng.range(2, 4))]
            scheds.append(etcd_play(im, lasts, rng.below(3), lambda depth, cs: rng.choice(cs)))
        bad = False
        for ops, lines in scheds:
            ck.count("etcd_schedules")
            ck.count("etcd_steps", len(ops))
            conflicts = sum(1 for a, b in zip(lines, lines[1:]) if False)
            ck.case(("etcd",) + tuple(ops), nontrivial=sum(1 for o in ops if o.startswith("call")) >= 2,
                    sample={"ops": ops[:12], "impl": lines[:12]} if ck.cov["evaluations"] % 500 == 1 else None)
            mon = etcd_monitor(ops, lines)
            if mon is not None and not bad:
                i, fp, msg = mon
                head, tail = ops[:1], ops[1:i + 1]

                def fails(cand):
                    ls = [im.do(o) for o in head + cand]
                    m = etcd_monitor(head + cand, ls)
                    return m is not None and m[1] == fp
                small = head + lib.ddmin(tail, fails)
                ck.violation(fp, msg, {"ops": small, "harness": "etcd", "expected": "stored next_offset never decreases",
                                       "actual": msg})
                bad = True
        if bad:
            return False
        all_ops = [o for ops, _ in scheds for o in ops]
        all_impl = [l for _, lines in scheds for l in lines]
        fn = ck.path("etcd_ops.txt")
        open(fn, "w").write("\n".join(all_ops) + "\n")
        model = ck.lean_run("C05", fn)
        ck.cov["traces_validated_against_impl"] += len(scheds)
        dd = lib.first_diff(all_impl, model)
        if dd is not None:
            ck.cov["disagreements_checked"] += 1
            lo = max(j for j in range(dd + 1) if all_ops[j].startswith("new"))
            ck.broke("correspondence model/implementation (StorageLogEtcd: EtcdStore.UpdateOffsets)",
                     "schedule: %s\nat op %r\nimpl : %s\nmodel: %s" % (" ; ".join(all_ops[lo:dd + 1]), all_ops[dd],
                                                                        all_impl[dd] if dd < len(all_impl) else None,
                                                                        model[dd] if dd < len(model) else None))
            return False
        return True
    finally:
        im.close()


def run(ck):
    bins = ck.build_all()
    if bins is None:
        return
    binary = bins["h"]
    if not run_etcd(ck, bins["e"]):
        return
    ck.cov["rule"] = ("schedules (which gated goroutine proceeds: S3 uploads with outcome, UpdateOffsets callbacks with outcome) generated against the real broker from VERIF_SEED; "
                      "non-trivial = >=2 producers and (a fault or a Flush waiter or a crash); distinct = distinct command lists")
    enum, rnd = plans(ck.quick())
    if not K.corpus(ck, binary, PROPERTY, WHICH):
        enum = []
    im = K.Impl(ck, binary)
    try:
        exhaustive = True
        for what, plan, limit in enum:
            scheds = []
            info = None
            for ops, lines, info in K.enumerate_schedules(im, plan, limit):
                if ops is not None:
                    scheds.append((ops, lines))
            exhaustive = exhaustive and info["exhausted"]
            ck.log("%s: %d schedules%s" % (what, len(scheds), "" if info["exhausted"] else " (limit reached)"))
            ck.count("enumerated:" + what, len(scheds))
            if not K.check_schedules(ck, binary, scheds, WHICH, what):
                break
        else:
            n = 150 if ck.quick() else 3000
            scheds = [K.random_schedule(im, rnd[i % len(rnd)], ck.rng.fork()) for i in range(n)]
            K.check_schedules(ck, binary, scheds, WHICH, "random 3-4 producers")
        ck.cov["exhaustive"] = exhaustive
    finally:
        im.close()
    if ck.broken and not ck.violations:
        K.hunt(ck, binary, WHICH, rnd, 300 if ck.quick() else 3000)


def replay(ck, path):
    import json
    rep = json.load(open(path))
    if rep.get("harness") != "etcd":
        return K.replay(ck, path, WHICH)
    bins = ck.build_all()
    if bins is None:
        return
    im = EtcdImpl(ck, bins["e"])
    try:
        ops = rep["ops"]
        lines = [im.do(o) for o in ops]
    finally:
        im.close()
    for o, r in zip(ops, lines):
        print("  %-12s -> %s" % (o, r))
    ck.case(tuple(ops), sample={"ops": ops})
    ck.cov["distinct_nontrivial"] = max(ck.cov["distinct_nontrivial"], 2)
    mon = etcd_monitor(ops, lines)
    if mon:
        ck.violation(mon[1], mon[2], {"ops": ops, "harness": "etcd", "actual": mon[2]})
