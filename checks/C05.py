"""C05 — the durable high watermark (metadata store next_offset) never regresses or runs ahead of S3."""
from checks import lib
from checks import C01_common as K

PROPERTY = "C05"
LEAN_MODULES = ["KafVerif.Props.C05"]
OBLIGATIONS = [
    "KafVerif.C05.hw_mono",
    "KafVerif.C05.hw_mono_run",
    "KafVerif.C05.hw_le_durable",
    "KafVerif.C05.hw_le_committed",
    "KafVerif.C05.old_regresses",
    "KafVerif.C05.fixed_does_not_regress_here",
    "KafVerif.C05.old_runs_ahead",
]
TECHNIQUE = ("Lean 4 proof (step-wise monotonicity for every step from every state; inductive invariant for the S3 bound) over a hand-written model of the flush protocol and UpdateOffsets + schedule x fault enumeration on the real broker code with a gated onFlush/UpdateOffsets, diffed against the model + direct monitor")
LEVEL_TEXT = ("Lean 4 theorems: no step of the system (append, flush, upload outcome, callback in any order, store failure, crash, restart) lowers the stored next_offset (hw_mono, for every state); in every reachable state every offset below next_offset is covered by an S3 segment object with its index (hw_le_durable). The pre-fix code is refuted on both halves by concrete schedules (old_regresses, old_runs_ahead). Model tied to the current source by replaying all small schedules and random larger ones on the real code, including reordered and failing UpdateOffsets callbacks on the real InMemoryStore.")
LEVEL_NOTE = ("Trusted: Lean kernel; the hand-written transition system `StorageLog` (one step = one l.mu critical section / one S3 or store call / one condvar wake-up; sync.Mutex, sync.Cond, errgroup and S3 put semantics assumed); the Go harness, its quiescence detection and its schedule generators (the tie sees only the schedules it runs: all schedules of 2-3 producers with bounded faults/crashes + random ones). Not covered: acks=0 / flush-off mode, int64 overflow, header lies (C02), two broker incarnations at once (C18/C19), EtcdStore.UpdateOffsets under concurrent writers (only its sequential behaviour is pinned by the repo tests).")
BUILDS = K.BUILDS
ASSUMPTIONS = K.ASSUMPTIONS + [
    "the metadata store in the schedules is the real InMemoryStore behind a gate on UpdateOffsets (the callback of each flush can be delayed past later flushes, or fail); EtcdStore.UpdateOffsets is exercised separately only by the repo's own tests",
]
TRUSTED = K.TRUSTED
WHICH = {"C05"}


def plans(quick):
    P = K.Plan
    enum = [
        ("2 split producers, callbacks reordered / failing, <=2 faults", P([("append", 1), ("append", 2)], faults=2, pubfail=True), 3000),
        ("split + handler producer, MaxBatches=1 (every append flushes), <=1 fault", P([("append", 1), ("produce", 1)], kb=1, faults=1), 3000),
        ("3 handler producers, no fault (callback orders)", P([("produce", 1), ("produce", 1), ("produce", 1)], faults=0), 3000),
    ]
    if not quick:
        enum.append(("3 split producers, <=1 fault incl. store failures", P([("append", 1), ("append", 1), ("append", 2)], faults=1, pubfail=True), 12000))
        enum.append(("2 split producers + crash, <=1 fault", P([("append", 1), ("append", 2)], faults=1, crashes=1, pubfail=True), 6000))
    rnd = [
        P([("append", 1), ("produce", 2), ("append", 1)], faults=1, pubfail=True),
        P([("produce", 1), ("produce", 1), ("append", 3), ("produce", 1)], kb=1, faults=2),
        P([("append", 2), ("append", 1), ("append", 1), ("produce", 1)], km=2, faults=2, pubfail=True),
        P([("append", 1), ("append", 1), ("append", 1)], faults=1, crashes=1),
    ]
    return enum, rnd


def run(ck):
    bins = ck.build_all()
    if bins is None:
        return
    binary = bins["h"]
    ck.cov["rule"] = ("schedules (which gated goroutine proceeds: S3 uploads with outcome, UpdateOffsets callbacks with outcome) generated against the real broker from VERIF_SEED; "
                      "non-trivial = >=2 producers and (a fault or a Flush waiter or a crash); distinct = distinct command lists")
    enum, rnd = plans(ck.quick())
    if not K.corpus(ck, binary, PROPERTY, WHICH):
        enum = []
    im = K.Impl(ck, binary)
    try:
        exhaustive = True
        for what, plan, limit in enum:
            scheds = []
            info = None
            for ops, lines, info in K.enumerate_schedules(im, plan, limit):
                if ops is not None:
                    scheds.append((ops, lines))
            exhaustive = exhaustive and info["exhausted"]
            ck.log("%s: %d schedules%s" % (what, len(scheds), "" if info["exhausted"] else " (limit reached)"))
            ck.count("enumerated:" + what, len(scheds))
            if not K.check_schedules(ck, binary, scheds, WHICH, what):
                break
        else:
            n = 250 if ck.quick() else 3000
            scheds = [K.random_schedule(im, rnd[i % len(rnd)], ck.rng.fork()) for i in range(n)]
            K.check_schedules(ck, binary, scheds, WHICH, "random 3-4 producers")
        ck.cov["exhaustive"] = exhaustive
    finally:
        im.close()
    if ck.broken and not ck.violations:
        K.hunt(ck, binary, WHICH, rnd, 300 if ck.quick() else 3000)


def replay(ck, path):
    K.replay(ck, path, WHICH)
