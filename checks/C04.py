"""C04 — a fetch below the high watermark always makes progress.

Shares model, storage harness, generators and monitors with checks/C03.py."""
from checks import lib
from checks import C03 as base

PROPERTY = "C04"
LEAN_MODULES = ["KafVerif.Props.C04", "KafVerif.Props.C03"]
OBLIGATIONS = [
    "KafVerif.C04.findIndexEntry_le",
    "KafVerif.C04.segment_progress",
    "KafVerif.C04.fetch_progress",
    "KafVerif.C04.fetch_progress_reachable",
    "KafVerif.C04.below_watermark_has_batch",
    "KafVerif.C04.old_livelock",
    "KafVerif.C04.fetch_progress_gapped",
    "KafVerif.C04.fetch_progress_after_loss",
    "KafVerif.C04.fetch_progress_after_loss_run",
    "KafVerif.C04.search_lookup_misses_hole",
    "KafVerif.C04.restore_rejects_committed_without_index",
    "KafVerif.C04.restore_rejects_after_index_loss",
    "KafVerif.C04.restored_segments_indexed",
    "KafVerif.C04.lenient_restore_no_progress",
    "KafVerif.C03.handouts_stable",
    "KafVerif.C03.shared_buffer_unstable",
]
ASSUMPTIONS = base.ASSUMPTIONS + [
    "every committed segment has a non-empty index (BuildSegment always writes the first entry); a restore never registers a segment without index entries "
    "(restore_rejects_committed_without_index, restored_segments_indexed; validated by the orphans stream: lost index of a committed multi-batch segment + restart, "
    "the reads that follow are judged whenever the implementation's restore succeeded)",
]
TECHNIQUE = base.TECHNIQUE
LEVEL_TEXT = ("Lean 4 theorems (also for segment lists with holes after object loss + restore: fetch_progress_after_loss), for every index interval, cache setting and every operation sequence whose accepted record sets declare their "
              "length: for every offset with start <= o < nextOffset and every byte limit the modelled Read returns non-empty data that starts at "
              "the first byte of the batch holding o (cached, range-read, full-download, flush-window, buffer paths; fetch_progress_reachable). "
              "The pre-fix code is shown to livelock. Model tied to the current source by differential runs over generated layouts/offsets/limits.")
LEVEL_NOTE = base.LEVEL_NOTE
BUILDS = {"st": ("root", "./cmd/verif_c03", ["C03"]), "br": ("root", "./cmd/broker", ["C02", "C03"])}
DRIVER = "C04"


def layouts(ck, n):
    """C04's own stream: one segment layout per case (batch sizes x sparse index), then reads at every
    offset of the segment with limits around every distance index-entry -> batch."""
    ops = []
    r = ck.rng
    for c in range(n):
        g = base.Gen(r.fork(), malformed=False, multi=False, gates=False, restarts=False)
        iv = r.choice([100, 100, 100, 3, 2, 7, 1])
        cache = c % 2
        start = r.choice([0, 0, 17, 2 ** 33])
        ops.append("new %d %d %d" % (iv, cache, start))
        nseg = r.range(1, 2)
        nxt = start
        lay = []
        for s in range(nseg):
            nb = r.range(2, 7)
            for _ in range(nb):
                hx = g.batch_hex(0, False)
                b = bytes.fromhex(hx)
                lod = int.from_bytes(b[23:27], "big", signed=True)
                lay.append((nxt, nxt + lod, len(b)))
                nxt += lod + 1
                ops.append("append " + hx)
            ops.append("flush")
        if r.chance(1, 3):
            ops.append("restart")
        if r.chance(1, 2):
            hx = g.batch_hex(0, False)
            b = bytes.fromhex(hx)
            lay.append((nxt, nxt + int.from_bytes(b[23:27], "big", signed=True), len(b)))
            ops.append("append " + hx)
        for i, (a, z, ln) in enumerate(lay):
            for o in sorted(set([a, z])):
                dist = sum(x[2] for x in lay[:i])
                for m in sorted(set([1, 61, ln - 1, ln, ln + 1, max(1, dist), dist + 1, dist + ln, r.choice(base.MAXBYTES[:18])])):
                    if m > 0 and r.chance(2, 3):
                        if r.chance(1, 5):
                            ops.append("dropcache")
                        ops.append("read %d %d" % (o, m))
    return ops


def run(ck):
    ck.partial = ("fetch_progress_reachable covers every reachable log whose accepted record sets declare their batch length; across a stored "
                  "record set with a zero length field the frame walk cannot advance (known finding undeclared-batch-length-stops-frame-walk); "
                  "holes: fetch_progress_after_loss(_run) cover one loss+restart after any fault-free history and every later state up to the next "
                  "restart (fetch_progress_gapped: any log with the gapped invariant); a second loss+restart round (orphans left in S3 by the first) "
                  "is covered by the holes stream (correspondence + monitor) only")
    bins = ck.build_all()
    if bins is None:
        return
    ck.cov["rule"] = ("(00) orphans: the index object of a COMMITTED multi-batch segment deleted/corrupted + restart above its base (the unchanged code refuses the "
                      "partition; when the implementation's restore succeeds every read at every batch of that segment, limits below/at/above the distance from the "
                      "segment start, cached and uncached, is judged), and half-uploaded flushes (orphans above the last valid segment); "
                      "(0) holes: 3-5 segments, the index object of a (mostly middle) segment deleted/corrupted or a segment object deleted, restart at a stale "
                      "store offset (orphan rule of RestoreFromS3), reads at every segment/batch boundary in, before and after the hole, tail appended after the "
                      "restart, second loss round; every slice returned by Read re-compared with a private copy after every later op, two concurrent readers (read2); "
                      "(a) segment layouts (2-7 batches per segment, index interval in {100,3,2,7,1}, cache on/off, restart) read at the first "
                      "and last offset of every batch with byte limits around every batch length and every distance from the segment start; "
                      "(b) the shared append/flush/gate/restart/read histories of C03; non-trivial = a read returned data for an offset that is "
                      "not the first offset of its segment; distinct = distinct op files; broker stream (handleProduce/handleFetch/brestart, acks in {-1,1,0}, flush-on-ack on/off): "
                      "non-trivial = a fetch returned data and a produce was rejected")
    ncases, nops = (16, 70) if ck.quick() else (200, 110)
    base.corpus(ck, bins, "C04")
    ok = base.run_streams(ck, bins, "C04", DRIVER, [
        ("layouts", "st", layouts(ck, 24 if ck.quick() else 200)),
        ("holes", "st", base.holes_ops(ck, 10 if ck.quick() else 80)),
        ("orphans", "st", base.orphan_ops(ck, 8 if ck.quick() else 80)),
        ("histories", "st", base.storage_ops(ck, ncases, nops)),
        ("broker", "br", base.broker_ops(ck, 6 if ck.quick() else 60, 60)),
    ])
    if not ok and not ck.violations:
        base.hunt(ck, bins["st"], "C04", 40 if ck.quick() else 400, 90)


def replay(ck, path):
    base.replay_generic(ck, path, "C04")
