"""C06 — a broker restart after any crash point loses no acknowledged record and reuses no acknowledged/published offset."""
from checks import lib
from checks import C01_common as K

PROPERTY = "C06"
LEAN_MODULES = ["KafVerif.Props.C06"]
OBLIGATIONS = [
    "KafVerif.C06.restart",
    "KafVerif.C06.restore_succeeds",
    "KafVerif.C06.next_beyond_acked",
    "KafVerif.C06.append_fresh",
    "KafVerif.C06.old_violates",
    "KafVerif.C06.one_log_per_partition",
    "KafVerif.C06.no_recheck_two_logs",
    "KafVerif.C06.no_recheck_two_logs_late_do",
    "KafVerif.C06.recheck_same_schedule",
]
TECHNIQUE = ("Lean 4 proof (inductive invariant incl. crash in every state and the RestoreFromS3 scan with the orphan rule) over a hand-written model + crash-point x schedule x fault enumeration on the real broker code (new handler re-opened through getPartitionLog on the surviving S3 objects and store), diffed against the model + direct monitor")
LEVEL_TEXT = ("Lean 4 theorems: from EVERY reachable state, crash then re-open: the re-open succeeds, every batch acknowledged before the crash lies in a registered segment covering its base offset whose S3 object (with index) contains it, the next offset to assign is beyond every acknowledged offset and not below the published watermark (restart, restore_succeeds); in every reachable state AppendBatch hands out a base beyond all acknowledged/published offsets (append_fresh). Leftover objects (orphan segment, orphan index, complete uncommitted pair) are part of the reachable states. The pre-fix code is refuted (old_violates). Tied to the source by crash-point enumeration on the real code.")
LEVEL_NOTE = ("Trusted: Lean kernel; the hand-written transition system `StorageLog` (one step = one l.mu critical section / one S3 or store call / one condvar wake-up; sync.Mutex, sync.Cond, errgroup and S3 put semantics assumed); the Go harness, its quiescence detection and its schedule generators (the tie sees only the schedules it runs: all schedules of 2-3 producers with bounded faults/crashes + random ones). Not covered: acks=0 / flush-off mode, int64 overflow, header lies (C02), two broker incarnations at once (C18/C19), EtcdStore.UpdateOffsets under concurrent writers (only its sequential behaviour is pinned by the repo tests).")
BUILDS = K.BUILDS
ASSUMPTIONS = K.ASSUMPTIONS + [
    "crash points are the gates (before/after each of the two uploads, before the UpdateOffsets callback, between AppendBatch and Flush) plus every quiescent state; the model's theorem allows a crash in EVERY state of the finer-grained system",
    "restart = a new handler on the same S3 contents and metadata store; the partition log is re-opened through the real getPartitionLog (NextOffset, RestoreFromS3, offset sync)",
    "registry scenario: k concurrent first produce requests on a freshly started broker open the partition themselves (real handleProduce -> getPartitionLog -> singleflight), parked at store.NextOffset / store.CreateTopic; the window between the fast-path miss and logInit.Do has no seam, so that interleaving is reached deterministically through the auto-create retry loop and additionally by an ungated stress round (8 goroutines x 150 fresh brokers, probabilistic)",
]
TRUSTED = K.TRUSTED
WHICH = {"C06"}


def plans(quick):
    P = K.Plan
    enum = [
        ("2 split producers, one crash anywhere, <=1 upload fault", P([("append", 1), ("append", 2)], faults=1, crashes=1), 3000),
    ]
    if not quick:
        enum.append(("1 producer, restart, 1 handler producer; two crashes, <=1 fault", P([("append", 2), ("produce", 1)], faults=1, crashes=2), 12000))
        enum.append(("3 producers, MaxBatches=2, one crash, <=1 fault", P([("produce", 1), ("append", 1), ("append", 2)], kb=2, faults=1, crashes=1), 12000))
    rnd = [
        P([("append", 1), ("produce", 2), ("append", 1), ("produce", 1)], faults=2, crashes=2),
        P([("produce", 1), ("append", 1), ("append", 3), ("produce", 1), ("append", 1)], kb=2, faults=2, crashes=3, maxlen=80),
        P([("append", 2), ("append", 1), ("produce", 1), ("append", 1)], km=3, faults=3, crashes=2, pubfail=True),
        P([("append", 2), ("produce", 1), ("append", 1)], faults=1, crashes=2),
    ]
    return enum, rnd


# ----------------------------------------------------------------------------- partition-log registry
REG_OPS = ("rnew", "rprod", "nxt", "mk")


def reg_canon(line):
    """registry view of an implementation line: where each request is w.r.t. getPartitionLog"""
    d = K.parse(line)
    m = {"nxt": "nxt", "mk": "mk", "wait": "wait", "failed": "failed", "idle": "idle"}
    pcs = K.pcs_of(d)
    ps = ",".join("%d:%s" % (t, m.get(pc, "got")) for t, pc in sorted(pcs.items())) or "-"
    return "%s pcs=%s logs=%s topic=%s" % (d["res"], ps, d.get("logs", "?"), d.get("topic", "?"))


def reg_choices(line, k, started, faults_left):
    cs = []
    for t, pc in sorted(K.pcs_of(K.parse(line)).items()):
        if pc in ("nxt", "mk"):
            cs.append("%s %d ok" % (pc, t))
            if faults_left > 0:
                cs.append("%s %d fail" % (pc, t))
    if started < k:
        cs.append("rprod %d" % started)
    return cs


def reg_play(im, mode, k, faults, pick):
    ops = ["rnew %s code" % mode]
    lines = [im.do(ops[0])]
    started = used = depth = 0
    while len(ops) < 40:
        cs = reg_choices(lines[-1], k, started, faults - used)
        if not cs:
            break
        cmd = pick(depth, cs)
        if cmd is None:
            break
        depth += 1
        started += cmd.startswith("rprod")
        used += cmd.endswith("fail")
        ops.append(cmd)
        lines.append(im.do(cmd))
    # let the flushes that were parked meanwhile complete, lowest thread first, then restart
    for _ in range(60):
        cs = K.enabled(K.parse(lines[-1]), set(range(k)), 0, 0)
        if not cs:
            break
        ops.append(cs[0])
        lines.append(im.do(cs[0]))
    for cmd in ("crash", "restore", "readcheck"):
        ops.append(cmd)
        lines.append(im.do(cmd))
    return ops, lines


def reg_enumerate(im, mode, k, faults, limit):
    stack, out, exhausted = [[]], [], True
    while stack:
        if len(out) >= limit:
            exhausted = False
            break
        prefix = stack.pop()
        branch = []

        def pick(depth, cs):
            if depth < len(prefix):
                return cs[prefix[depth]] if prefix[depth] < len(cs) else None
            branch.append(len(cs))
            return cs[0]
        out.append(reg_play(im, mode, k, faults, pick))
        for j, ncs in enumerate(branch):
            for alt in range(ncs - 1, 0, -1):
                stack.append(prefix + [0] * j + [alt])
    return out, exhausted


def reg_monitor(ops, lines, which=None):
    for i, (op, ln) in enumerate(zip(ops, lines)):
        d = K.parse(ln)
        if d.get("logs", "0").isdigit() and int(d.get("logs", "0")) > 1:
            return i, "two-logs-for-one-partition", "%s PartitionLog instances were registered for one partition in one broker incarnation" % d["logs"]
    return K.monitor(ops, lines, which or WHICH)


def run_registry(ck, binary, which=None, light=False):
    quick = ck.quick()
    plans = [("auto", 2, 1, 2000), ("exists", 2, 1, 2000), ("auto", 3, 0, 400 if quick else 6000)]
    if light:
        plans = [("auto", 2, 0, 500), ("exists", 2, 0, 500)]
    elif not quick:
        plans += [("exists", 3, 1, 3000), ("auto", 3, 1, 6000)]
    im = K.Impl(ck, binary)
    try:
        scheds = []
        import glob
        import json
        import os
        for fn in sorted(glob.glob(os.path.join(lib.REPLAYS, "C06-registry-*.json"))):
            ops = json.load(open(fn))["ops"]
            scheds.append((ops, [im.do(o) for o in ops]))
        for mode, k, faults, limit in plans:
            got, exhausted = reg_enumerate(im, mode, k, faults, limit)
            ck.log("registry: %d first requests, topic %s, <=%d store failures: %d schedules%s" % (
                k, mode, faults, len(got), "" if exhausted else " (limit reached)"))
            ck.count("registry_enumerated:%s/k%d/f%d" % (mode, k, faults), len(got))
            scheds += got
        for i in range(0 if light else (40 if quick else 800)):
            rng = ck.rng.fork()
            scheds.append(reg_play(im, rng.choice(["auto", "exists"]), rng.range(2, 4), rng.below(3),
                                   lambda depth, cs: rng.choice(cs)))
        for ops, lines in scheds:
            ck.count("registry_schedules")
            ck.case(("registry",) + tuple(ops), nontrivial=sum(1 for o in ops if o.startswith("rprod")) >= 2)
            mon = reg_monitor(ops, lines, which)
            if mon is not None:
                i, fp, msg = mon
                ck.violation(fp, msg, {"ops": ops[:i + 1] if ops[i] != "readcheck" else ops, "expected": "one PartitionLog per partition and incarnation; acknowledged offsets unique and readable after restart",
                                       "actual": msg, "schedule_family": "registry"})
                return False
        # ungated stress: the window between the fast-path miss and logInit.Do
        rounds = 40 if light else (150 if quick else 1500)
        out = [im.do("new 0 0 fixed"), im.do("rrace 8 %d" % rounds)]
        races = K.parse(out[1]).get("races", "?")
        ck.count("registry_race_rounds", rounds)
        if races != "0":
            ck.violation("two-logs-for-one-partition", "8 concurrent getPartitionLog calls on a freshly started broker returned different PartitionLogs in %s of %d rounds" % (races, rounds),
                         {"ops": ["new 0 0 fixed", "rrace 8 %d" % rounds], "actual": out[1], "probabilistic": True})
            return False
        # correspondence with the registry model (lines of the registry commands only)
        m_ops, m_impl = [], []
        for ops, lines in scheds:
            for o, l in zip(ops, lines):
                if o.split()[0] in REG_OPS:
                    m_ops.append(o)
                    m_impl.append(reg_canon(l))
        fn = ck.path("reg_ops.txt")
        open(fn, "w").write("\n".join(m_ops) + "\n")
        model = ck.lean_run("C06", fn)
        ck.cov["traces_validated_against_impl"] += len(scheds)
        dd = lib.first_diff(m_impl, model)
        if dd is not None:
            ck.cov["disagreements_checked"] += 1
            lo = max(j for j in range(dd + 1) if m_ops[j].startswith("rnew"))
            ck.broke("correspondence model/implementation (StorageLogRegistry: getPartitionLog)",
                     "schedule: %s\nat op %r\nimpl : %s\nmodel: %s" % (" ; ".join(m_ops[lo:dd + 1]), m_ops[dd], m_impl[dd],
                                                                        model[dd] if dd < len(model) else None))
            return False
        return True
    finally:
        im.close()


def run(ck):
    bins = ck.build_all()
    if bins is None:
        return
    binary = bins["h"]
    if not run_registry(ck, binary):
        if ck.broken and not ck.violations:
            ck.log("registry correspondence broke; continuing with the crash schedules to search for a failing input")
        else:
            return
    ck.cov["rule"] = ("schedules with crash + restart (new handler, real getPartitionLog/RestoreFromS3 on the surviving S3 objects and store) generated against the real broker from VERIF_SEED; "
                      "non-trivial = >=2 producers and (a fault or a Flush waiter or a crash); distinct = distinct command lists")
    enum, rnd = plans(ck.quick())
    if not K.corpus(ck, binary, PROPERTY, WHICH):
        enum = []
    im = K.Impl(ck, binary)
    try:
        exhaustive = True
        for what, plan, limit in enum:
            scheds = []
            info = None
            for ops, lines, info in K.enumerate_schedules(im, plan, limit):
                if ops is not None:
                    scheds.append((ops, lines))
            exhaustive = exhaustive and info["exhausted"]
            ck.log("%s: %d schedules%s" % (what, len(scheds), "" if info["exhausted"] else " (limit reached)"))
            ck.count("enumerated:" + what, len(scheds))
            if not K.check_schedules(ck, binary, scheds, WHICH, what):
                break
        else:
            n = 300 if ck.quick() else 2500
            scheds = [K.random_schedule(im, rnd[i % len(rnd)], ck.rng.fork()) for i in range(n)]
            K.check_schedules(ck, binary, scheds, WHICH, "random 4-5 producers with restarts")
        ck.cov["exhaustive"] = exhaustive
    finally:
        im.close()
    if ck.broken and not ck.violations:
        K.hunt(ck, binary, WHICH, rnd, 300 if ck.quick() else 3000)


def replay(ck, path):
    K.replay(ck, path, WHICH, mon_fn=reg_monitor)
