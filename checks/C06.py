"""C06 — a broker restart after any crash point loses no acknowledged record and reuses no acknowledged/published offset."""
from checks import lib
from checks import C01_common as K

PROPERTY = "C06"
LEAN_MODULES = ["KafVerif.Props.C06"]
OBLIGATIONS = [
    "KafVerif.C06.restart",
    "KafVerif.C06.restore_succeeds",
    "KafVerif.C06.next_beyond_acked",
    "KafVerif.C06.append_fresh",
    "KafVerif.C06.old_violates",
]
TECHNIQUE = ("Lean 4 proof (inductive invariant incl. crash in every state and the RestoreFromS3 scan with the orphan rule) over a hand-written model + crash-point x schedule x fault enumeration on the real broker code (new handler re-opened through getPartitionLog on the surviving S3 objects and store), diffed against the model + direct monitor")
LEVEL_TEXT = ("Lean 4 theorems: from EVERY reachable state, crash then re-open: the re-open succeeds, every batch acknowledged before the crash lies in a registered segment covering its base offset whose S3 object (with index) contains it, the next offset to assign is beyond every acknowledged offset and not below the published watermark (restart, restore_succeeds); in every reachable state AppendBatch hands out a base beyond all acknowledged/published offsets (append_fresh). Leftover objects (orphan segment, orphan index, complete uncommitted pair) are part of the reachable states. The pre-fix code is refuted (old_violates). Tied to the source by crash-point enumeration on the real code.")
LEVEL_NOTE = ("Trusted: Lean kernel; the hand-written transition system `StorageLog` (one step = one l.mu critical section / one S3 or store call / one condvar wake-up; sync.Mutex, sync.Cond, errgroup and S3 put semantics assumed); the Go harness, its quiescence detection and its schedule generators (the tie sees only the schedules it runs: all schedules of 2-3 producers with bounded faults/crashes + random ones). Not covered: acks=0 / flush-off mode, int64 overflow, header lies (C02), two broker incarnations at once (C18/C19), EtcdStore.UpdateOffsets under concurrent writers (only its sequential behaviour is pinned by the repo tests).")
BUILDS = K.BUILDS
ASSUMPTIONS = K.ASSUMPTIONS + [
    "crash points are the gates (before/after each of the two uploads, before the UpdateOffsets callback, between AppendBatch and Flush) plus every quiescent state; the model's theorem allows a crash in EVERY state of the finer-grained system",
    "restart = a new handler on the same S3 contents and metadata store; the partition log is re-opened through the real getPartitionLog (NextOffset, RestoreFromS3, offset sync)",
]
TRUSTED = K.TRUSTED
WHICH = {"C06"}


def plans(quick):
    P = K.Plan
    enum = [
        ("2 split producers, one crash anywhere, <=1 upload fault", P([("append", 1), ("append", 2)], faults=1, crashes=1), 3000),
    ]
    if not quick:
        enum.append(("1 producer, restart, 1 handler producer; two crashes, <=1 fault", P([("append", 2), ("produce", 1)], faults=1, crashes=2), 12000))
        enum.append(("3 producers, MaxBatches=2, one crash, <=1 fault", P([("produce", 1), ("append", 1), ("append", 2)], kb=2, faults=1, crashes=1), 12000))
    rnd = [
        P([("append", 1), ("produce", 2), ("append", 1), ("produce", 1)], faults=2, crashes=2),
        P([("produce", 1), ("append", 1), ("append", 3), ("produce", 1), ("append", 1)], kb=2, faults=2, crashes=3, maxlen=80),
        P([("append", 2), ("append", 1), ("produce", 1), ("append", 1)], km=3, faults=3, crashes=2, pubfail=True),
        P([("append", 2), ("produce", 1), ("append", 1)], faults=1, crashes=2),
    ]
    return enum, rnd


def run(ck):
    bins = ck.build_all()
    if bins is None:
        return
    binary = bins["h"]
    ck.cov["rule"] = ("schedules with crash + restart (new handler, real getPartitionLog/RestoreFromS3 on the surviving S3 objects and store) generated against the real broker from VERIF_SEED; "
                      "non-trivial = >=2 producers and (a fault or a Flush waiter or a crash); distinct = distinct command lists")
    enum, rnd = plans(ck.quick())
    if not K.corpus(ck, binary, PROPERTY, WHICH):
        enum = []
    im = K.Impl(ck, binary)
    try:
        exhaustive = True
        for what, plan, limit in enum:
            scheds = []
            info = None
            for ops, lines, info in K.enumerate_schedules(im, plan, limit):
                if ops is not None:
                    scheds.append((ops, lines))
            exhaustive = exhaustive and info["exhausted"]
            ck.log("%s: %d schedules%s" % (what, len(scheds), "" if info["exhausted"] else " (limit reached)"))
            ck.count("enumerated:" + what, len(scheds))
            if not K.check_schedules(ck, binary, scheds, WHICH, what):
                break
        else:
            n = 300 if ck.quick() else 2500
            scheds = [K.random_schedule(im, rnd[i % len(rnd)], ck.rng.fork()) for i in range(n)]
            K.check_schedules(ck, binary, scheds, WHICH, "random 4-5 producers with restarts")
        ck.cov["exhaustive"] = exhaustive
    finally:
        im.close()
    if ck.broken and not ck.violations:
        K.hunt(ck, binary, WHICH, rnd, 300 if ck.quick() else 3000)


def replay(ck, path):
    K.replay(ck, path, WHICH)
