"""C15 — group state survives coordinator failover."""
from checks import C12_common as G

PROPERTY = "C15"
LEAN_MODULES = ["KafVerif.Props.C15"]
OBLIGATIONS = [
    "KafVerif.C15.restore_build_view",
    "KafVerif.C15.failover_preserves_view",
    "KafVerif.C15.members_keep_working",
    "KafVerif.C15.cloneOld_violates",
]
BUILDS = G.BUILDS
ASSUMPTIONS = G.COMMON_ASSUMPTIONS + [
    "the last PutConsumerGroup before the failover succeeded (no injected put/delete fault): a failed write cannot be restored by anyone",
    "the etcd store keeps the same ConsumerGroup message through EncodeConsumerGroup/DecodeConsumerGroup (protobuf round trip, not modelled but exercised: a share of the histories runs the coordinator over the real EtcdStore on an embedded etcd); the in-memory store's cloneConsumerGroup is modelled field by field",
    "which members had already re-joined an unfinished rebalance is not persisted (see C14): after a failover in PreparingRebalance every member has to join again",
]
LEVEL_TEXT = ("Lean 4 theorems about the executable model: restoreGroupState(cloneConsumerGroup(buildConsumerGroup(s))) has the same "
              "view (generation, phase, leader, protocol, member set, subscriptions, session timeouts, last heartbeats, assignments, "
              "rebalance timeout) as s, for every well-formed group state; in every state reachable by a history without injected "
              "store faults every loaded group is well formed and its persisted image is current (invariant), so a failover after "
              "ANY such history followed by a load restores the same view (failover_preserves_view), and heartbeat / sync of a "
              "current member of a Stable group are answered NONE (same assignment) by the new coordinator. The pre-fix "
              "cloneConsumerGroup violates it (witness). Tied to the source by the differential run with failovers at random "
              "points on the in-memory AND the etcd store, and a monitor comparing the dump before the failover with the dump after the reload.")
TECHNIQUE = "Lean 4 proof (round trip + invariant over reachable states) + Go/Lean differential correspondence + property monitor"

PROFILE = G.profile(etcd_quick=10, etcd_thorough=60, weights={"failover": 10, "failover_lazy": 3, "join": 8, "sync": 8, "hb": 8, "commit": 4, "fail": 0, "tick": 4, "meta": 1},
                    timeouts=[10000, 20000, 30000, 40000, 60000], fail_kinds=[3, 4, 5], cadence=15)
RULE = ("membership histories with a coordinator failover (fresh GroupCoordinator over the same store) at random points, "
        "generated from VERIF_SEED; non-trivial = a group reached Stable; distinct = distinct implementation traces")

VIEW = ("gen", "ph", "ld", "rt")


def view(grp):
    return {"gen": grp["gen"], "ph": grp["ph"], "ld": grp["ld"], "rt": grp["rt"],
            "members": {m: (v["topics"], v["s"]) for m, v in grp["mem"].items()},
            "asg": {m: a for m, a in grp["asg"].items() if a}}


def monitor(tr):
    out = []
    before = {}       # group -> view of the old coordinator at the failover
    stable_members = {}
    for i, st in enumerate(tr.steps):
        f, reply, pre, post = st["f"], st["reply"], st["pre"], st["post"]
        kind = f[0]
        if kind == "reset":
            before, stable_members = {}, {}
        if kind == "failover":
            before = {g: view(grp) for g, grp in pre["G"].items()}
            stable_members = {g: (grp["gen"], set(grp["mem"])) for g, grp in pre["G"].items() if grp["ph"] == "stable"}
            continue
        if st["everfault"] & {0, 1, 2}:
            before, stable_members = {}, {}
        # the first time a group is loaded again after the failover, compare
        for g in list(before):
            if g in post["G"] and g not in pre["G"]:
                if kind == "load":
                    now = view(post["G"][g])
                    for k in ("gen", "ph", "ld", "rt", "members", "asg"):
                        if now[k] != before[g][k]:
                            out.append((i, "restored-state-differs-" + k,
                                        "group %s after failover: %s was %r, restored %r" % (g, k, before[g][k], now[k])))
                del before[g]
        if kind in ("hb", "sync", "commit") and f[1] in stable_members and st["gen"] == stable_members[f[1]][0] \
                and st["member"] in stable_members[f[1]][1]:
            g = f[1]
            ok = (reply.get("code") == 0) if reply.get("kind") in ("code", "sync") else all(c == 0 for _, c in reply.get("rows", []))
            if not ok and not st["everfault"]:
                out.append((i, "member-rejected-after-failover", "%s of current member %s answered %r by the new coordinator" % (kind, st["member"], reply)))
        if kind in ("join", "leave", "cleanup", "tick", "race"):
            stable_members = {}
    return out


def run(ck):
    G.run_property(ck, PROFILE, monitor, n_quick=200, n_thorough=2000, nops=45, rule=RULE)


def replay(ck, path):
    G.replay(ck, path, monitor)
