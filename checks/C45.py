"""C45 — IDoc explode emits each element once with consistent routing.

Generated XML trees (mixed content, attributes, CDATA, comments, self-closing elements, an XML
prolog, element names that collide with HTML void elements) and routing configurations
(overlapping routes, blank / padded entries) are serialised to XML text by the Go harness and
fed to the real `idoc.ExplodeXML`; the same token lists run through the Lean stack machine
(`lean/Driver/C45.lean`); lines are diffed.  Direct monitor (independent Python reading of the
property on the generated TREE): one segment per element in closing order with the right
name/path/attributes/trimmed direct text; each routed list = exactly the segments whose names are
configured for that route; Fields of a routed segment = its direct child elements with non-empty
trimmed direct text (last duplicate wins); header = root element.
"""
from checks import lib

PROPERTY = "C45"
LEAN_MODULES = ["KafVerif.Props.C45"]
OBLIGATIONS = [
    "KafVerif.C45.explode_eq_spec",
    "KafVerif.C45.segments_postorder",
    "KafVerif.C45.routes_exact",
    "KafVerif.C45.fields_direct",
    "KafVerif.C45.segments_are_elements",
    "KafVerif.C45.old_violates_routes",
]
ASSUMPTIONS = [
    "encoding/xml tokenisation is a parameter: a well-formed document yields the Start/CharData/End token stream of its tree "
    "(entities decoded, CDATA as CharData, comments/PI/prolog as other token kinds, Name.Local never empty); namespace prefixes are not generated",
    "adjacent CharData tokens concatenate, so the model's one-token-per-text-node stream and the decoder's chunking give the same values",
    "Go maps (Attributes, Fields) are compared as sorted key/value lists; nil and empty maps are not distinguished",
]
TECHNIQUE = "Lean 4: refinement theorem by mutual structural induction over XML trees (stack machine of ExplodeXML on the token stream = post-order spec), differential correspondence + tree-level property monitor on the real ExplodeXML"
LEVEL_TEXT = ("proof: explode_eq_spec (for every forest and configuration: header, Segments = post-order list of prescribed entries, each routed "
              "list = filter of Segments by its configured names) with corollaries segments_postorder, routes_exact, fields_direct, "
              "segments_are_elements — all full strength")
LEVEL_NOTE = "correspondence and monitors are testing; they tie the model to the current source"
BUILDS = {"h": ("root", "./cmd/verif_c45", ["C45"])}

HTML_VOID = {"basefont", "br", "area", "link", "img", "param", "hr", "input", "col", "frame", "isindex", "base", "meta"}
GO_SPACE = set(chr(c) for c in [0x20, 9, 10, 11, 12, 13, 0x85, 0xA0, 0x1680, 0x2028, 0x2029, 0x202F, 0x205F, 0x3000] + list(range(0x2000, 0x200B)))


def go_trim(s):
    i, j = 0, len(s)
    while i < j and s[i] in GO_SPACE:
        i += 1
    while j > i and s[j - 1] in GO_SPACE:
        j -= 1
    return s[i:j]


def hx(s):
    return s.encode("utf8").hex() if s else "-"


def unhx(h):
    return "" if h == "-" else bytes.fromhex(h).decode("utf8")


# ---------------------------------------------------------------- generators
NAMES = ["IDOC", "EDI_DC40", "E1EDP01", "E1EDKA1", "E1EDS01", "E1EDT01", "DOCNUM", "POSEX", "PARVW", "STATU", "DATUM",
         "E1EDP01", "E1EDKA1", "A", "B", "a", "x.y", "x-y", "_u", "Ärger", "meta", "META", "br", "Link", "img", "input", "hr", "base"]
ROUTE_NAMES = ["E1EDP01", "E1EDKA1", "E1EDS01", "E1EDT01", "A", "B", "meta", "IDOC", "POSEX"]
TEXTS = ["10", "AG", "active", "20260101", " ", "\n  ", "\n", "  padded  ", "a<b&c>\"d'", "x", "", "ü", "  ", "\t", "line1\nline2",
         "\u00a0nbsp\u00a0", "]]", "0", "val\r", "--"]
ATTR_K = ["BEGIN", "SEGMENT", "id", "x", "lang"]
ATTR_V = ["1", "", "a b", "<&>\"", "ü", " pad "]


class Node:
    __slots__ = ("name", "attrs", "children", "selfclose")

    def __init__(self, name, attrs, children, selfclose=False):
        self.name, self.attrs, self.children, self.selfclose = name, attrs, children, selfclose


def gen_tree(rng, depth, budget):
    name = rng.choice(NAMES[:13]) if rng.chance(3, 4) else rng.choice(NAMES)
    attrs = []
    if rng.chance(1, 4):
        for k in rng_sample(rng, ATTR_K, rng.range(1, 2)):
            attrs.append((k, rng.choice(ATTR_V)))
    children = []
    if depth > 0 and budget[0] > 0:
        n = rng.choice([0, 1, 1, 2, 3, 4])
        for _ in range(n):
            r = rng.below(10)
            if r < 5 and budget[0] > 0:
                budget[0] -= 1
                children.append(gen_tree(rng, depth - 1, budget))
            elif r < 8:
                children.append(("T", rng.choice(TEXTS)))
            elif r < 9:
                t = rng.choice(TEXTS)
                children.append(("C", t) if "]]" not in t and "\r" not in t else ("T", t))
            else:
                children.append(("K", rng.choice(["c", " note ", "x-y", ""])))
    elif rng.chance(2, 3):
        children.append(("T", rng.choice(TEXTS)))
    sc = (not children) and rng.chance(1, 2)
    return Node(name, attrs, children, sc)


def rng_sample(rng, xs, n):
    xs = list(xs)
    out = []
    for _ in range(min(n, len(xs))):
        out.append(xs.pop(rng.below(len(xs))))
    return out


def tokens(node, out):
    head = ("s" if node.selfclose else "S") + hx(node.name)
    if node.attrs:
        head += ":" + ",".join("%s=%s" % (hx(k), hx(v)) for k, v in node.attrs)
    out.append(head)
    for c in node.children:
        if isinstance(c, Node):
            tokens(c, out)
        else:
            out.append(c[0] + hx(c[1]))
    out.append("E")
    return out


def gen_cfg(rng):
    def lst():
        n = rng.choice([0, 1, 1, 2, 3])
        out = []
        for _ in range(n):
            v = rng.choice(ROUTE_NAMES[:6]) if rng.chance(3, 4) else rng.choice(ROUTE_NAMES)
            r = rng.below(12)
            if r == 0:
                v = " " + v + " "
            elif r == 1:
                v = ""
            elif r == 2:
                v = "  "
            out.append(v)
        return out
    return [lst(), lst(), lst(), lst()]


def cfg_str(l):
    return ",".join(hx(v) for v in l) if l else "_"


def gen_doc(rng):
    cfg = gen_cfg(rng)
    root = gen_tree(rng, rng.choice([1, 2, 3, 4, 6]), [rng.choice([3, 8, 20, 40])])
    toks = []
    if rng.chance(1, 2):
        toks.append("P")
    if rng.chance(1, 4):
        toks.append("T" + hx("\n"))
    if rng.chance(1, 8):
        toks.append("K" + hx(" generated "))
    tokens(root, toks)
    if rng.chance(1, 4):
        toks.append("T" + hx("\n"))
    return cfg, root, "doc %s %s %s %s %s" % (cfg_str(cfg[0]), cfg_str(cfg[1]), cfg_str(cfg[2]), cfg_str(cfg[3]), ";".join(toks))


# ---------------------------------------------------------------- the property on the tree
def cfg_set(l):
    return set(go_trim(v) for v in l if go_trim(v) != "")


def direct_text(node):
    return "".join(c[1] for c in node.children if not isinstance(c, Node) and c[0] in ("T", "C"))


def expected(cfg, root):
    sets = [cfg_set(l) for l in cfg]
    routed = set().union(*sets)
    segs = []

    def walk(node, anc):
        for c in node.children:
            if isinstance(c, Node):
                walk(c, anc + [node.name])
        fields = {}
        if node.name in routed:
            for c in node.children:
                if isinstance(c, Node):
                    v = go_trim(direct_text(c))
                    if v != "":
                        fields[c.name] = v
        attrs = {}
        for k, v in node.attrs:
            attrs[k] = v
        segs.append((node.name, "/".join(anc + [node.name]), attrs, go_trim(direct_text(node)), fields))
    walk(root, [])
    lists = [[s for s in segs if s[0] in st] for st in sets]
    rattrs = {}
    for k, v in root.attrs:
        rattrs[k] = v
    return (root.name, rattrs), segs, lists


def parse_map(s):
    m = {}
    for kv in [x for x in s.split(",") if x]:
        k, v = kv.split("=")
        m[unhx(k)] = unhx(v)
    return m


def parse_segs(s):
    out = []
    for seg in [x for x in s.split("|") if x]:
        n, p, a, v, f = seg.split("~")
        out.append((unhx(n), unhx(p), parse_map(a), unhx(v), parse_map(f)))
    return out


def has_void_name(node):
    if node.name.lower() in HTML_VOID:
        return True
    return any(has_void_name(c) for c in node.children if isinstance(c, Node))


def monitor(cfg, root, o):
    """Returns (fingerprint, what) or None."""
    if o == "panic":
        return "explode-panics", "ExplodeXML panicked on a well-formed document"
    if o == "err":
        if has_void_name(root):
            return ("well-formed-document-rejected-html-void-element-name",
                    "ExplodeXML rejects a well-formed document that has an element named like an HTML void element (HTMLAutoClose)")
        return "well-formed-document-rejected", "ExplodeXML returned an error for a well-formed document"
    kv = dict(x.split("=", 1) for x in o.split()[1:])
    (rname, rattrs), segs, lists = expected(cfg, root)
    got = parse_segs(kv["segs"])
    if [(s[0], s[1]) for s in got] != [(s[0], s[1]) for s in segs]:
        return ("segment-entries-not-one-per-element-in-closing-order",
                "segments %r, elements in closing order %r" % ([s[1] for s in got][:12], [s[1] for s in segs][:12]))
    for g, e in zip(got, segs):
        if g[2] != e[2] or g[3] != e[3]:
            return "segment-attributes-or-text-wrong", "segment %r: attrs/value %r, expected %r" % (g[1], (g[2], g[3]), (e[2], e[3]))
    for nm, exp, key in zip(("items", "partners", "statuses", "dates"), lists, ("items", "partners", "statuses", "dates")):
        gl = parse_segs(kv[key])
        if [(s[0], s[1]) for s in gl] != [(s[0], s[1]) for s in exp]:
            return ("routed-list-not-exactly-the-configured-segments",
                    "%s holds %r, configured names select %r" % (nm, [s[1] for s in gl][:10], [s[1] for s in exp][:10]))
        for g, e in zip(gl, exp):
            if g[4] != e[4]:
                return ("fields-not-direct-children-with-text", "%s entry %r has fields %r, direct children with text are %r" % (nm, g[1], g[4], e[4]))
            if g[2] != e[2] or g[3] != e[3]:
                return "routed-entry-differs-from-segment-entry", "%s entry %r differs from its Segments entry" % (nm, g[1])
    for g, e in zip(got, segs):
        if g[4] != e[4]:
            return ("fields-not-direct-children-with-text", "segment %r has fields %r, direct children with text are %r" % (g[1], g[4], e[4]))
    if kv["root"] != hx(rname) or parse_map(kv["hattrs"]) != rattrs:
        return "header-is-not-the-root-element", "header root=%s attrs=%s, root element %r %r" % (kv["root"], kv["hattrs"], rname, rattrs)
    return None


def run_lines(ck, binary, ops, tag):
    fn = ck.path("ops_%s.txt" % tag)
    open(fn, "w").write("\n".join(ops) + "\n")
    rc, out, err = ck.run_bin(binary, stdin_path=fn)
    impl = out.split("\n")[:-1]
    if rc != 0 or len(impl) != len(ops):
        return None, fn, "impl rc=%s answered %d/%d lines %s" % (rc, len(impl), len(ops), err[-500:])
    return impl, fn, None


def fixed_docs():
    """regression documents: overlapping routes; HTML-void element names with content; duplicate child names; mixed content"""
    out = []
    t = Node("IDOC", [("BEGIN", "1")], [Node("E1EDP01", [], [Node("POSEX", [], [("T", "10")])]), ("T", "\n")])
    out.append(([["E1EDP01"], ["E1EDP01"], [], ["E1EDP01", " E1EDP01 "]], t))
    t = Node("IDOC", [], [Node("META", [], [Node("DOCNUM", [], [("T", "1")])]), Node("br", [], [("T", "x")])])
    out.append(([["META"], [], [], []], t))
    t = Node("A", [], [("T", " a "), Node("B", [], [("T", "1")]), ("T", "b"), Node("B", [], [("T", " 2 ")]), Node("B", [], [("T", "  ")]), ("C", " c ")])
    out.append(([["A"], ["B"], ["A", "B"], []], t))
    docs = []
    for cfg, root in out:
        docs.append((cfg, root, "doc %s %s %s %s %s" % (cfg_str(cfg[0]), cfg_str(cfg[1]), cfg_str(cfg[2]), cfg_str(cfg[3]), ";".join(tokens(root, [])))))
    return docs


def run(ck):
    bins = ck.build_all()
    if bins is None:
        return
    binary = bins["h"]
    q = ck.quick()
    ck.cov["rule"] = ("a case = one generated document (tree of <= 40 elements, depth <= 6, mixed content, attributes, CDATA, comments, self-closing "
                      "elements, prolog) + routing configuration (0-3 names per route, overlapping/blank/padded entries); non-trivial: >= 3 elements "
                      "and at least one routed list non-empty; distinct = distinct op lines")
    docs = fixed_docs() + [gen_doc(ck.rng.fork()) for _ in range(700 if q else 8000)]
    ops = [d[2] for d in docs]
    # malformed stream (totality only): byte-level damage of serialised-looking inputs
    raws = []
    seeds = [b"<IDOC><A>1</A></IDOC>", b"<a><b>x</b><c/></a>", b"<?xml version=\"1.0\"?><r k=\"v\">t<![CDATA[z]]></r>"]
    for _ in range(150 if q else 1500):
        b = bytearray(ck.rng.choice(seeds))
        for _ in range(ck.rng.range(1, 3)):
            r = ck.rng.below(4)
            pos = ck.rng.below(len(b)) if b else 0
            if r == 0 and b:
                b[pos] = ck.rng.below(256)
            elif r == 1 and b:
                del b[pos:pos + ck.rng.range(1, 4)]
            elif r == 2:
                b[pos:pos] = ck.rng.choice([b"<", b">", b"</a>", b"&", b"<meta>", b"\x00", b"]]>", b"<!--"])
            else:
                b = b[:pos]
        raws.append("raw " + lib.hexs(bytes(b)))
    ops += raws
    impl, fn, crash = run_lines(ck, binary, ops, "all")
    if crash:
        ck.broke("implementation harness did not answer every op", crash)
        return
    model = ck.lean_run("C45", fn)
    first_corr = None
    for i, (cfg, root, op) in enumerate(docs):
        io, mo = impl[i], model[i] if i < len(model) else None
        nseg = op.count(";S") + op.count(";s") + 1
        routed_nonempty = io.startswith("ok") and any(
            part.split("=", 1)[1] != "" for part in io.split() if part.split("=", 1)[0] in ("items", "partners", "statuses", "dates"))
        ck.case(op, nontrivial=(nseg >= 3 and routed_nonempty), sample={"op": op[:300], "impl": io[:300]} if i % 150 == 0 else None)
        ck.count("documents"); ck.count("elements", nseg)
        ck.count("docs_with_overlapping_routes", 1 if len(set().union(*[cfg_set(l) for l in cfg])) < sum(len(cfg_set(l)) for l in cfg) else 0)
        ck.count("docs_with_html_void_names", 1 if has_void_name(root) else 0)
        ck.cov["traces_validated_against_impl"] += 1
        try:
            bad = monitor(cfg, root, io)
        except Exception as e:
            bad = ("result-line-unparsable", "%r on %s" % (e, io[:200]))
        if bad:
            ck.violation(bad[0], bad[1], {"ops": [op], "impl": io[:3000], "expected": "tree-level property monitor true", "actual": bad[1]})
        elif io != mo and first_corr is None:
            first_corr = (op, io, mo)
    for j, op in enumerate(raws):
        io = impl[len(docs) + j]
        ck.count("malformed_inputs"); ck.count("malformed_" + io.replace(" ", "_"))
        ck.cov["evaluations"] += 1
        if io == "panic":
            ck.violation("explode-panics-on-malformed-input", "ExplodeXML panicked on %s" % op, {"ops": [op], "actual": "panic"})
    if first_corr and not ck.violations:
        op, io, mo = first_corr
        ck.cov["disagreements_checked"] += 1
        ck.broke("correspondence model/implementation (ExplodeXML)", "op %s\nimpl : %s\nmodel: %s" % (op[:1500], io[:1500], (mo or "")[:1500]))


def rebuild(op):
    """op line -> (cfg, root) for the monitor (replay)."""
    f = op.split()
    cfg = [[] if x == "_" else [unhx(h) for h in x.split(",")] for x in f[1:5]]
    stack, root = [], None
    for t in f[5].split(";"):
        if t[0] in "Ss":
            parts = t[1:].split(":", 1)
            attrs = []
            if len(parts) == 2:
                for kv in parts[1].split(","):
                    k, v = kv.split("=")
                    attrs.append((unhx(k), unhx(v)))
            n = Node(unhx(parts[0]), attrs, [], t[0] == "s")
            if stack:
                stack[-1].children.append(n)
            elif root is None:
                root = n
            stack.append(n)
        elif t == "E":
            stack.pop()
        elif t[0] in "TCK" and stack:
            stack[-1].children.append((t[0], unhx(t[1:])))
    return cfg, root


def replay(ck, path):
    import json
    rep = json.load(open(path))
    bins = ck.build_all()
    if bins is None:
        return
    ops = rep["ops"]
    impl, _, crash = run_lines(ck, bins["h"], ops, "replay")
    if crash:
        ck.broke("replay harness", crash)
        return
    for o, r in zip(ops, impl):
        print("  %-80s -> %s" % (o[:80], r[:300]))
        ck.case(o, sample={"op": o[:300]})
        if o.startswith("doc "):
            cfg, root = rebuild(o)
            bad = monitor(cfg, root, r)
            if bad:
                ck.violation(bad[0], bad[1], {"ops": [o], "actual": bad[1]})
        elif r == "panic":
            ck.violation("explode-panics-on-malformed-input", "panic", {"ops": [o]})
    ck.cov["distinct_nontrivial"] = max(ck.cov["distinct_nontrivial"], 2)
