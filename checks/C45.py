"""C45 — IDoc explode emits each element once with consistent routing.

Generated XML trees (mixed content, attributes, CDATA, comments, self-closing elements, an XML
prolog, element names that collide with HTML void elements) and routing configurations
(overlapping routes, blank / padded entries) are serialised to XML text by the Go harness and
fed to the real `idoc.ExplodeXML`; the same token lists run through the Lean stack machine
(`lean/Driver/C45.lean`); lines are diffed.  Direct monitor (independent Python reading of the
property on the generated TREE): one segment per element in closing order with the right
name/path/attributes/trimmed direct text; each routed list = exactly the segments whose names are
configured for that route; Fields of a routed segment = its direct child elements with non-empty
trimmed direct text (last duplicate wins); header = root element.

Call sequences: the whole op file is ONE harness process.  A second stream (`call <mode> …`) makes
the harness behave like a long-running caller: the configuration lives in persistent buffers that
are rewritten in place between calls (`append(names[:0], …)`, `cfg.ItemSegments[i] = …`, same
lengths / other lengths / rotated between the routes), is passed again unchanged, or is a freshly
allocated deep-equal copy; documents from a small pool are interleaved.  The Lean model is a pure
function per call (`Idoc.callStep`, theorem explode_depends_only_on_own_call), the tree-level
monitor uses the configuration of the call itself, so any state carried from one call to the next
shows up as a violation (`result-depends-on-earlier-calls`, with the shortest window of calls that
reproduces it as replay).  The harness also reports a configuration / input buffer modified by
ExplodeXML and an earlier Result that changes after it was returned.

Regenerated fact (go/ast, harness/C45/extract): the package-level variables of pkg/idoc and the
sites in function bodies that write / lock / alias them -> lean/KafVerif/Gen/C45Vars.lean,
obligation no_package_level_state (every variable: 0 such sites).
"""
import json
import os
import subprocess

from checks import lib

PROPERTY = "C45"
LEAN_MODULES = ["KafVerif.Props.C45", "KafVerif.Gen.C45Vars"]
OBLIGATIONS = [
    "KafVerif.C45.explode_eq_spec",
    "KafVerif.C45.segments_postorder",
    "KafVerif.C45.routes_exact",
    "KafVerif.C45.fields_direct",
    "KafVerif.C45.segments_are_elements",
    "KafVerif.C45.old_violates_routes",
    "KafVerif.C45.deep_chain_all_emitted",             # every nesting depth n: n elements -> n segment entries (no stack bound)
    "KafVerif.C45.depth_bound_violates",               # witness: an element-stack bound (decoder.Skip on a full stack) drops elements
    "KafVerif.C45.explode_depends_only_on_own_call",   # every history: i-th result = explode of the i-th (config, document)
    "KafVerif.C45.calls_eq_spec",                      # ... = the prescribed record for that call's own configuration
    "KafVerif.C45.value_keyed_memo_transparent",       # a last-config memo with its own copy of the key is invisible
    "KafVerif.C45.aliased_memo_violates",              # witness: a memo whose key aliases the caller's slices is not
    "KafVerif.C45.no_package_level_state",             # regenerated from pkg/idoc on every run (go/ast extractor)
]
ENGINES = ["lean-kafverif", "go-overlay-harness", "ast-extract"]
ASSUMPTIONS = [
    "encoding/xml tokenisation is a parameter: a well-formed document yields the Start/CharData/End token stream of its tree "
    "(entities decoded, CDATA as CharData, comments/PI/prolog as other token kinds, Name.Local never empty); namespace prefixes are not generated",
    "adjacent CharData tokens concatenate, so the model's one-token-per-text-node stream and the decoder's chunking give the same values",
    "Go maps (Attributes, Fields) are compared as sorted key/value lists; nil and empty maps are not distinguished",
    "no cross-call state: a call is modelled as a pure function of its own configuration VALUE and document (process state = Unit). "
    "Validated by the sequence stream (one harness process for all calls; configurations rewritten in place in reused buffers, passed "
    "unchanged, deep-equal fresh copies, reshaped, rotated between routes; documents interleaved; earlier Results re-read after later "
    "calls) diffed against the per-call model, and by the regenerated fact no_package_level_state (pkg/idoc declares no package-level "
    "variable that a function body writes, locks or lets escape). Concurrent calls are not explored",
]
TECHNIQUE = ("Lean 4: refinement theorem by mutual structural induction over XML trees (stack machine of ExplodeXML on the token stream = post-order spec), "
             "call-sequence theorem (result depends on the call's own arguments only), differential correspondence + tree-level property monitor on the "
             "real ExplodeXML over single calls and over call sequences in one process, go/ast-regenerated package-variable table")
LEVEL_TEXT = ("proof: explode_eq_spec (for every forest and configuration: header, Segments = post-order list of prescribed entries, each routed "
              "list = filter of Segments by its configured names) with corollaries segments_postorder, routes_exact, fields_direct, "
              "segments_are_elements; explode_depends_only_on_own_call / calls_eq_spec (every call history: each result is the prescribed record "
              "for that call's own configuration and document) — all full strength; no_package_level_state regenerated from the source")
LEVEL_NOTE = "correspondence and monitors are testing; they tie the model to the current source"
BUILDS = {"h": ("root", "./cmd/verif_c45", ["C45"])}

EXPLODE_GO = "pkg/idoc/explode.go"
GEN_FILE = os.path.join(lib.LEAN, "KafVerif", "Gen", "C45Vars.lean")


# ---------------------------------------------------------------- regenerated fact: package-level variables of pkg/idoc
def extract_vars():
    """Run the go/ast extractor on the CURRENT pkg/idoc; returns the JSON table."""
    src = os.path.join(lib.REPO, EXPLODE_GO)
    p = subprocess.run(["go", "run", "main.go", "-f", src], cwd=os.path.join(lib.HARNESS, "C45", "extract"),
                       env=lib.go_env(), capture_output=True, text=True)
    if p.returncode != 0:
        raise RuntimeError("extractor failed: " + p.stderr[-1500:])
    return json.loads(p.stdout)


def lean_vars(table):
    rows = []
    for v in table["pkg_vars"] or []:
        n = v["writes"] + v["methods"] + v["aliases"]
        rows.append("  -- %s:%d  var %s (%s): %d write, %d method-call, %d alias sites in function bodies; %d mentions\n  ⟨%d, %d⟩" % (
            v["file"], v["line"], v["name"], v["kind"], v["writes"], v["methods"], v["aliases"], v["reads"], v["line"], n))
    out = ["import KafVerif.Model.Idoc",
           "/-! GENERATED by checks/C45.py from %s (harness/C45/extract; files: %s; %d functions) — do not edit. -/" % (
               os.path.dirname(EXPLODE_GO), ", ".join(table["files"]), table["funcs"]),
           "namespace KafVerif.Gen.C45Vars", "open KafVerif.Idoc", "",
           "/-- every package-level `var` of pkg/idoc (non-test files) and how many sites in function bodies can change what a",
           "later call sees through it -/",
           "def pkgVars : List VarRow := [" + ("\n" + ",\n".join(rows) if rows else "") + "]", "",
           "end KafVerif.Gen.C45Vars", "",
           "/-- **C45 (generated).** Nothing survives from one `ExplodeXML` call to the next: no package-level variable of the",
           "current pkg/idoc is written, locked, method-called (struct / sync kinds) or aliased (map / slice / pointer kinds) by a",
           "function body.  Read-only tables and compiled regexps are fine; a memo of the last configuration is not. -/",
           "theorem KafVerif.C45.no_package_level_state :",
           "    ∀ v ∈ KafVerif.Gen.C45Vars.pkgVars, v.mutations = 0 :=",
           "  (KafVerif.Idoc.varsOk_iff _).1 (by decide)", ""]
    return "\n".join(out)


def failing_vars(table):
    """Python twin of Idoc.varsOk (only used to NAME the offending variables in the report)."""
    bad = []
    for v in table["pkg_vars"] or []:
        if v["writes"] + v["methods"] + v["aliases"] > 0:
            bad.append("%s:%d  var %s (%s) carries state between calls: %s" % (v["file"], v["line"], v["name"], v["kind"], ", ".join(v["sites"] or [])))
    return bad


def generate(ck):
    table = extract_vars()
    os.makedirs(os.path.dirname(GEN_FILE), exist_ok=True)
    new = lean_vars(table)
    if not os.path.exists(GEN_FILE) or open(GEN_FILE).read() != new:
        tmp = GEN_FILE + ".tmp%d" % os.getpid()
        open(tmp, "w").write(new)
        os.replace(tmp, GEN_FILE)
    ck.count("package_level_vars", len(table["pkg_vars"] or []))
    ck.count("functions_scanned", table["funcs"])
    ck.var_failures = failing_vars(table)

HTML_VOID = {"basefont", "br", "area", "link", "img", "param", "hr", "input", "col", "frame", "isindex", "base", "meta"}
GO_SPACE = set(chr(c) for c in [0x20, 9, 10, 11, 12, 13, 0x85, 0xA0, 0x1680, 0x2028, 0x2029, 0x202F, 0x205F, 0x3000] + list(range(0x2000, 0x200B)))


def go_trim(s):
    i, j = 0, len(s)
    while i < j and s[i] in GO_SPACE:
        i += 1
    while j > i and s[j - 1] in GO_SPACE:
        j -= 1
    return s[i:j]


def hx(s):
    return s.encode("utf8").hex() if s else "-"


def unhx(h):
    return "" if h == "-" else bytes.fromhex(h).decode("utf8")


# ---------------------------------------------------------------- generators
NAMES = ["IDOC", "EDI_DC40", "E1EDP01", "E1EDKA1", "E1EDS01", "E1EDT01", "DOCNUM", "POSEX", "PARVW", "STATU", "DATUM",
         "E1EDP01", "E1EDKA1", "A", "B", "a", "x.y", "x-y", "_u", "Ärger", "meta", "META", "br", "Link", "img", "input", "hr", "base"]
ROUTE_NAMES = ["E1EDP01", "E1EDKA1", "E1EDS01", "E1EDT01", "A", "B", "meta", "IDOC", "POSEX"]
TEXTS = ["10", "AG", "active", "20260101", " ", "\n  ", "\n", "  padded  ", "a<b&c>\"d'", "x", "", "ü", "  ", "\t", "line1\nline2",
         "\u00a0nbsp\u00a0", "]]", "0", "val\r", "--"]
ATTR_K = ["BEGIN", "SEGMENT", "id", "x", "lang"]
ATTR_V = ["1", "", "a b", "<&>\"", "ü", " pad "]


class Node:
    __slots__ = ("name", "attrs", "children", "selfclose")

    def __init__(self, name, attrs, children, selfclose=False):
        self.name, self.attrs, self.children, self.selfclose = name, attrs, children, selfclose


def gen_tree(rng, depth, budget):
    name = rng.choice(NAMES[:13]) if rng.chance(3, 4) else rng.choice(NAMES)
    attrs = []
    if rng.chance(1, 4):
        for k in rng_sample(rng, ATTR_K, rng.range(1, 2)):
            attrs.append((k, rng.choice(ATTR_V)))
    children = []
    if depth > 0 and budget[0] > 0:
        n = rng.choice([0, 1, 1, 2, 3, 4])
        for _ in range(n):
            r = rng.below(10)
            if r < 5 and budget[0] > 0:
                budget[0] -= 1
                children.append(gen_tree(rng, depth - 1, budget))
            elif r < 8:
                children.append(("T", rng.choice(TEXTS)))
            elif r < 9:
                t = rng.choice(TEXTS)
                children.append(("C", t) if "]]" not in t and "\r" not in t else ("T", t))
            else:
                children.append(("K", rng.choice(["c", " note ", "x-y", ""])))
    elif rng.chance(2, 3):
        children.append(("T", rng.choice(TEXTS)))
    sc = (not children) and rng.chance(1, 2)
    return Node(name, attrs, children, sc)


def rng_sample(rng, xs, n):
    xs = list(xs)
    out = []
    for _ in range(min(n, len(xs))):
        out.append(xs.pop(rng.below(len(xs))))
    return out


def tokens(node, out):
    head = ("s" if node.selfclose else "S") + hx(node.name)
    if node.attrs:
        head += ":" + ",".join("%s=%s" % (hx(k), hx(v)) for k, v in node.attrs)
    out.append(head)
    for c in node.children:
        if isinstance(c, Node):
            tokens(c, out)
        else:
            out.append(c[0] + hx(c[1]))
    out.append("E")
    return out


def gen_cfg(rng):
    def lst():
        n = rng.choice([0, 1, 1, 2, 3])
        out = []
        for _ in range(n):
            v = rng.choice(ROUTE_NAMES[:6]) if rng.chance(3, 4) else rng.choice(ROUTE_NAMES)
            r = rng.below(12)
            if r == 0:
                v = " " + v + " "
            elif r == 1:
                v = ""
            elif r == 2:
                v = "  "
            out.append(v)
        return out
    return [lst(), lst(), lst(), lst()]


def cfg_str(l):
    return ",".join(hx(v) for v in l) if l else "_"


def gen_doc(rng):
    cfg = gen_cfg(rng)
    root = gen_tree(rng, rng.choice([1, 2, 3, 4, 6]), [rng.choice([3, 8, 20, 40])])
    toks = []
    if rng.chance(1, 2):
        toks.append("P")
    if rng.chance(1, 4):
        toks.append("T" + hx("\n"))
    if rng.chance(1, 8):
        toks.append("K" + hx(" generated "))
    tokens(root, toks)
    if rng.chance(1, 4):
        toks.append("T" + hx("\n"))
    return cfg, root, "doc %s %s %s %s %s" % (cfg_str(cfg[0]), cfg_str(cfg[1]), cfg_str(cfg[2]), cfg_str(cfg[3]), ";".join(toks))


DEEP_BOUNDARY = [1, 2, 15, 16, 17, 31, 32, 33, 34, 48, 63, 64, 65, 66, 100, 127, 128, 129, 200]


def gen_deep_tree(rng, depth, wide):
    """a chain of `depth` nested elements (the root is level 1); with `wide` every level also carries leaf / small-subtree
    siblings before and after the nested child, texts, and routable names at every depth (so routed lists and Fields have
    entries whose element sits deeper than any plausible stack bound)."""
    def leaf():
        return Node(rng.choice(SEQ_FIELDS + NAMES[:6]), [], [("T", rng.choice(TEXTS))] if rng.chance(3, 4) else [], False)

    def name():
        return rng.choice(ROUTE_NAMES[:6]) if rng.chance(1, 2) else rng.choice(["A", "B", "x", "IDOC", "POSEX", "E1EDP01"])

    node = Node(name(), [("id", "d")] if rng.chance(1, 3) else [], [("T", rng.choice(TEXTS))] + ([leaf()] if wide else []))
    for lvl in range(depth - 1, 0, -1):
        kids = []
        if wide:
            for _ in range(rng.choice([0, 0, 1, 2])):
                kids.append(leaf() if rng.chance(3, 4) else gen_tree(rng, 2, [4]))
            if rng.chance(1, 3):
                kids.append(("T", rng.choice(TEXTS)))
        kids.append(node)
        if wide:
            if rng.chance(1, 3):
                kids.append(("T", rng.choice(TEXTS)))
            for _ in range(rng.choice([0, 0, 1])):
                kids.append(leaf())
        node = Node(name(), [("id", str(lvl))] if rng.chance(1, 6) else [], kids)
    return node


def gen_deep_doc(rng, depth, wide):
    cfg = gen_cfg(rng)
    if rng.chance(3, 4):
        cfg[rng.below(4)].append(rng.choice(["A", "B", "E1EDP01"]))
    root = gen_deep_tree(rng, depth, wide)
    return cfg, root, "doc %s %s %s %s %s" % (cfg_str(cfg[0]), cfg_str(cfg[1]), cfg_str(cfg[2]), cfg_str(cfg[3]), ";".join(tokens(root, [])))


def tree_depth(node):
    return 1 + max([tree_depth(c) for c in node.children if isinstance(c, Node)] or [0])


# ---------------------------------------------------------------- call sequences (one process, reused configuration buffers)
SEQ_NAMES = ROUTE_NAMES[:6]
SEQ_ODD = ["A,B", "A|B", "A B", "E1EDP01,E1EDKA1", " A ", "", "E1EDP01 "]     # join-key collisions, padded / blank entries
SEQ_FIELDS = ["POSEX", "PARVW", "STATU", "DATUM", "DOCNUM", "A", "B"]


def seq_name(rng):
    return rng.choice(SEQ_NAMES) if rng.chance(9, 10) else rng.choice(SEQ_ODD)


def gen_seq_cfg(rng):
    return [[seq_name(rng) for _ in range(rng.choice([0, 1, 1, 1, 2, 2, 3]))] for _ in range(4)]


def gen_seq_tree(rng):
    """IDOC with 2-6 segments named like routable names, each with a few leaf fields (so that routing by
    another call's names is visible in the routed lists AND in which segments carry Fields)."""
    if rng.chance(1, 4):
        return gen_tree(rng, rng.choice([1, 2, 3]), [rng.choice([3, 6, 10])])
    segs = []
    for _ in range(rng.range(2, 6)):
        kids = []
        for _ in range(rng.choice([0, 1, 2, 3])):
            kids.append(Node(rng.choice(SEQ_FIELDS), [], [("T", rng.choice(TEXTS))]))
            if rng.chance(1, 5):
                kids.append(("T", "\n"))
        if rng.chance(1, 6):
            kids.append(Node(rng.choice(SEQ_NAMES), [], [("T", rng.choice(TEXTS))]))
        segs.append(Node(rng.choice(SEQ_NAMES), [("SEGMENT", "1")] if rng.chance(1, 3) else [], kids))
    return Node("IDOC", [("BEGIN", "1")], segs)


def call_op(mode, cfg, root):
    return "call %s %s %s %s %s %s" % (mode, cfg_str(cfg[0]), cfg_str(cfg[1]), cfg_str(cfg[2]), cfg_str(cfg[3]), ";".join(tokens(root, [])))


def gen_sequence(rng, n):
    """-> [(kind, cfg, root, op)].  `persist` mirrors the harness's persistent configuration buffers."""
    out, persist, last, pool = [], None, None, []
    for i in range(n):
        if i % 60 == 0:
            pool = [gen_seq_tree(rng.fork()) for _ in range(8)]
        r = rng.below(100)
        if persist is None:
            kind = "first"
        elif r < 36:
            kind = "inplace-change"
        elif r < 50:
            kind = "same"
        elif r < 56:
            kind = "rewrite-same-content"
        elif r < 68:
            kind = "equal-fresh"
        elif r < 79:
            kind = "fresh-new"
        elif r < 91:
            kind = "reshape"
        else:
            kind = "rotate"
        if kind == "inplace-change" and not any(persist):
            kind = "reshape"
        if kind in ("first", "reshape"):
            mode, cfg = "reuse", gen_seq_cfg(rng)
        elif kind == "inplace-change":
            mode = rng.choice(["reuse", "inplace"])
            cfg = [list(l) for l in persist]
            slots = [(a, b) for a in range(4) for b in range(len(cfg[a]))]
            todo = rng_sample(rng, slots, rng.choice([1, 1, 2, len(slots)]))
            for a, b in todo:
                old = cfg[a][b]
                for _ in range(8):
                    cfg[a][b] = seq_name(rng)
                    if go_trim(cfg[a][b]) != go_trim(old):
                        break
        elif kind == "same":
            mode, cfg = "same", [list(l) for l in persist]
        elif kind == "rewrite-same-content":
            mode, cfg = rng.choice(["reuse", "inplace"]), [list(l) for l in persist]
        elif kind == "equal-fresh":
            mode, cfg = "fresh", [list(l) for l in last]
        elif kind == "fresh-new":
            mode = "fresh"
            cfg = gen_seq_cfg(rng)
            if rng.chance(1, 2):            # same shape as the remembered one, other names
                cfg = [[seq_name(rng) for _ in l] for l in last]
        else:
            k = rng.range(1, 3)
            mode, cfg = rng.choice(["reuse", "inplace"]), [list(persist[(a + k) % 4]) for a in range(4)]
        if mode != "fresh":
            persist = cfg
        last = cfg
        root = rng.choice(pool) if rng.chance(3, 4) else gen_seq_tree(rng.fork())
        out.append((kind, cfg, root, call_op(mode, cfg, root)))
    return out


# ---------------------------------------------------------------- the property on the tree
def cfg_set(l):
    return set(go_trim(v) for v in l if go_trim(v) != "")


def direct_text(node):
    return "".join(c[1] for c in node.children if not isinstance(c, Node) and c[0] in ("T", "C"))


def expected(cfg, root):
    sets = [cfg_set(l) for l in cfg]
    routed = set().union(*sets)
    segs = []

    def walk(node, anc):
        for c in node.children:
            if isinstance(c, Node):
                walk(c, anc + [node.name])
        fields = {}
        if node.name in routed:
            for c in node.children:
                if isinstance(c, Node):
                    v = go_trim(direct_text(c))
                    if v != "":
                        fields[c.name] = v
        attrs = {}
        for k, v in node.attrs:
            attrs[k] = v
        segs.append((node.name, "/".join(anc + [node.name]), attrs, go_trim(direct_text(node)), fields))
    walk(root, [])
    lists = [[s for s in segs if s[0] in st] for st in sets]
    rattrs = {}
    for k, v in root.attrs:
        rattrs[k] = v
    return (root.name, rattrs), segs, lists


def parse_map(s):
    m = {}
    for kv in [x for x in s.split(",") if x]:
        k, v = kv.split("=")
        m[unhx(k)] = unhx(v)
    return m


def parse_segs(s):
    out = []
    for seg in [x for x in s.split("|") if x]:
        n, p, a, v, f = seg.split("~")
        out.append((unhx(n), unhx(p), parse_map(a), unhx(v), parse_map(f)))
    return out


def has_void_name(node):
    if node.name.lower() in HTML_VOID:
        return True
    return any(has_void_name(c) for c in node.children if isinstance(c, Node))


MARKERS = (" input-bytes-modified", " config-modified", " changed-after-return=")


def split_markers(o):
    """harness line -> (result line, [caller-side monitor markers])"""
    cut = min([o.find(m) for m in MARKERS if o.find(m) >= 0] or [len(o)])
    return o[:cut], o[cut:].split()


def monitor(cfg, root, o):
    """Returns (fingerprint, what) or None."""
    o, marks = split_markers(o)
    for m in marks:
        if m == "config-modified":
            return "explode-modifies-callers-configuration", "ExplodeXML changed the routing lists of the configuration it was given"
        if m == "input-bytes-modified":
            return "explode-modifies-input-bytes", "ExplodeXML changed the bytes of the document it was given"
        if m.startswith("changed-after-return="):
            return ("earlier-result-changed-by-later-call",
                    "the Result returned %s call(s) earlier reads differently after this call" % m.split("=")[1])
    if o == "bad-op":
        return "harness-rejected-op", "the harness could not run this op (bad-op)"
    if o == "panic":
        return "explode-panics", "ExplodeXML panicked on a well-formed document"
    if o == "err":
        if has_void_name(root):
            return ("well-formed-document-rejected-html-void-element-name",
                    "ExplodeXML rejects a well-formed document that has an element named like an HTML void element (HTMLAutoClose)")
        return "well-formed-document-rejected", "ExplodeXML returned an error for a well-formed document"
    kv = dict(x.split("=", 1) for x in o.split()[1:])
    (rname, rattrs), segs, lists = expected(cfg, root)
    got = parse_segs(kv["segs"])
    if [(s[0], s[1]) for s in got] != [(s[0], s[1]) for s in segs]:
        return ("segment-entries-not-one-per-element-in-closing-order",
                "segments %r, elements in closing order %r" % ([s[1] for s in got][:12], [s[1] for s in segs][:12]))
    for g, e in zip(got, segs):
        if g[2] != e[2] or g[3] != e[3]:
            return "segment-attributes-or-text-wrong", "segment %r: attrs/value %r, expected %r" % (g[1], (g[2], g[3]), (e[2], e[3]))
    for nm, exp, key in zip(("items", "partners", "statuses", "dates"), lists, ("items", "partners", "statuses", "dates")):
        gl = parse_segs(kv[key])
        if [(s[0], s[1]) for s in gl] != [(s[0], s[1]) for s in exp]:
            return ("routed-list-not-exactly-the-configured-segments",
                    "%s holds %r, configured names select %r" % (nm, [s[1] for s in gl][:10], [s[1] for s in exp][:10]))
        for g, e in zip(gl, exp):
            if g[4] != e[4]:
                return ("fields-not-direct-children-with-text", "%s entry %r has fields %r, direct children with text are %r" % (nm, g[1], g[4], e[4]))
            if g[2] != e[2] or g[3] != e[3]:
                return "routed-entry-differs-from-segment-entry", "%s entry %r differs from its Segments entry" % (nm, g[1])
    for g, e in zip(got, segs):
        if g[4] != e[4]:
            return ("fields-not-direct-children-with-text", "segment %r has fields %r, direct children with text are %r" % (g[1], g[4], e[4]))
    if kv["root"] != hx(rname) or parse_map(kv["hattrs"]) != rattrs:
        return "header-is-not-the-root-element", "header root=%s attrs=%s, root element %r %r" % (kv["root"], kv["hattrs"], rname, rattrs)
    return None


def run_lines(ck, binary, ops, tag):
    fn = ck.path("ops_%s.txt" % tag)
    open(fn, "w").write("\n".join(ops) + "\n")
    rc, out, err = ck.run_bin(binary, stdin_path=fn)
    impl = out.split("\n")[:-1]
    if rc != 0 or len(impl) != len(ops):
        return None, fn, "impl rc=%s answered %d/%d lines %s" % (rc, len(impl), len(ops), err[-500:])
    return impl, fn, None


def fixed_docs():
    """regression documents: overlapping routes; HTML-void element names with content; duplicate child names; mixed content"""
    out = []
    t = Node("IDOC", [("BEGIN", "1")], [Node("E1EDP01", [], [Node("POSEX", [], [("T", "10")])]), ("T", "\n")])
    out.append(([["E1EDP01"], ["E1EDP01"], [], ["E1EDP01", " E1EDP01 "]], t))
    t = Node("IDOC", [], [Node("META", [], [Node("DOCNUM", [], [("T", "1")])]), Node("br", [], [("T", "x")])])
    out.append(([["META"], [], [], []], t))
    t = Node("A", [], [("T", " a "), Node("B", [], [("T", "1")]), ("T", "b"), Node("B", [], [("T", " 2 ")]), Node("B", [], [("T", "  ")]), ("C", " c ")])
    out.append(([["A"], ["B"], ["A", "B"], []], t))
    docs = []
    for cfg, root in out:
        docs.append((cfg, root, "doc %s %s %s %s %s" % (cfg_str(cfg[0]), cfg_str(cfg[1]), cfg_str(cfg[2]), cfg_str(cfg[3]), ";".join(tokens(root, [])))))
    return docs


def run_fresh_process(ck, binary, ops, tag):
    """ops through a NEW harness process -> impl lines or None"""
    impl, _, crash = run_lines(ck, binary, ops, tag)
    return None if crash else impl


def line_bad(op, io):
    try:
        cfg, root = rebuild(op)
        return monitor(cfg, root, io)
    except Exception as e:
        return ("result-line-unparsable", "%r on %s" % (e, io[:200]))


def diagnose_sequence(ck, binary, seq_ops, i, bad):
    """Call i of the op list (all calls of the one harness process so far) failed its monitor.  If the same call (same configuration value, same document,
    freshly allocated) passes alone in a new process, the result depends on the calls made before it: report that, with
    the shortest window of preceding calls that still reproduces it.  Returns (fingerprint, what, replay ops)."""
    op = seq_ops[i]
    f = op.split()
    alone = "call fresh " + " ".join(f[2:]) if f[0] == "call" else op
    r = run_fresh_process(ck, binary, [alone], "alone")
    if r is None or line_bad(alone, r[0]) is not None:
        return bad[0], bad[1], [alone if r is not None and line_bad(alone, r[0]) is not None else op]
    for back in (1, 2, 3, 5, 8, 13, 21, i):
        j = max(0, i - back)
        win = seq_ops[j:i + 1]
        r = run_fresh_process(ck, binary, win, "window")
        if r is None or any(split_markers(x)[0] == "bad-op" for x in r):
            continue
        if line_bad(win[-1], r[-1]) is not None and all(line_bad(o, x) is None for o, x in zip(win[:-1], r[:-1])):
            # drop calls of the window that are not needed (keeps the last one)
            keep = lib.ddmin(win[:-1], lambda c: (lambda rr: rr is not None and not any(split_markers(x)[0] == "bad-op" for x in rr)
                                                  and line_bad(win[-1], rr[-1]) is not None)(run_fresh_process(ck, binary, c + [win[-1]], "ddmin")))
            rr = run_fresh_process(ck, binary, keep + [win[-1]], "ddmin")
            if rr is None or line_bad(win[-1], rr[-1]) is None:
                keep = win[:-1]
            return ("result-depends-on-earlier-calls",
                    "call %d of a sequence in one process (%s) violates the property [%s: %s] but the same configuration and document "
                    "exploded alone are fine: state is carried over from the %d earlier call(s) in the replay" % (
                        i, " ".join(f[:2]) if f[0] == "call" else "doc", bad[0], bad[1][:300], len(keep)), keep + [win[-1]])
        if j == 0:
            break
    return ("result-depends-on-earlier-calls",
            "call %d of the sequence (%s) violates the property [%s] but passes alone; no shorter window reproduces it" % (i, f[0], bad[0]),
            seq_ops[:i + 1])


def run(ck):
    bins = ck.build_all()
    if bins is None:
        return
    binary = bins["h"]
    q = ck.quick()
    ck.cov["rule"] = ("a case = one generated document (tree of <= 40 elements, depth <= 6, or a deep chain / wide+deep mix nested 1..200 levels incl. 31/32/33/64/65/128/129; mixed content, attributes, CDATA, comments, self-closing "
                      "elements, prolog) + routing configuration (0-3 names per route, overlapping/blank/padded entries), exploded either by a single "
                      "call with a fresh configuration or as one call of a sequence in the same process whose configuration buffers are reused / "
                      "rewritten in place; non-trivial: >= 3 elements and at least one routed list non-empty; distinct = distinct op lines")
    if getattr(ck, "var_failures", None):
        ck.broke("package-level variables regenerated from pkg/idoc (KafVerif.C45.no_package_level_state)",
                 "ExplodeXML must depend on the configuration and document of the call only; state that survives a call:\n" + "\n".join(ck.var_failures))
    docs = fixed_docs() + [gen_doc(ck.rng.fork()) for _ in range(700 if q else 8000)]
    # deep nesting: the theorems are for EVERY tree — chains of every boundary depth (plain and wide+deep mixes) and random depths 1..200
    drng = ck.rng.fork()
    for d in DEEP_BOUNDARY:
        docs.append(gen_deep_doc(drng.fork(), d, False))
        docs.append(gen_deep_doc(drng.fork(), d, True))
    for _ in range(20 if q else 300):
        docs.append(gen_deep_doc(drng.fork(), drng.range(1, 200), drng.chance(2, 3)))
    seq = gen_sequence(ck.rng.fork(), 900 if q else 12000)
    cases = [("doc", c, r, o) for c, r, o in docs] + seq
    ops = [c[3] for c in cases]
    # malformed stream (totality only): byte-level damage of serialised-looking inputs
    raws = []
    seeds = [b"<IDOC><A>1</A></IDOC>", b"<a><b>x</b><c/></a>", b"<?xml version=\"1.0\"?><r k=\"v\">t<![CDATA[z]]></r>"]
    for _ in range(150 if q else 1500):
        b = bytearray(ck.rng.choice(seeds))
        for _ in range(ck.rng.range(1, 3)):
            r = ck.rng.below(4)
            pos = ck.rng.below(len(b)) if b else 0
            if r == 0 and b:
                b[pos] = ck.rng.below(256)
            elif r == 1 and b:
                del b[pos:pos + ck.rng.range(1, 4)]
            elif r == 2:
                b[pos:pos] = ck.rng.choice([b"<", b">", b"</a>", b"&", b"<meta>", b"\x00", b"]]>", b"<!--"])
            else:
                b = b[:pos]
        raws.append("raw " + lib.hexs(bytes(b)))
    ops += raws
    impl, fn, crash = run_lines(ck, binary, ops, "all")
    if crash:
        ck.broke("implementation harness did not answer every op", crash)
        return
    model = ck.lean_run("C45", fn)
    first_corr = None
    seq_diagnosed = False
    prev_cfg = None
    for i, (kind, cfg, root, op) in enumerate(cases):
        io, mo = impl[i], model[i] if i < len(model) else None
        nseg = op.count(";S") + op.count(";s") + 1
        routed_nonempty = io.startswith("ok") and any(
            part.split("=", 1)[1] != "" for part in io.split() if part.split("=", 1)[0] in ("items", "partners", "statuses", "dates"))
        ck.case(op, nontrivial=(nseg >= 3 and routed_nonempty), sample={"op": op[:300], "impl": io[:300]} if i % 150 == 0 else None)
        ck.count("documents"); ck.count("elements", nseg)
        if kind == "doc":
            dp = tree_depth(root)
            ck.count("docs_nested_deeper_than_32", 1 if dp > 32 else 0)
            ck.count("docs_nested_deeper_than_64", 1 if dp > 64 else 0)
            ck.count("docs_nested_deeper_than_128", 1 if dp > 128 else 0)
            ck.cov["max_nesting_depth"] = max(ck.cov.get("max_nesting_depth", 0), dp)
        ck.count("docs_with_overlapping_routes", 1 if len(set().union(*[cfg_set(l) for l in cfg])) < sum(len(cfg_set(l)) for l in cfg) else 0)
        ck.count("docs_with_html_void_names", 1 if has_void_name(root) else 0)
        if kind != "doc":
            ck.count("sequence_calls"); ck.count("sequence_" + kind.replace("-", "_"))
            if prev_cfg is not None and [[go_trim(v) for v in l] for l in prev_cfg] != [[go_trim(v) for v in l] for l in cfg]:
                ck.count("sequence_calls_config_differs_from_previous_call")
            prev_cfg = cfg
        ck.cov["traces_validated_against_impl"] += 1
        try:
            bad = monitor(cfg, root, io)
        except Exception as e:
            bad = ("result-line-unparsable", "%r on %s" % (e, io[:200]))
        if bad and (kind != "doc" or bad[0] == "earlier-result-changed-by-later-call"):
            if not seq_diagnosed:            # diagnose the FIRST failing call of the sequence (later ones may be consequences)
                seq_diagnosed = True
                fp, what, rops = diagnose_sequence(ck, binary, ops[:len(cases)], i, bad)
                ck.violation(fp, what, {"ops": rops, "impl": io[:3000], "expected": "tree-level property monitor true on every call of the sequence",
                                        "actual": bad[1], "call_index": i, "kind": kind})
        elif bad:
            ck.violation(bad[0], bad[1], {"ops": [op], "impl": io[:3000], "expected": "tree-level property monitor true", "actual": bad[1]})
        elif io != mo and first_corr is None:
            first_corr = (op, io, mo)
    for j, op in enumerate(raws):
        io = impl[len(cases) + j]
        ck.count("malformed_inputs"); ck.count("malformed_" + io.replace(" ", "_"))
        ck.cov["evaluations"] += 1
        if io == "panic":
            ck.violation("explode-panics-on-malformed-input", "ExplodeXML panicked on %s" % op, {"ops": [op], "actual": "panic"})
    if ck.cov["distribution"].get("docs_nested_deeper_than_128", 0) == 0:
        ck.broke("generator", "no document nested deeper than 128 levels was generated")
    if first_corr and not ck.violations:
        op, io, mo = first_corr
        ck.cov["disagreements_checked"] += 1
        ck.broke("correspondence model/implementation (ExplodeXML)", "op %s\nimpl : %s\nmodel: %s" % (op[:1500], io[:1500], (mo or "")[:1500]))


def rebuild(op):
    """op line -> (cfg, root) for the monitor (replay)."""
    f = op.split()
    if f[0] == "call":
        f = f[1:]
    cfg = [[] if x == "_" else [unhx(h) for h in x.split(",")] for x in f[1:5]]
    stack, root = [], None
    for t in f[5].split(";"):
        if t[0] in "Ss":
            parts = t[1:].split(":", 1)
            attrs = []
            if len(parts) == 2:
                for kv in parts[1].split(","):
                    k, v = kv.split("=")
                    attrs.append((unhx(k), unhx(v)))
            n = Node(unhx(parts[0]), attrs, [], t[0] == "s")
            if stack:
                stack[-1].children.append(n)
            elif root is None:
                root = n
            stack.append(n)
        elif t == "E":
            stack.pop()
        elif t[0] in "TCK" and stack:
            stack[-1].children.append((t[0], unhx(t[1:])))
    return cfg, root


def replay(ck, path):
    import json
    rep = json.load(open(path))
    bins = ck.build_all()
    if bins is None:
        return
    ops = rep["ops"]
    impl, _, crash = run_lines(ck, bins["h"], ops, "replay")
    if crash:
        ck.broke("replay harness", crash)
        return
    for o, r in zip(ops, impl):
        print("  %-80s -> %s" % (o[:80], r[:300]))
        ck.case(o, sample={"op": o[:300]})
        if o.startswith("doc ") or o.startswith("call "):
            bad = line_bad(o, r)
            if bad:
                fp = bad[0]
                if len(ops) > 1 and rep.get("fingerprint") == "result-depends-on-earlier-calls":
                    fp = "result-depends-on-earlier-calls"
                ck.violation(fp, bad[1], {"ops": ops, "actual": bad[1]})
        elif r == "panic":
            ck.violation("explode-panics-on-malformed-input", "panic", {"ops": [o]})
    ck.cov["distinct_nontrivial"] = max(ck.cov["distinct_nontrivial"], 2)
