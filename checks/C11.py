"""C11 — every advertised API version is served with a decodable response (broker + proxy)."""
import json
import os
import struct
import subprocess

from checks import lib

PROPERTY = "C11"
LEAN_MODULES = ["KafVerif.Gen.C11Tables", "KafVerif.Props.C11"]
OBLIGATIONS = [
    "KafVerif.C11.broker_table_ok",
    "KafVerif.C11.broker_advertised_served",
    "KafVerif.C11.proxy_subset_broker",
    "KafVerif.C11.checkAdv_sound",
    "KafVerif.C11.checkSubset_sound",
    "KafVerif.C11.response_header_shape",
    "KafVerif.C11.response_header_corr",
    "KafVerif.C11.apiversions_header_never_flexible",
    "KafVerif.C11.advertised_reply_version",
    "KafVerif.C11.skipResponseHeader_total",
    "KafVerif.C11.skipResponseHeader_roundtrip",
    "KafVerif.C11.skipResponseHeader_reply",
    "KafVerif.C11.skipResponseHeader_short",
    "KafVerif.C11.skipResponseHeader_apiversions_shifted",
    "KafVerif.C11.nonflex_string_roundtrip",
    "KafVerif.C11.nonflex_string_overflow_rejected",
    "KafVerif.C11.nonflex_string_65535_reads_null",
    "KafVerif.C11.produce_contract",
    "KafVerif.C11.handleOutcome_answers",
    "KafVerif.C11.reply_stream",
    "KafVerif.C11.broker_reply_stream",
    "KafVerif.C11.replyFrame_corr",
    "KafVerif.C11.reply_stream_aligned",
    "KafVerif.C11.acks0_error_desynchronises",
    "KafVerif.C11.noreply_only_acks0_produce",
    "KafVerif.C11.acks0_guard_returns_nothing",
]
BUILDS = {
    "b": ("root", "./cmd/broker", ["C10", "C11"]),
    "p": ("root", "./cmd/proxy", ["C10", "C11"]),
}
LEVEL = "proof"
LEVEL_TEXT = ("Lean obligations over tables REGENERATED from the current source (advertised ranges dumped from "
              "generateApiVersions/generateProxyApiVersions, handler version guards and served request types extracted with "
              "go/ast from handler.Handle, kmsg max/flexible versions): every advertised (key, version) has a dispatch arm, "
              "passes every handler version guard and is known to kmsg; proxy ranges lie inside broker ranges; response header "
              "is 5 bytes iff flexible and key != ApiVersions and carries the correlation id; the proxy's SkipResponseHeader never "
              "panics and inverts that header (any well-formed tagged-field section) for every key but ApiVersions; the reply stream of a "
              "connection is one frame per reply-expecting request, in order (reply_stream: serve = filterMap; an acks=0 produce is never "
              "answered; source facts: the only `return nil, nil` is inside `if req.Acks == 0` of the Produce arm and nothing else is returned there).  Byte-level decodability is "
              "validated exhaustively over the finite (key, version) space with generated bodies through the real handler and "
              "the real proxy connection loop.")
LEVEL_NOTE = "partial: the theorems cover the tables and the header rule; decodability of response bodies is validated (exhaustive over (key, version), generated bodies), kmsg being the codec"
TECHNIQUE = "generated-facts obligations (decide + hand-proved soundness lemmas) + exhaustive (key, version) run through the real handler/proxy"
ASSUMPTIONS = [
    "kmsg v1.12 is the 'standard Kafka client codec'; a reply is decodable when kmsg decodes it at the request version and re-encodes it to the same bytes",
    "ApiVersions requests above the supported maximum are answered in the v0 format with UNSUPPORTED_VERSION (KIP-511); accepted as decodable",
    "generated bodies keep partition indexes in 0..3 and ListOffsets MaxNumOffsets <= 16 (handler allocation/creation by request is out of scope, see notes)",
    "the go/ast extractor recognises version guards of the form `if header.APIVersion </> LIT {... return nil, err}` in Handle and in handle* callees",
    "the go/ast extractor classifies two-result `return` statements of Handle's arms (one level into h.handle*) as nil,nil / nil,err / value and "
    "recognises the fire-and-forget guard as `if <x>.Acks == 0 { ... }`; the connection loop (server.go: payload -> frame, nil,nil -> nothing, "
    "error -> error frame, continue) is modelled by hand (ApiTable.framesFor) and tied by the pipelined run + the `stream` correspondence op",
]
N_BOUNDARY_NAMES = 11      # = len(verifC11BoundaryNames) in harness/C11/root/cmd/broker/zz_verif_c11.go
GEN = os.path.join(lib.LEAN, "KafVerif", "Gen", "C11Tables.lean")


def _tables(ck, bins):
    rows = {"broker": [], "proxy": [], "kmsg": []}
    rc, out, err = ck.run_bin(bins["b"], args=["tables"], env={"VERIF_HARNESS": "C11"})
    if rc != 0:
        raise RuntimeError("broker tables dump failed: " + err[-500:])
    rc2, out2, err2 = ck.run_bin(bins["p"], args=["tables"], env={"VERIF_HARNESS": "C11P"})
    if rc2 != 0:
        raise RuntimeError("proxy tables dump failed: " + err2[-500:])
    names = {}
    for line in (out + out2).split("\n"):
        f = line.split()
        if not f:
            continue
        if f[0] == "adv":
            rows[f[1]].append((int(f[2]), int(f[3]), int(f[4])))
        elif f[0] == "kmsg":
            rows["kmsg"].append((int(f[1]), int(f[2]), int(f[3]), int(f[4])))
            names[f[5]] = int(f[1])
        elif f[0] == "error":
            raise RuntimeError("harness: " + line)
    return rows, names


def extract(ck):
    """go/ast facts about handler.Handle from the CURRENT source (shared with C24)."""
    tool = os.path.join(lib.HARNESS, "C11", "tools", "extract", "main.go")
    p = subprocess.run(["go", "run", tool, lib.REPO], cwd=ck.scratch, env=lib.go_env(), capture_output=True, text=True)
    if p.returncode != 0:
        raise RuntimeError("extractor failed: " + (p.stdout + p.stderr)[-800:])
    return [json.loads(l) for l in p.stdout.split("\n") if l.strip()]


def generate(ck):
    bins = ck.build_all()
    ck._c11 = {"bins": bins}
    if bins is None:
        raise RuntimeError("harness build failed")
    rows, names = _tables(ck, bins)
    arms = extract(ck)
    served, guards = [], []
    for a in arms:
        for t in a["types"]:
            if t in names:
                k = names[t]
                served.append(k)
                lo, hi = -32768, 32767
                for e in a["events"]:
                    if e["kind"] == "vguard":
                        lit = int(e["lit"])
                        if e["op"] == "<":
                            lo = max(lo, lit)
                        elif e["op"] == "<=":
                            lo = max(lo, lit + 1)
                        elif e["op"] == ">":
                            hi = min(hi, lit)
                        elif e["op"] == ">=":
                            hi = min(hi, lit - 1)
                guards.append((k, lo, hi))
    # what each arm hands back to the connection loop (two-result returns, following h.handle* one level): a `return nil, nil` makes
    # the loop write NOTHING; the only place allowed to do that is the acks=0 tail of the Produce arm, and inside that guard nothing
    # else may be returned (an error there would be answered with an unsolicited error frame)
    noreply, acks0 = [], []
    for a in arms:
        ks = [names[t] for t in a["types"] if t in names] or [-1]
        for e in a["events"]:
            if e["kind"] != "ret":
                continue
            cls = {"nilnil": 0, "nilerr": 1, "value": 2}[e["call"]]
            for k in ks:
                if cls == 0:
                    noreply.append((k, 1 if e.get("acks0") else 0))
                if e.get("acks0"):
                    acks0.append((k, cls))
    ck._c11.update(rows=rows, names=names, served=served, guards=guards, noreply=noreply, acks0=acks0)

    def lst(xs):
        return "[" + ", ".join("(" + ", ".join(str(v) for v in x) + ")" for x in xs) + "]"
    src = ("-- GENERATED by checks/C11.py from the current source; do not edit.\n"
           "namespace KafVerif.Gen.C11\n"
           "def brokerAdv : List (Int × Int × Int) := %s\n"
           "def proxyAdv : List (Int × Int × Int) := %s\n"
           "def kmsgTab : List (Int × Int × Int × Int) := %s\n"
           "def handlerGuards : List (Int × Int × Int) := %s\n"
           "def servedKeys : List Int := [%s]\n"
           "/-- every `return nil, nil` reachable from an arm of Handle: (key of the arm, 1 iff lexically inside `if req.Acks == 0`) -/\n"
           "def noReplyReturns : List (Int × Int) := %s\n"
           "/-- every two-result return lexically inside `if req.Acks == 0 { }`: (key of the arm, 0 nil,nil / 1 nil,err / 2 payload) -/\n"
           "def acks0Returns : List (Int × Int) := %s\n"
           "end KafVerif.Gen.C11\n") % (lst(rows["broker"]), lst(rows["proxy"]), lst(rows["kmsg"]), lst(guards), ", ".join(map(str, served)),
                                         lst(noreply), lst(acks0))
    old = open(GEN).read() if os.path.exists(GEN) else None
    if old != src:
        os.makedirs(os.path.dirname(GEN), exist_ok=True)
        with ck._lake_lock():
            open(GEN, "w").write(src)


def pairs(rows, extra=True):
    out = []
    for k, lo, hi in rows:
        if lo < 0:
            continue
        vs = list(range(lo, hi + 1))
        if extra:
            vs += ([lo - 1] if lo > 0 else []) + [hi + 1]
        out += [(k, v, lo <= v <= hi) for v in vs]
    return out


def run(ck):
    st = getattr(ck, "_c11", None)
    if not st or not st.get("bins") or "rows" not in st:
        return  # generate() already reported the broken build/translator
    bins, rows = st["bins"], st["rows"]
    seeds = 4 if ck.quick() else 40
    ck.cov["rule"] = ("exhaustive over every advertised (key, version) of broker and proxy plus the two adjacent unadvertised versions "
                      "per key, x generated request bodies (reflective fill of the kmsg struct from VERIF_SEED); broker: ParseRequest -> "
                      "handler.Handle (-> buildErrorResponse on error); proxy: real handleConnection over net.Pipe, not-ready and "
                      "no-backend situations; pipelined: one request per advertised (key, version) interleaved with acks=0 produces (valid / bad batch / "
                      "invalid topic / foreign partition / ACL-denied / mixed / generated / empty; handler default, ACL on, S3 unavailable) on one real "
                      "connection loop, k-th reply = k-th reply-expecting request.  Non-trivial = every op (each is a distinct (key, version, body)); distinct = distinct op lines")
    ck.cov["exhaustive"] = True
    ck.partial = ("theorems cover the regenerated tables and the response-header rule; that every response BODY decodes at the "
                  "request version is validated exhaustively over (key, version) with generated bodies, not proved (kmsg is the codec)")
    # ---------------- broker
    ops, meta = [], []
    n = 0
    for k, v, adv in pairs(rows["broker"]):
        for s in range(seeds):
            n += 1
            corr = ck.rng.choice([0, 1, -1, 2 ** 31 - 1, -2 ** 31, ck.rng.below(2 ** 31)])
            ops.append("req %d %d %d %d" % (k, v, corr, ck.rng.next() % (1 << 62)))
            meta.append((k, v, adv, corr))
    impl = _run_impl(ck, bins["b"], {"VERIF_HARNESS": "C11"}, ops, "broker")
    fn = ck.path("ops_broker.txt")
    model = ck.lean_run("C11", fn)
    _judge(ck, "broker", ops, meta, impl, model)
    # ---------------- broker, boundary strings: every advertised (key, version) whose request has a Topics list, with topic names at
    # the int16 string-length boundary (32766/32767, 32768 for flexible versions), the topic-name limit (249/250), and names that
    # expand when quoted/escaped (NULs, quotes, DEL, multi-byte) - whatever a handler echoes into the reply, it must stay decodable
    bops, bmeta = [], []
    for k, v, adv in pairs(rows["broker"], extra=False):
        for idx in range(N_BOUNDARY_NAMES):
            corr = ck.rng.choice([1, -1, 2 ** 31 - 1, ck.rng.below(2 ** 31)])
            bops.append("reqb %d %d %d %d %d" % (k, v, corr, ck.rng.next() % (1 << 62), idx))
            bmeta.append((k, v, adv, corr))
    bimpl = _run_impl(ck, bins["b"], {"VERIF_HARNESS": "C11"}, bops, "broker_boundary")
    keep = [i for i, o in enumerate(bimpl) if o != "reply not-applicable"]
    ck.count("broker-boundary:not-applicable", len(bops) - len(keep))
    mfn = ck.path("ops_boundary_model.txt")
    open(mfn, "w").write("\n".join("req " + " ".join(bops[i].split()[1:5]) for i in keep) + "\n")
    bmodel = ck.lean_run("C11", mfn) if keep else []
    _judge(ck, "broker", [bops[i] for i in keep], [bmeta[i] for i in keep], [bimpl[i] for i in keep], bmodel)
    # ---------------- SkipResponseHeader (the proxy's reading of a reply header) against the model and the header rule
    run_srh(ck, bins, rows)
    # ---------------- broker, pipelined: every advertised (key, version) back to back on ONE real connection loop, interleaved with
    # fire-and-forget (acks=0) produces of every kind (valid, bad batch, invalid topic, foreign partition, ACL-denied, mixed, generated,
    # empty) which must get NO reply: the k-th reply must belong to the k-th reply-expecting request.  cfg 0 default handler, 1 ACL on
    # (one topic denied), 2 S3 unavailable.
    if not st.get("acks0"):
        ck.notes.append("source facts: no `if req.Acks == 0` guard found in the Produce arm (the acks0 obligations are vacuous; the pipelined run is the tie)")
    for cfg in (0, 1, 2):
        rc, out, err = ck.run_bin(bins["b"], args=["acks0probe", str(cfg)], env={"VERIF_HARNESS": "C11"}, timeout=60)
        for w in out.split()[1:]:
            name, frac = w.split("=")
            ck.count("acks0-generator:cfg%d:%s:%s" % (cfg, name, "rejected" if not frac.startswith(("0/", "-1/")) else "accepted"))
    chunk = lambda: 2 + ck.rng.below(1 << 30)
    plan = [(0, 0), (1, 1), (chunk(), 2)] if ck.quick() else [(m, c) for c in (0, 1, 2) for m in (0, 1, chunk(), chunk())]
    for mode, cfg in plan:
        pseed = ck.rng.next() % (1 << 62)
        pop = "pipe %d %d %d" % (pseed, mode, cfg)
        _pipe(ck, bins, pop)
    # ---------------- broker, concurrent: one shared handler, GOMAXPROCS goroutines, same API key at mixed versions
    cseed, cms = ck.rng.next() % (1 << 62), (1500 if ck.quick() else 10000)
    rc, out, err = ck.run_bin(bins["b"], args=["conc", str(cseed), str(cms)], env={"VERIF_HARNESS": "C11"}, timeout=180)
    line = (out.strip().split("\n") or [""])[-1]
    ck.count("broker-conc:" + " ".join(line.split()[:2]))
    if line.startswith("conc ok"):
        ck.cov["evaluations"] += int(line.split("requests=")[1].split()[0])
        ck.case(("conc", cseed), sample={"op": "conc %d %d" % (cseed, cms), "impl": line})
    elif line.startswith("conc mismatch"):
        ck.violation("concurrent-request-disturbed",
                     "with other connections sending the same API key at other versions through the same handler, a valid request was not "
                     "answered decodably at its own version (%s)" % line[14:],
                     {"ops": ["conc %d %d" % (cseed, cms)], "who": "broker-conc", "actual": line})
    else:
        ck.violation("handler-panic", "the concurrent broker scenario died: " + (err[-300:] or line), {"ops": ["conc %d %d" % (cseed, cms)], "who": "broker-conc", "actual": line})
    # ---------------- proxy
    pops, pmeta = [], []
    for mode in ("notready", "nobackend"):
        for k, v, adv in pairs(rows["proxy"]):
            for s in range(max(1, seeds // 2)):
                corr = ck.rng.choice([0, 7, -1, 2 ** 31 - 1, ck.rng.below(2 ** 31)])
                pops.append("preq %s %d %d %d %d" % (mode, k, v, corr, ck.rng.next() % (1 << 62)))
                pmeta.append((k, v, adv, corr))
    pimpl = _run_impl(ck, bins["p"], {"VERIF_HARNESS": "C11P"}, pops, "proxy")
    # the model driver takes `req` lines; the proxy's own replies follow the same header rule except that the proxy's
    # ApiVersions arm has no v0 fallback (it encodes at the request version)
    mops = ["req " + " ".join(o.split()[2:]) for o in pops]
    mfn = ck.path("ops_proxy_model.txt")
    open(mfn, "w").write("\n".join(mops) + "\n")
    pmodel = ck.lean_run("C11", mfn)
    _judge(ck, "proxy", pops, pmeta, pimpl, pmodel)


def _pipe(ck, bins, pop, replaying=False):
    """One pipelined connection (`pipe seed mode cfg`); judges the harness line and compares the reply sequence with the model's
    `serve` (stream theorem reply_stream: replies = filterMap over requests)."""
    args = pop.split()
    rc, out, err = ck.run_bin(bins["b"], args=args, env={"VERIF_HARNESS": "C11"}, timeout=180)
    line = (out.strip().split("\n") or [""])[-1]
    mode, cfg = int(args[2]), int(args[3]) if len(args) > 3 else 0
    if replaying:
        print("  %s -> %s" % (pop, line[:200]))
    ck.count("broker-pipe:cfg%d:%s" % (cfg, " ".join(line.split()[:3])))
    if line.startswith("pipe ok"):
        ck.cov["evaluations"] += int(line.split("replies=")[1].split()[0])
        ck.count("broker-pipe:acks0-produces", int(line.split("acks0=")[1].split()[0]))
        ck.case(pop, sample={"op": pop, "impl": line[:160]})
        reqs = line.split("reqs=")[1].split()[0]
        got = line.split("got=")[1].split()[0] if "got=" in line and not line.endswith("got=") else ""
        fn = ck.path("ops_stream.txt")
        open(fn, "w").write("stream %s\n" % reqs)
        model = ck.lean_run("C11", fn)
        ck.cov["traces_validated_against_impl"] += 1
        if model != ["replies " + got]:
            ck.cov["disagreements_checked"] += 1
            ck.broke("correspondence model/implementation (reply stream of a connection: serve = filterMap over requests)",
                     "op %s\nreqs : %s\nimpl : replies %s\nmodel: %s" % (pop, reqs[:400], got[:400], (model or [""])[0][:400]))
        return True
    where = {0: "a single write", 1: "one write per frame"}.get(mode, "chunks ignoring frame boundaries")
    hcfg = {0: "default handler", 1: "ACL enabled", 2: "S3 unavailable"}.get(cfg, "cfg %d" % cfg)
    if line.startswith("pipe mismatch"):
        ck.violation("pipelined-request-" + line.split()[2],
                     "requests for every advertised (key, version), interleaved with acks=0 produces (which get no reply), written back to "
                     "back on one connection (%s, %s): the k-th reply must belong to the k-th reply-expecting request: %s" % (where, hcfg, line[14:]),
                     {"ops": [pop], "who": "broker-pipe", "actual": line[:400]})
    else:
        ck.violation("handler-panic", "the pipelined broker scenario died: " + (err[-300:] or line), {"ops": [pop], "who": "broker-pipe", "actual": line[:400]})
    return False


def _uvarint(v):
    out = bytearray()
    while v >= 0x80:
        out.append((v & 0x7F) | 0x80)
        v >>= 7
    out.append(v)
    return bytes(out)


def srh_cases(rng, kmsg_rows, n):
    """`srh k v hex` = protocol.SkipResponseHeader on reply bytes.  Returns (op, expected body or None): expected is set for replies
    whose header is written by the rule of EncodeResponse / any Kafka peer (correlation id, + a well-formed tagged-field section iff the
    response is flexible) for keys other than ApiVersions; everything else (short data, lying sizes, unknown keys, key 18) is compared
    with the model only."""
    out = []
    def add(k, v, data, want):
        out.append(("srh %d %d %s" % (k, v, lib.hexs(data)), want))
    for (k, mx, _fq, fr) in kmsg_rows:
        for v in sorted({0, min(max(0, fr - 1), mx), min(fr, mx), mx}):   # the table is a threshold for versions -2..64 (asserted by the harness); 32767 = never
            flexible = v >= fr
            corr = struct.pack(">i", rng.choice([0, 1, -1, 2 ** 31 - 1, -2 ** 31, rng.below(2 ** 31)]))
            body = rng.choice([b"", b"\x00", b"\x00\x00", b"\x01\x00\x00", b"\x80", rng.bytes(rng.below(12))])
            tags = [] if rng.chance(2, 3) else [(rng.choice([0, 1, 127, 128, 2 ** 64 - 1]), rng.bytes(rng.choice([0, 1, 2, 127, 128])))
                                                 for _ in range(rng.choice([1, 2, 3]))]
            section = (_uvarint(len(tags)) + b"".join(_uvarint(t) + _uvarint(len(d)) + d for t, d in tags)) if flexible else b""
            add(k, v, corr + section + body, body if k != 18 else None)
            add(k, v, corr, b"" if (not flexible and k != 18) else None)              # nothing after the correlation id
            add(k, v, corr[: rng.below(4)], None)                                      # shorter than a correlation id
            if flexible:
                add(k, v, corr + b"\x01\x00" + _uvarint(rng.choice([5, 2 ** 31, 2 ** 63, 2 ** 64 - 1])) + body, None)   # lying size
                add(k, v, corr + bytes([0x80] * rng.choice([1, 9, 10])) + body, None)                                   # bad varint
    for k in (200, -1, 32767, 68, 93):
        add(k, 0, b"\x00\x00\x00\x01\x00", None)
    for _ in range(n):
        k, mx, _fq, fr = rng.choice(kmsg_rows)
        add(k, rng.choice([0, min(fr, mx), mx, mx + 1, -1]), rng.bytes(rng.below(14)), None)
    return out


def run_srh(ck, bins, rows):
    cases = srh_cases(ck.rng, rows["kmsg"], 200 if ck.quick() else 3000)
    ops = [c[0] for c in cases]
    impl = _run_impl(ck, bins["b"], {"VERIF_HARNESS": "C11"}, ops, "srh")
    model = ck.lean_run("C11", ck.path("ops_srh.txt"))
    for (op, want), o, m in zip(cases, impl, model):
        ck.count("srh:" + " ".join(o.split()[:2]))
        ck.case(op, nontrivial=o.startswith("srh ok"), sample={"op": op[:100], "impl": o[:100]} if want else None)
        what = None
        if "panic" in o or o.startswith("crash") or o == "missing":
            what = ("reply-header-skip-panic", "SkipResponseHeader panicked/crashed on reply bytes: " + o[:100])
        elif want is not None and o != "srh ok body=" + lib.hexs(want):
            what = ("reply-header-not-skipped-exactly",
                    "a reply whose header follows the rule of EncodeResponse (correlation id + tagged-field section iff flexible) is not "
                    "read back by SkipResponseHeader as header + exactly the body (%s, expected body=%s)" % (o[:80], lib.hexs(want)[:80]))
        if what:
            ck.violation(what[0], what[1], {"ops": [op], "who": "srh", "actual": o, "expected": None if want is None else "srh ok body=" + lib.hexs(want)})
            return
        if o != m:
            ck.cov["disagreements_checked"] += 1
            ck.broke("correspondence model/implementation (protocol.SkipResponseHeader)", "op %r\nimpl : %s\nmodel: %s" % (op[:300], o[:300], m[:300]))
            return
    ck.cov["traces_validated_against_impl"] += 1


def _run_impl(ck, binary, env, ops, tag):
    """Runs ops; the harness exits after a timeout line (leaked handler goroutine), so resume after it."""
    fn = ck.path("ops_%s.txt" % tag)
    open(fn, "w").write("\n".join(ops) + "\n")
    out_lines = []
    start = 0
    while start < len(ops):
        part = ck.path("part_%s.txt" % tag)
        open(part, "w").write("\n".join(ops[start:]) + "\n")
        rc, out, err = ck.run_bin(binary, stdin_path=part, env=env, timeout=600, mem_gb=4)
        got = out.split("\n")[:-1]
        if not got:
            out_lines.append("crash " + err[-200:].replace("\n", " "))
            start += 1
            continue
        out_lines += got
        start += len(got)
        if rc == 0:
            break
    return out_lines[:len(ops)] + ["missing"] * max(0, len(ops) - len(out_lines))


def _judge(ck, who, ops, meta, impl, model):
    diffs = 0
    for op, (k, v, adv, corr), o, m in zip(ops, meta, impl, model):
        head = o.split(" | ")[0]
        ck.count("%s:%s" % (who, o.split()[0] + ("" if "decode=" not in o else ":" + o.split("decode=")[1].split()[0])))
        ck.case(op, sample={"op": op, "impl": o[:120]})
        what = None
        if o.startswith("panic") or o.startswith("crash"):
            what = ("handler-panic", "%s: request key %d v%d made the handler panic/crash" % (who, k, v))
        elif o == "timeout" or o.startswith("noreply") or o == "missing":
            if who == "proxy" and not adv:
                what = None  # the proxy forwards unadvertised versions; no own reply is promised
            else:
                fp = "request-never-answered" if o == "timeout" else "no-reply"
                what = (fp, "%s: request key %d v%d (%s) got no reply (%s)" % (who, k, v, "advertised" if adv else "not advertised", o.split(" | ")[0]))
        elif not o.startswith("reply"):
            what = ("harness-problem", "%s: %s" % (who, o[:160]))
        else:
            kv = dict(x.split("=", 1) for x in o.replace("|", " ").split() if "=" in x)
            if kv.get("decode") != "exact":
                if who == "proxy" and not adv:
                    what = None
                else:
                    what = ("reply-not-decodable", "%s: reply to key %d v%d is not decodable by kmsg at that version (%s)" % (who, k, v, kv.get("decode")))
            elif int(kv["corr"]) != corr:
                what = ("wrong-correlation-id", "%s: reply to key %d v%d carries correlation id %s, request had %d" % (who, k, v, kv["corr"], corr))
            elif adv and kv.get("ver") == "v0-fallback":
                what = ("advertised-version-answered-as-unsupported", "%s: ApiVersions v%d is advertised but answered with the v0 UNSUPPORTED_VERSION fallback" % (who, v))
            elif head != m and not (who == "proxy" and k == 18 and v > 4):
                what = ("wrong-response-header-shape", "%s: reply to key %d v%d has header '%s', the header rule (5 bytes iff flexible and not ApiVersions) gives '%s'" % (who, k, v, head, m))
        if what:
            ck.violation(what[0], what[1], {"ops": [op], "who": who, "actual": o, "expected": m})
        elif o.startswith("reply") and head != m and not (who == "proxy" and k == 18 and v > 4):
            diffs += 1
            if diffs == 1:
                ck.cov["disagreements_checked"] += 1
                ck.broke("correspondence model/implementation (%s response header rule)" % who, "op %s\nimpl : %s\nmodel: %s" % (op, o, m))
    ck.cov["traces_validated_against_impl"] += 1


def replay(ck, path):
    rep = json.load(open(path))
    generate(ck)
    st = ck._c11
    if not st.get("bins"):
        return
    who = rep.get("who", "broker")
    ops = rep["ops"]
    if who == "broker-pipe":
        _pipe(ck, st["bins"], ops[0], replaying=True)
        ck.cov["distinct_nontrivial"] = max(ck.cov["distinct_nontrivial"], 2)
        return
    if who == "broker-conc":
        _, seed, ms = ops[0].split()
        for attempt in range(3):
            rc, out, err = ck.run_bin(st["bins"]["b"], args=["conc", str(int(seed) + attempt), str(max(3000, int(ms)))], env={"VERIF_HARNESS": "C11"}, timeout=180)
            line = (out.strip().split("\n") or [""])[-1]
            print("  conc ->", line)
            ck.case(("conc", seed, attempt), sample={"op": ops[0], "impl": line})
            if not line.startswith("conc ok"):
                ck.violation(rep.get("fingerprint", "concurrent-request-disturbed"), rep.get("what", line), {"ops": ops, "who": who, "actual": line})
                break
        ck.cov["distinct_nontrivial"] = max(ck.cov["distinct_nontrivial"], 2)
        return
    if who == "srh":
        impl = _run_impl(ck, st["bins"]["b"], {"VERIF_HARNESS": "C11"}, ops, "replay")
        for op, o in zip(ops, impl):
            print("  %s -> %s (expected %s)" % (op[:120], o[:120], rep.get("expected")))
            ck.case(op, sample={"op": op[:100], "impl": o[:100]})
            if "panic" in o or o.startswith("crash") or (rep.get("expected") and o != rep["expected"]):
                ck.violation(rep.get("fingerprint", "reply-header-not-skipped-exactly"), rep.get("what", o), {"ops": ops, "who": who, "actual": o, "expected": rep.get("expected")})
        ck.cov["distinct_nontrivial"] = max(ck.cov["distinct_nontrivial"], 2)
        return
    impl = _run_impl(ck, st["bins"]["b" if who == "broker" else "p"], {"VERIF_HARNESS": "C11" if who == "broker" else "C11P"}, ops, "replay")
    for op, o in zip(ops, impl):
        print("  %s -> %s" % (op, o))
        ck.case(op, sample={"op": op, "impl": o})
        if not o.startswith("reply") or "decode=exact" not in o:
            ck.violation(rep.get("fingerprint", "no-reply"), rep.get("what", o), {"ops": ops, "who": who, "actual": o})
    ck.cov["distinct_nontrivial"] = max(ck.cov["distinct_nontrivial"], 2)
