"""C20 — proxy routing tables converge to the current lease owners.

Tie: real PartitionRouter / GroupRouter over an embedded etcd with an interposed clientv3 KV.Get
(loadAll's read: gated, can be failed) and Watcher.Watch (gated; the channel handed to the router
can be closed on demand).  Lease puts/deletes are committed exactly in the windows the schedule
names (before the read, between read and watch registration, while the watch is down).  At every
`sync` (all owed events applied) AllRoutes / LookupOwner are compared with an etcd dump (monitor)
and with the Lean model (Driver/C20.lean).
"""
import json
import subprocess
import threading

from checks import lib

PROPERTY = "C20"
LEAN_MODULES = ["KafVerif.Props.C20"]
OBLIGATIONS = [
    "KafVerif.C20.converges",
    "KafVerif.C20.converges_exact",
    "KafVerif.C20.present_routes_correct",
    "KafVerif.C20.norev_violates_startup",
    "KafVerif.C20.norev_violates_failed_reload",
    "KafVerif.C20.skipSameRev_violates",
    "KafVerif.C20.reload_unsticks",
]
ASSUMPTIONS = [
    "etcd watch contract: a watch created with start revision w delivers every event with revision >= w, in order; a Get is a snapshot at its header revision",
    "one etcd revision is never split over two watch responses, and the loop applies a whole response under its lock (deliver = one revision's events, processed event by event with the code's bookkeeping)",
    "compaction: a watch whose start revision lies before the compaction point fails with ErrCompacted (the harness produces that response deterministically from the Watch call's start revision); compaction is only scheduled while the watch is down or fully caught up",
    "lease keys are the ones the lease managers write (<topic>/<int32> and <group id>): the key parsers are injective on them; aliasing spellings (+5, 05) are outside the model",
    "Invalidate is outside the property's quantifier; it is modelled and proved separately (an invalidated route is absent until re-learnt, never wrong)",
]
BUILDS = {"h": ("root", "./cmd/verif_c20", ["C20"])}
LEVEL_TEXT = ("Lean 4 theorem by induction over every history of lease puts/deletes interleaved with loads, failed reloads, "
              "watch registrations, deliveries, closures and invalidations: after quiescence the table equals the etcd state; "
              "tied to the current source by driving the real routers over embedded etcd with gated Get/Watch and diffing "
              "tables with the model at every quiescent point.")
TECHNIQUE = "Lean 4 inductive invariant (table = snapshot at tracked revision) + Go/Lean differential correspondence with fault-injected watch streams"

ACCEPTED = {"partition": [0, 1, 2, 3, 4, 10, 11], "group": [0, 1, 2, 3, 4]}
NKEYS = {"partition": 12, "group": 5}   # group key 5 (empty id) doubles as the sync sentinel

CORPUS = {
    "startup-gap": ["put 0 1", "start", "load ok", "put 1 2", "del 0", "watch", "sync"],
    "startup-gap-rejected-keys": ["start", "load ok", "put 5 1", "put 2 3", "watch", "sync"],
    "reconnect-gap": ["start", "load ok", "watch", "put 0 1", "sync", "close", "put 1 1", "load ok", "put 0 2", "del 1", "watch", "sync"],
    "reconnect-failed-reload": ["put 0 1", "start", "load ok", "watch", "sync", "close", "del 0", "put 1 2", "load fail", "put 2 2", "watch", "sync"],
    "two-failed-reloads": ["start", "load ok", "watch", "put 0 1", "sync", "close", "put 0 2", "load fail", "watch", "close", "put 0 3", "load fail", "watch", "sync"],
    "reload-drops-deleted": ["put 0 1", "put 1 1", "start", "load ok", "watch", "sync", "close", "del 0", "load ok", "watch", "sync"],
    "reload-replaces-changed": ["put 0 1", "start", "load ok", "watch", "sync", "close", "put 0 2", "del 0", "put 1 3", "load ok", "del 1", "watch", "sync"],
    "healthy-watch": ["start", "load ok", "watch", "put 0 1", "put 1 2", "del 0", "put 0 3", "sync", "del 1", "sync"],
    "invalidate-then-event": ["put 0 1", "put 1 1", "start", "load ok", "watch", "sync", "invalidate 0", "sync", "put 0 2", "sync", "invalidate 1", "close", "load fail", "watch", "sync"],
    "session-revoke-two-keys-one-revision": ["put 0 1", "put 1 1", "put 2 2", "start", "load ok", "watch", "sync", "batch d:0 d:1", "sync", "batch p:0:3 p:1:3 d:2", "sync"],
    "multi-key-revision-in-gap": ["put 0 1", "put 1 1", "start", "load ok", "batch d:0 d:1 p:2:2", "watch", "sync"],
    "multi-key-revision-while-down": ["put 0 1", "put 1 1", "start", "load ok", "watch", "sync", "close", "batch d:0 d:1", "batch p:2:1 p:3:1", "load fail", "watch", "sync"],
    "cut-compact-change-failed-reload": ["put 0 1", "start", "load ok", "watch", "sync", "close", "put 0 2", "put 1 3", "compact", "load fail", "watch", "load ok", "watch", "sync"],
    "cut-compact-change": ["put 0 1", "put 1 1", "start", "load ok", "watch", "sync", "close", "del 1", "put 0 2", "compact", "put 2 2", "load ok", "watch", "sync"],
    "cut-change-compact-caught-up": ["put 0 1", "start", "load ok", "watch", "put 1 1", "sync", "compact", "close", "put 0 2", "load fail", "watch", "sync"],
    "failed-start-then-start": ["put 0 1", "start", "load fail", "start", "load ok", "put 1 1", "watch", "sync"],
}


def parse_sync(line):
    f = line.split(" ")
    d = {}
    tag = None
    for x in f:
        if x.startswith("watching="):
            d["watching"] = x.endswith("true")
        elif "=" in x:
            k, v = x.split("=", 1)
            d[k] = dict(p.split(":", 1) for p in v.split(",") if ":" in p) if v else {}
            d[k + "_raw"] = v
        else:
            tag = x
    return tag, d


def monitor(ops, lines):
    inval = set()
    watching = False
    for i, (op, line) in enumerate(zip(ops, lines)):
        f = op.split()
        if line.startswith("stuck-") or line.startswith("skipped-after-") or line == "harness-timeout":
            return i, "router-never-converges", "the router's load/watch loop did not reach the next point within the step timeout: %s" % line.split(" ")[0]
        if f[0] == "reset":
            inval, watching = set(), False
        elif f[0] == "invalidate":
            inval.add(f[1])
        elif f[0] in ("put", "del"):
            inval.discard(f[1])
        elif f[0] == "batch":
            for x in f[1:]:
                inval.discard(x.split(":")[1])
        elif f[0] == "load" and f[1] == "ok" and not watching:
            inval = set()          # (a reload request while the watch is running is a no-op)
        elif f[0] == "watch":
            watching = watching or line == "-"
        elif f[0] == "close":
            watching = False
        elif f[0] == "sync" and i == len(ops) - 1 and "watching=true" not in line.split(" "):
            # every generated history ends with  load ok ; watch ; sync : a successful read can always be followed by a watch
            return i, "router-never-converges", "after the final successful reload the router has no running watch (%s)" % line[:120]
        elif f[0] == "sync" and watching:
            tag, d = parse_sync(line)
            if "table" not in d:
                return i, "watch-loop-stuck", "no table dump: %s" % line
            if "?" in d["table_raw"]:
                return i, "route-for-unknown-key", "routing table holds an entry that is no lease key: %s" % d["table_raw"]
            for k in set(d["etcd"]) | set(d["table"]):
                t, e = d["table"].get(k), d["etcd"].get(k)
                if k in inval and t is None:
                    continue
                if t != e:
                    return i, "table-differs-after-quiescence", "after quiescence route %s is %s but etcd records %s (table=%s etcd=%s)" % (
                        k, t, e, d["table_raw"], d["etcd_raw"])
            if d["lookup"] != d["table"]:
                return i, "lookup-differs-from-table", "LookupOwner and AllRoutes disagree: %s vs %s" % (d["lookup_raw"], d["table_raw"])
    return None


def gen_events(rng, kind, n):
    out = []
    nk = NKEYS[kind]
    hot = ACCEPTED[kind][:3]
    for _ in range(n):
        if rng.chance(1, 4):
            ks = list(ACCEPTED[kind][:4]) + [nk - 1]
            evs = []
            for _ in range(rng.range(2, 3)):
                k = rng.choice(ks)
                ks.remove(k)
                evs.append("d:%d" % k if rng.chance(1, 2) else "p:%d:%d" % (k, rng.below(4)))
            out.append("batch " + " ".join(evs))
            continue
        k = rng.choice(hot) if rng.chance(2, 3) else rng.below(nk)
        if rng.chance(3, 5):
            out.append("put %d %d" % (k, rng.below(4)))
        else:
            out.append("del %d" % k)
    return out


def gen_case(rng, kind, closes):
    ops = gen_events(rng, kind, rng.below(4))
    ops.append("start")
    ops += gen_events(rng, kind, rng.below(2))
    if rng.chance(1, 8):
        ops += ["load fail", "start"]
    ops.append("load ok")
    ops += gen_events(rng, kind, rng.below(4))
    ops.append("watch")
    for seg in range(closes + 1):
        ops += gen_events(rng, kind, rng.below(5))
        if rng.chance(1, 2):
            ops.append("sync")
            if rng.chance(1, 3):
                ops.append("invalidate %d" % rng.choice(ACCEPTED[kind][:3]))
                ops += gen_events(rng, kind, rng.below(3))
        if seg < closes:
            # the cut happens when the router has applied everything committed so far (how many pending
            # events a real stream delivers before it breaks is timing, and matters once compaction is in play)
            if ops[-1] != "sync":
                ops.append("sync")
            if rng.chance(1, 4):
                ops.append("compact")               # compaction while fully caught up
            ops.append("close")
            ops += gen_events(rng, kind, rng.below(4))
            if rng.chance(1, 3):
                ops.append("compact")               # compaction while the watch is down
                ops += gen_events(rng, kind, rng.below(2))
            if rng.chance(1, 2):
                # a failed reload: the watch resumes from the tracked revision, or fails with ErrCompacted
                ops += ["load fail", "watch"]
                ops += gen_events(rng, kind, rng.below(3))
                if rng.chance(1, 2):
                    ops.append("sync")
            # (no-ops in model and harness alike when the failed-reload watch is already running)
            ops += ["load ok"] + gen_events(rng, kind, rng.below(4)) + ["watch"]
    ops.append("sync")
    return ops


def header(kind):
    return "reset fixed %s %s" % (",".join(map(str, ACCEPTED[kind])), kind)


def run_go_parallel(ck, binary, cases, tag, nproc=8):
    """cases: list of (name, kind, ops).  Splits them over nproc harness processes (each close costs 1 s of
    the router's own reconnect sleep).  Returns list of impl line lists (None on crash) in case order."""
    buckets = [[] for _ in range(nproc)]
    for i, c in enumerate(cases):
        buckets[i % nproc].append(i)
    results = [None] * len(cases)
    errors = []

    def work(bi, idxs):
        if not idxs:
            return
        lines = []
        for i in idxs:
            lines.append(header(cases[i][1]))
            lines += cases[i][2]
        fn = ck.path("ops_%s_%d.txt" % (tag, bi))
        open(fn, "w").write("\n".join(lines) + "\n")
        closes = sum(1 for l in lines if l == "close" or l == "watch")
        rc, out, err = ck.run_bin(binary, stdin_path=fn, timeout=40 + 2 * closes + 8 * len(idxs))
        res = out.split("\n")[:-1]
        if rc == 124 and len(res) < len(lines):
            # a hang is a finding, never a reason to wait: the unanswered ops are reported as such
            res = res + ["harness-timeout"] * (len(lines) - len(res))
        if rc not in (0, 124) or len(res) != len(lines):
            errors.append("bucket %d: rc=%s answered %d of %d lines; stderr: %s" % (bi, rc, len(res), len(lines), err[-600:]))
            return
        p = 0
        for i in idxs:
            n = 1 + len(cases[i][2])
            results[i] = res[p:p + n]
            p += n

    ts = [threading.Thread(target=work, args=(bi, idxs)) for bi, idxs in enumerate(buckets)]
    for t in ts:
        t.start()
    for t in ts:
        t.join()
    return results, errors


def explore(ck, binary, cases, tag, diff=True):
    results, errors = run_go_parallel(ck, binary, cases, tag)
    if errors:
        ck.broke("implementation harness did not answer every op", "\n".join(errors))
        return False
    model = None
    if diff:
        lines = []
        for name, kind, ops in cases:
            lines.append(" ".join(header(kind).split()[:3]))
            lines += ops
        fn = ck.path("model_%s.txt" % tag)
        open(fn, "w").write("\n".join(lines) + "\n")
        model = ck.lean_run("C20", fn)
    ok = True
    p = 0
    for (name, kind, ops), impl in zip(cases, results):
        full_ops = ["reset"] + ops
        n = len(full_ops)
        gaps = 0
        for j, o in enumerate(ops):
            if o.startswith("load"):
                k = j + 1
                while k < len(ops) and ops[k].split()[0] in ("put", "del"):
                    gaps += 1
                    k += 1
        closes = sum(1 for o in ops if o == "close")
        for o in ops:
            ck.count("op:" + " ".join(o.split()[:2]) if o.startswith("load") else "op:" + o.split()[0])
        ck.count("events-in-load-watch-gap", gaps)
        ck.case((kind,) + tuple(ops), nontrivial=(gaps > 0 or closes > 0), sample={"case": name, "kind": kind, "ops": ops[:12], "impl_last": impl[-1]})
        ck.cov["traces_validated_against_impl"] += 1
        mon = monitor(full_ops, impl)
        if mon is not None:
            i, fp, what = mon
            if fp not in [v["fingerprint"] for v in ck.violations]:
                small = minimise(ck, binary, kind, ops[:i], fp)
                ck.violation(fp, "%s [case %s, %s router]" % (what, name, kind),
                             {"kind": kind, "ops": small, "expected": "after quiescence AllRoutes/LookupOwner == etcd lease keys", "actual": what})
            ok = False
        elif diff:
            mo = model[p:p + n]
            # a failed initial read makes the constructor return an error (the model has no router object)
            d = lib.first_diff(["-" if x == "start-failed" else x for x in impl], mo)
            if d is not None:
                ck.cov["disagreements_checked"] += 1
                ck.broke("correspondence model/implementation (%s router), case %s" % (kind, name),
                         "ops:\n  %s\nop %r\nimpl : %s\nmodel: %s" % ("\n  ".join(full_ops[:d + 1]), full_ops[d], impl[d], mo[d] if d < len(mo) else None))
                ok = False
        p += n
    return ok


def minimise(ck, binary, kind, ops, fp):
    """Batch ddmin over the event/invalidate lines only (the load/watch/close skeleton stays)."""
    def fails_many(cands):
        cases = [("dd%d" % i, kind, c) for i, c in enumerate(cands)]
        results, errors = run_go_parallel(ck, binary, cases, "dd")
        out = []
        for (n, k, c), impl in zip(cases, results):
            m = monitor(["reset"] + c, impl) if impl else None
            out.append(m is not None and m[1] == fp)
        return out
    idx = [i for i, o in enumerate(ops) if o.split()[0] in ("put", "del", "invalidate")]
    keep = list(idx)
    for _ in range(6):
        if len(keep) < 1:
            break
        cands_idx = [keep[:j] + keep[j + 1:] for j in range(len(keep))]
        cands = [[o for i, o in enumerate(ops) if i not in idx or i in ki] for ki in cands_idx]
        res = fails_many(cands)
        hit = next((ki for ki, r in zip(cands_idx, res) if r), None)
        if hit is None:
            break
        keep = hit
    return [o for i, o in enumerate(ops) if i not in idx or i in keep]


def run(ck):
    bins = ck.build_all()
    if bins is None:
        return
    binary = bins["h"]
    ck.cov["rule"] = ("histories of lease puts/deletes (accepted and rejected keys) interleaved with router start, load ok/fail, "
                      "watch registration, closes, invalidations; non-trivial = at least one event committed in a load->watch "
                      "gap or at least one watch closure; distinct = distinct (router kind, op sequence)")
    cases = []
    for name, ops in sorted(CORPUS.items()):
        for kind in ("partition", "group"):
            cases.append((name, kind, ops))
    n = 40 if ck.quick() else 400
    for i in range(n):
        kind = "partition" if i % 2 == 0 else "group"
        closes = ck.rng.choice([0, 1, 1, 2] if ck.quick() else [0, 1, 2, 3])
        cases.append(("rand%d" % i, kind, gen_case(ck.rng.fork(), kind, closes)))
    ok = explore(ck, binary, cases, "main")
    if not ok and not ck.violations:
        hunt = [("hunt%d" % i, "partition" if i % 2 == 0 else "group", gen_case(ck.rng.fork(), "partition" if i % 2 == 0 else "group", 2))
                for i in range(40)]
        explore(ck, binary, hunt, "hunt", diff=False)


def replay(ck, path):
    rep = json.load(open(path))
    bins = ck.build_all()
    if bins is None:
        return
    kind, ops = rep.get("kind", "partition"), rep["ops"]
    results, errors = run_go_parallel(ck, bins["h"], [("replay", kind, ops)], "replay", nproc=1)
    if errors:
        ck.broke("implementation harness did not answer every op", "\n".join(errors))
        return
    for o, r in zip(["reset"] + ops, results[0]):
        print("  %-16s -> %s" % (o, r))
    ck.case((kind,) + tuple(ops), sample={"ops": ops[:12]})
    ck.cov["distinct_nontrivial"] = max(ck.cov["distinct_nontrivial"], 2)
    mon = monitor(["reset"] + ops, results[0])
    if mon:
        ck.violation(mon[1], mon[2], {"kind": kind, "ops": ops, "actual": mon[2]})
