"""C30 — LFS readers never return a blob that fails its envelope checksum."""
import hashlib
import json
import zlib

from checks import lib

PROPERTY = "C30"
LEAN_MODULES = ["KafVerif.Props.C30"]
OBLIGATIONS = [
    "KafVerif.C30.declares",
    "KafVerif.C30.resolve_sound",
    "KafVerif.C30.resolve_passthrough",
    "KafVerif.C30.unwrap_sound",
    "KafVerif.C30.download_sound",
    "KafVerif.C30.streamVerify_complete",
    "KafVerif.C30.downloadOld_violates",
    "KafVerif.C30.resolve_uses_own_config",
    "KafVerif.C30.iceberg_history_independent",
    "KafVerif.C30.iceberg_sound",
    "KafVerif.C30.iceberg_complete",
    "KafVerif.C30.resolveCached_violates",
]
BUILDS = {"h": ("root", "./cmd/proxy", ["C30"]), "ice": ("iceberg", "./cmd/verif_c30", ["C30"], {"extra": ["-ldflags=-s -w"]})}
LEVEL_TEXT = ("Lean 4 theorems for every hash function, envelope, configuration and storage behaviour: Resolver.Resolve and "
              "Consumer.Unwrap return a blob only if its digest under the declared algorithm equals the declared value and it "
              "is within the size limit (resolve_sound, unwrap_sound, declares); the proxy download endpoint sends bytes only "
              "if SHA-256 and size equal what the caller supplied (download_sound); the iceberg processor's resolve stage "
              "resolves a record of mapping m with a resolver configured from m's OWN LfsConfig after every history of "
              "previously processed mappings (resolve_uses_own_config, iceberg_history_independent), so every blob it hands on "
              "meets ITS mapping's checksum/size settings (iceberg_sound) and an intact blob within limits is resolved "
              "(iceberg_complete). Tied to the source by running generated envelopes x storage behaviours through the real "
              "Resolver/Consumer/handleHTTPDownload, and multi-mapping Processors (2-4 mappings with different LFS settings, one "
              "shared scripted S3 reader, segments in generated orders on the SAME Processor) through the real "
              "resolveLfsRecords, and the model.")
LEVEL_NOTE = ("Hash functions, JSON decoding and strings.TrimSpace/ToLower outside ASCII are parameters; the harness uses the "
              "real hashes and the monitor recomputes them independently (hashlib/zlib).")
TECHNIQUE = "Lean 4 proof over a hand-written model + Go/Lean differential correspondence + direct monitor"
ASSUMPTIONS = [
    "'the checksum the envelope declares' = what EnvelopeChecksum yields (checksum_alg none declares none; DESIGN section 5)",
    "algorithm names, digests and mode strings are ASCII in the correspondence stream (TrimSpace/ToLower modelled on ASCII)",
    "S3 body = bytes then EOF or one read error; no partial-read interleavings (io.LimitReader semantics trusted)",
    "download requests are independent in the model (the decision is a function of the request and its own object; the request id is "
    "not an input): VALIDATED by `cdl` ops — 2-4 overlapping downloads through the real handler with shared / duplicate X-Request-ID "
    "values, parked in the S3 fake right before EOF and released in a scheduled order; every sequential download also carries an X-Request-ID from a small pool",
    "iceberg stage: store_metadata and resolve_concurrency are not inputs of which bytes are returned (not in the Lean model): VALIDATED by "
    "generating both per mapping and passing them to the real resolveLfsRecords in every `ice` scenario; the Processor is built "
    "directly (mappingByTopic + lfsS3), not through config.Load / processor.New (env overrides and defaults are applied before the "
    "Processor exists and are the same for every mapping)",
    "iceberg stage: a value that passes the marker test but is not a `env` op decodes to an error (generator only emits such raw values)",
]


def hexs(b):
    return lib.hexs(b)


def digests(b):
    return (hashlib.sha256(b).hexdigest().encode(), hashlib.md5(b).hexdigest().encode(),
            ("%08x" % (zlib.crc32(b) & 0xFFFFFFFF)).encode())


def table(blobs):
    out, seen = [], set()
    for b in blobs:
        if b in seen:
            continue
        seen.add(b)
        s, m, c = digests(b)
        out += [hexs(b), hexs(s), hexs(m), hexs(c)]
    return " | " + " ".join(out)


ALGS = [b"", b"sha256", b"md5", b"crc32", b"none", b" MD5 ", b"SHA256", b"sha1", b"crc32c", b"\tnone\n", b"Crc32", b"md5 x"]


def norm_alg(raw):
    v = raw.strip(b" \t\n\v\f\r").lower()
    if v == b"":
        return "sha256"
    return v.decode() if v in (b"sha256", b"md5", b"crc32", b"none") else None


def declared(env):
    """Spec: (alg, expected) the envelope declares, None when it declares none, 'err' for an unsupported algorithm."""
    a = norm_alg(env["alg"])
    if a is None:
        return "err"
    if a == "none":
        return None
    if env["checksum"]:
        return (a, env["checksum"])
    if env["sha"]:
        return ("sha256", env["sha"])
    return None


def real_hash(alg, blob):
    s, m, c = digests(blob)
    return {"sha256": s, "md5": m, "crc32": c}[alg]


def gen_payload(rng):
    n = rng.choice([0, 1, 2, 5, 16, 33, 40])
    return rng.bytes(n)


def variant(rng, payload):
    """What the storage returns for the object: (kind, bytes)."""
    c = rng.below(8)
    if c <= 2 or not payload:
        return "exact", payload
    if c == 3:
        i = rng.below(len(payload))
        return "tampered", payload[:i] + bytes([payload[i] ^ (1 << rng.below(8))]) + payload[i + 1:]
    if c == 4:
        return "truncated", payload[:rng.below(len(payload))]
    if c == 5:
        return "extended", payload + rng.bytes(rng.range(1, 4))
    if c == 6:
        return "empty", b""
    return "other", rng.bytes(len(payload))


def gen_env(rng, payload):
    """Mostly-valid envelope: at most one or two dimensions deviate from a consistent envelope."""
    sha, md5, crc = digests(payload)
    alg = rng.choice(ALGS[:5]) if not rng.chance(1, 4) else rng.choice(ALGS)
    a = norm_alg(alg)
    right = {"sha256": sha, "md5": md5, "crc32": crc}.get(a, sha)
    ck = rng.choice([b"", right, right, right, right.upper(), b"00" * (len(right) // 2), sha, md5])
    env = {"version": 1, "bucket": b"bkt", "key": b"ns/t/lfs/2026/01/01/obj-1", "sha": sha, "checksum": ck, "alg": alg}
    dev = rng.below(12)
    if dev == 0:
        env["version"] = rng.choice([0, 2, -1])
    elif dev == 1:
        env["bucket"] = b""
    elif dev == 2:
        env["key"] = rng.choice([b"", b"k"])
    elif dev == 3:
        env["sha"] = rng.choice([b"", b"00" * 32, sha.upper()])
    return env


def value_fields(rng, payload):
    if rng.chance(1, 10):
        raw = rng.choice([b"plain text value", b"", b"{", b'{"a":1}', b'{"kfs_lfs":1,"bucket":', b'{"kfs_lfs":1,' + b"x" * 20,
                          b'{"kfs_lfs": nope, not json at all }', rng.bytes(30), b'{"kfs_lfs":1}'])
        return None, ["raw", hexs(raw)]
    env = gen_env(rng, payload)
    return env, ["env", str(env["version"]), hexs(env["bucket"]), hexs(env["key"]), hexs(env["sha"]), hexs(env["checksum"]), hexs(env["alg"])]


def gen_resolve(rng, unwrap):
    payload = gen_payload(rng)
    kind, stored = variant(rng, payload)
    env, vf = value_fields(rng, payload)
    s3k = rng.choice(["ok"] * 14 + ["err"] + ([] if unwrap else ["nil"]))
    validate = "0" if rng.chance(1, 6) else "1"
    if unwrap:
        op = ["unwrap", validate, s3k, hexs(stored)] + vf
    else:
        n = len(stored)
        mx = rng.choice([0, 0, 0, -1, n - 1, n, n, n + 1, 1, 1000, 1000])
        op = ["resolve", str(mx), validate, s3k, hexs(stored)] + vf
    return " ".join(op) + table([stored]), {"env": env, "stored": stored, "kind": kind}


SHAV = ["ok", "ok", "ok", "upper", "spaces", "short", "long", "nonhex", "empty", "blank", "other"]


def gen_download(rng):
    content = rng.bytes(rng.choice([1, 2, 7, 31, 32, 33, 60]))
    sha = hashlib.sha256(content).hexdigest().encode()
    okind = rng.choice(["exact"] * 4 + ["tampered", "truncated", "extended", "shorter-sha-of-object", "empty", "missing", "readerr"])
    obj, objk = content, "body"
    declared_sha = sha
    size = len(content)
    if okind == "tampered":
        i = rng.below(len(content)); obj = content[:i] + bytes([content[i] ^ 0x01]) + content[i + 1:]
    elif okind == "truncated":
        obj = content[:rng.below(len(content))]
    elif okind == "extended":
        obj = content + rng.bytes(rng.range(1, 3))
    elif okind == "shorter-sha-of-object":      # digest matches the (short) object, declared size is larger
        obj = content
        size = len(content) + rng.range(1, 5)
    elif okind == "empty":
        obj = b""
    elif okind == "missing":
        objk = "missing"
    elif okind == "readerr":
        objk = "bodyerr"
        if rng.chance(1, 2):
            obj = content[:rng.below(len(content) + 1)]
    # mostly-valid request: at most one of the request dimensions deviates
    sv, alg, max_blob, mode, presign, integ = "ok", rng.choice([b"", b"sha256"]), rng.choice([0, 100, len(content)]), rng.choice([b"", b"stream"]), "0", "some"
    dev = rng.below(14)
    if dev == 0:
        sv = rng.choice(SHAV[3:])
    elif dev == 1:
        sv = rng.choice(["upper", "spaces"])
    elif dev == 2:
        alg = rng.choice([b"SHA256 ", b"md5", b"none", b"sha-256"])
    elif dev == 3:
        size = rng.choice([0, -1, len(content) - 1, len(content) + 1, 101, 9223372036854775807, 9223372036854775806, 1 << 40])
    elif dev == 4:
        max_blob = rng.choice([len(content) - 1, 1, size, size - 1])
    elif dev == 5:
        mode = rng.choice([b"STREAM ", b"presign", b"Presign", b"bogus", b" "]); presign = rng.choice(["0", "1"])
    elif dev == 6:
        integ = "none"
    elif dev == 7:
        mode = b"presign"; presign = "1"
    shastr = {"ok": declared_sha, "upper": declared_sha.upper(), "spaces": b"  " + declared_sha + b"\n", "short": declared_sha[:63],
              "long": declared_sha + b"0", "nonhex": declared_sha[:10] + b"g" + declared_sha[11:], "empty": b"", "blank": b"   ",
              "other": hashlib.sha256(b"x" + content).hexdigest().encode()}[sv]
    rid = rng.choice(RIDS) if not rng.chance(1, 5) else b"req-" + rng.bytes(4).hex().encode()     # X-Request-ID: small pool => often repeated
    op = ["download", presign, str(max_blob), hexs(mode), integ, hexs(shastr), hexs(alg), str(size), objk, hexs(obj), "rid=" + hexs(rid)]
    blobs = [obj]
    if 0 <= size < 1000:
        blobs.append(obj[:size + 1])
    return " ".join(op) + table(blobs), {"sha": shastr, "size": size, "kind": okind, "obj": obj}


RIDS = [b"req-1", b"req-2", b"00000000-0000-4000-8000-000000000001", b"trace.A_b-9"]


def gen_cdl(rng):
    """2-4 overlapping stream downloads through the real handler, request ids mostly shared, objects good / tampered / short /
    extended; every download has its own key, envelope digest and size.  The schedule is (start order = index, release order)."""
    n = rng.range(2, 4)
    shared = rng.choice(RIDS)
    length = rng.choice([2, 7, 32, 33, 60])
    f, blobs, metas = [], [], []
    for i in range(n):
        content = rng.bytes(length if not rng.chance(1, 4) else rng.choice([3, 20, 61]))
        kind = rng.choice(["good", "good", "tampered", "tampered", "short", "extended", "other-same-length"])
        obj = content
        if kind == "tampered":
            j = rng.below(len(content)); obj = content[:j] + bytes([content[j] ^ 0x20]) + content[j + 1:]
        elif kind == "short":
            obj = content[:rng.below(len(content))]
        elif kind == "extended":
            obj = content + rng.bytes(2)
        elif kind == "other-same-length":
            obj = rng.bytes(len(content))
        rid = shared if not rng.chance(1, 5) else rng.choice([b"", b"uniq-%d" % i])
        sha = hashlib.sha256(content).hexdigest().encode()
        f += [hexs(rid), hexs(sha), str(len(content)), hexs(obj)]
        blobs += [obj, obj[:len(content) + 1]]
        metas.append({"sha": sha, "size": len(content), "kind": kind})
    order = list(range(n))
    for i in range(n - 1, 0, -1):
        j = rng.below(i + 1); order[i], order[j] = order[j], order[i]
    op = "cdl %d %s %s" % (n, ",".join(map(str, order)), " ".join(f))
    return op + table(blobs), {"kind": "cdl", "downloads": metas}


def monitor_cdl(op, out):
    f = op.split(" | ")[0].split()
    n = int(f[1])
    res = out.split()[1:]
    if not out.startswith("cdl ") or len(res) != n:
        return "concurrent-download-harness", "unexpected outcome " + out[:120]
    for i, r in enumerate(res):
        sha = bytes.fromhex(f[3 + 4 * i + 1]); size = int(f[3 + 4 * i + 2])
        if r == "hung":
            return "concurrent-download-hangs", "download %d of %d overlapping downloads never finished" % (i, n)
        if r.startswith("bytes:"):
            body = b"" if r[6:] == "-" else bytes.fromhex(r[6:])
            if hashlib.sha256(body).hexdigest().encode() != sha or len(body) != size:
                same = len({f[3 + 4 * k] for k in range(n)}) < n
                return ("concurrent-download-serves-other-bytes",
                        "download %d of %d overlapping downloads (%s X-Request-ID) was answered 200 with %d bytes that do not match ITS OWN "
                        "integrity.sha256/size (%d)" % (i, n, "shared" if same else "distinct", len(body), size))
    return None


# ---------------------------------------------------------------------------------------------------------------------
# third reader: iceberg processor resolveLfsRecords, ONE Processor with several mappings

ICE_MODES = ["resolve"] * 7 + ["hybrid"] * 2 + ["reference", "skip", "off", "bogus"]
ICE_MAX = [4, 5, 15, 16, 17, 32, 33, 39, 40]
RAWS = [b"plain text value", b"", b"{", b'{"a":1}', b'{"kfs_lfs":1,"bucket":', b'{"kfs_lfs":1,' + b"x" * 20,
        b'{"kfs_lfs": nope, not json at all }', b'{"kfs_lfs":1}']


def gen_ice_mapping(rng, role):
    conc = rng.choice([0, 1, 1, 2, 4, 4, -1])
    meta = rng.choice([0, 1])
    if role == "lax":
        return {"mode": "resolve", "max": rng.choice([0, 0, 1000, -1]), "meta": meta, "val": "0", "conc": conc}
    if role == "strict":
        return {"mode": "resolve" if not rng.chance(1, 6) else "hybrid", "max": rng.choice(ICE_MAX), "meta": meta,
                "val": rng.choice(["1", "d"]), "conc": conc}
    if role == "checksum-only":
        return {"mode": "resolve", "max": rng.choice([0, 0, 1000]), "meta": meta, "val": rng.choice(["1", "d"]), "conc": conc}
    if role == "size-only":
        return {"mode": "resolve", "max": rng.choice(ICE_MAX), "meta": meta, "val": "0", "conc": conc}
    mode = rng.choice(ICE_MODES)
    mx = rng.choice([0, -1, 1] + ICE_MAX + [1000])
    if mode == "hybrid" and mx <= 0:
        mx = rng.choice(ICE_MAX)            # config.Load refuses hybrid without a positive max_inline_size
    return {"mode": mode, "max": mx, "meta": meta, "val": rng.choice(["1", "0", "d"]), "conc": conc}


def gen_ice(rng):
    """One Processor: 2-4 mappings with different LFS settings over one store, then 3-7 segments in a random order of mappings."""
    nmap = rng.range(2, 4)
    roles = ["lax", "strict"] if not rng.chance(1, 5) else [rng.choice(["lax", "random"]), rng.choice(["checksum-only", "size-only", "random"])]
    while len(roles) < nmap:
        roles.append(rng.choice(["lax", "strict", "checksum-only", "size-only", "random", "random"]))
    for i in range(len(roles) - 1, 0, -1):
        j = rng.below(i + 1); roles[i], roles[j] = roles[j], roles[i]
    maps = [gen_ice_mapping(rng, r) for r in roles]
    s3 = "nil" if rng.chance(1, 30) else "ok"
    keys, known, calls, blobs = [], [], [], []
    ncalls = rng.range(3, 7)
    for ci in range(ncalls):
        m = rng.below(nmap) if not rng.chance(1, 25) else nmap           # nmap = a topic without mapping
        recs = []
        for ri in range(rng.choice([1, 1, 1, 2, 2, 3, 0] if ci else [1, 1, 2])):
            if rng.chance(1, 10):
                recs.append(["raw", hexs(rng.choice(RAWS))] + ["-"] * 6)
                continue
            if known and rng.chance(1, 4):
                key, payload = rng.choice(known)                          # the same object referenced from another segment / mapping
            else:
                key, payload = b"ns/t/lfs/2026/01/01/obj-c%d-r%d" % (ci, ri), gen_payload(rng)
                kind, stored = ("exact", payload) if rng.chance(1, 2) else variant(rng, payload)
                skind = rng.choice(["ok"] * 12 + ["err", "missing"])
                if skind != "missing":
                    keys.append([hexs(key), skind, hexs(stored)]); blobs.append(stored)
                known.append((key, payload))
            env = gen_env(rng, payload)
            if env["key"]:
                env["key"] = key
            size = rng.choice([len(payload)] * 5 + [0, len(payload) + 1, 1, 10 ** 6, -1])
            recs.append(["env", str(env["version"]), hexs(env["bucket"]), hexs(env["key"]), hexs(env["sha"]), hexs(env["checksum"]),
                         hexs(env["alg"]), str(size)])
        calls.append((m, recs))
    return ice_line(s3, maps, keys, calls, blobs), {"kind": "ice"}


def ice_line(s3, maps, keys, calls, blobs):
    t = ["ice", s3]
    for mp in maps:
        t += ["M", mp["mode"], str(mp["max"]), str(mp["meta"]), mp["val"], str(mp["conc"])]
    for k in keys:
        t += ["K"] + k
    for m, recs in calls:
        t += ["C", str(m)]
        for r in recs:
            t += ["R"] + r
    return " ".join(t) + table(blobs)


def ice_corpus():
    """The demo of seeded/C30-r3-1 in both orders: lax mapping / strict mapping (limit 4), tampered and oversized objects."""
    good, evil, big = b"good", b"evil", b"a-much-larger-blob"
    sg, sb = digests(good)[0], digests(big)[0]
    maps = [{"mode": "resolve", "max": 0, "meta": 0, "val": "0", "conc": 1}, {"mode": "resolve", "max": 4, "meta": 0, "val": "1", "conc": 1}]
    keys = [[hexs(b"raw/1"), "ok", hexs(good)], [hexs(b"strict/1"), "ok", hexs(evil)], [hexs(b"strict/2"), "ok", hexs(big)], [hexs(b"strict/3"), "ok", hexs(good)]]
    env = lambda key, sha, n: ["env", "1", hexs(b"b"), hexs(key), hexs(sha), "-", "-", str(n)]  # noqa: E731
    a = (0, [env(b"raw/1", sg, 4)])
    b1, b2, b3 = (1, [env(b"strict/1", sg, 4)]), (1, [env(b"strict/2", sb, len(big))]), (1, [env(b"strict/3", sg, 4)])
    c = (0, [env(b"strict/2", sb, len(big)), env(b"strict/1", sg, 4)])
    return [ice_line("ok", maps, keys, order, [good, evil, big]) for order in ([a, b1, b2, b3, c], [b3, c, b1, a, b2], [b1, a, b3])]


def parse_ice(op):
    f = op.split(" | ")[0].split()[1:]

    def split(toks, sep):
        out = [[]]
        for x in toks:
            if x == sep:
                out.append([])
            else:
                out[-1].append(x)
        return out
    ub = lambda x: b"" if x == "-" else bytes.fromhex(x)  # noqa: E731
    sections = split(f, "C")
    head = split(sections[0], "K")
    mhead = split(head[0], "M")
    maps = [{"mode": m[0], "max": int(m[1]), "validate": m[3] != "0"} for m in mhead[1:]]      # nil = default = on
    store = {ub(k[0]): (ub(k[2]) if k[1] == "ok" else None) for k in head[1:]}
    calls = []
    for c in sections[1:]:
        parts = split(c, "R")
        recs = []
        for r in parts[1:]:
            if r[0] == "raw":
                recs.append(None)
            else:
                recs.append({"version": int(r[1]), "bucket": ub(r[2]), "key": ub(r[3]), "sha": ub(r[4]), "checksum": ub(r[5]), "alg": ub(r[6]),
                             "size": int(r[7])})
        calls.append((int(parts[0][0]), recs))
    return mhead[0][0] != "nil", maps, store, calls


def monitor_ice(op, out):
    """Every record of mapping m is judged by m's OWN settings (independent of the model): a returned blob matches the envelope's
    declared checksum unless m turned validation off and is within m's max_inline_size; an intact blob within limits is resolved."""
    has_s3, maps, store, calls = parse_ice(op)
    if not out.startswith("ice"):
        return "iceberg-harness", "unexpected outcome " + out[:120]
    res = [x.strip() for x in out[3:].split(";")] if calls else []
    if len(res) != len(calls):
        return "iceberg-harness", "answered %d of %d calls: %s" % (len(res), len(calls), out[:120])
    for ci, ((m, recs), r) in enumerate(zip(calls, res)):
        if "panic" in r:
            return "iceberg-resolve-panics", r[:120]
        if m >= len(maps):
            continue
        cfg = maps[m]
        before = [c[0] for c in calls[:ci]]
        where = ("mapping %d (mode=%s validate_checksum=%s max_inline_size=%d) of a %d-mapping processor, after segments of mappings %s"
                 % (m, cfg["mode"], cfg["validate"], cfg["max"], len(maps), before))
        got = {}
        if r.startswith("ok"):
            for t in r.split()[1:]:
                i, v = t.split(":", 1)
                got[int(i)] = v
        # soundness: whatever is returned as a blob satisfies m's own settings
        for i, v in got.items():
            if not v.startswith("b=") or i >= len(recs) or recs[i] is None:
                continue
            blob = b"" if v[2:] == "-" else bytes.fromhex(v[2:])
            env = recs[i]
            if cfg["max"] > 0 and len(blob) > cfg["max"]:
                return "iceberg-exceeds-mapping-max-size", "resolveLfsRecords returned a %d-byte blob for a record of %s" % (len(blob), where)
            if cfg["validate"]:
                d = declared(env)
                if d == "err":
                    return "iceberg-accepts-unsupported-alg", "a blob was returned for an unsupported checksum algorithm %r by %s" % (env["alg"], where)
                if d is not None and real_hash(d[0], blob) != d[1]:
                    return ("iceberg-returns-checksum-mismatch",
                            "resolveLfsRecords returned a blob whose %s digest differs from the envelope's declared %r for a record of %s" % (d[0], d[1][:70], where))
        # completeness: all resolve jobs of the segment are intact and within m's limits => each is handed on as its blob
        if not has_s3 or cfg["mode"] not in ("resolve", "hybrid"):
            continue
        jobs, intact = [], True
        for i, env in enumerate(recs):
            if env is None or env["version"] == 0 or not (env["bucket"] and env["key"] and env["sha"]):
                continue
            if cfg["mode"] == "hybrid" and not (0 < env["size"] <= cfg["max"]):
                continue
            blob = store.get(env["key"])
            d = declared(env)
            if blob is None or d == "err" or (cfg["max"] > 0 and len(blob) > cfg["max"]) or \
                    (cfg["validate"] and d is not None and real_hash(d[0], blob) != d[1]):
                intact = False
                break
            jobs.append((i, blob))
        if intact and jobs:
            for i, blob in jobs:
                if got.get(i) != "b=" + hexs(blob):
                    return ("iceberg-refuses-intact-blob", "record %d of a segment of %s: the stored %d-byte blob is within the mapping's limit and matches "
                            "the declared checksum but the segment answered %r" % (i, where, len(blob), r[:80]))
    return None


def monitor(op, out):
    """The property itself on one implementation line.  Returns (fingerprint, what) or None."""
    f = op.split(" | ")[0].split()
    if f[0] == "cdl":
        return monitor_cdl(op, out)
    if f[0] == "ice":
        return monitor_ice(op, out)
    if f[0] == "download":
        if out.startswith("bytes "):
            body = b"" if out.split()[1] == "-" else bytes.fromhex(out.split()[1])
            sha = (b"" if f[5] == "-" else bytes.fromhex(f[5])).strip().lower()
            size = int(f[7])
            if hashlib.sha256(body).hexdigest().encode() != sha:
                return "download-serves-sha-mismatch", "download sent %d bytes whose SHA-256 differs from the caller's integrity.sha256" % len(body)
            if len(body) != size:
                return "download-serves-size-mismatch", "download sent %d bytes although the caller declared integrity.size=%d" % (len(body), size)
        elif not (out.startswith("status ") or out.startswith("presigned ")):
            return "download-harness-" + out.split()[0], "unexpected outcome " + out[:80]
        return None
    if f[0] in ("resolve", "unwrap"):
        if out.startswith("panic"):
            return f[0] + "-panics", out[:120]
        if not out.startswith("ok "):
            return None
        kv = dict(x.split("=", 1) for x in out.split()[1:])
        blob = b"" if kv["blob"] == "-" else bytes.fromhex(kv["blob"])
        tail = f[5:] if f[0] == "resolve" else f[4:]
        validate = (f[2] if f[0] == "resolve" else f[1]) == "1"
        ub = lambda s: b"" if s == "-" else bytes.fromhex(s)  # noqa: E731
        env = {"sha": ub(tail[4]), "checksum": ub(tail[5]), "alg": ub(tail[6])}
        if f[0] == "resolve":
            mx = int(f[1])
            if mx > 0 and len(blob) > mx:
                return "resolve-exceeds-max-size", "Resolve returned %d bytes with MaxSize=%d" % (len(blob), mx)
        if validate:
            d = declared(env)
            if d == "err":
                return f[0] + "-accepts-unsupported-alg", "a blob was returned for an unsupported checksum algorithm %r" % env["alg"]
            if d is not None and real_hash(d[0], blob) != d[1]:
                return f[0] + "-returns-checksum-mismatch", "%s returned a blob whose %s digest differs from the envelope's declared %r" % (f[0], d[0], d[1][:70])
    return None


def run_ops(ck, ops, tag):
    """`ice` scenarios go to the iceberg harness, everything else to the proxy harness; ONE Lean driver run answers all of them.
    The two harness builds (+ their runs) and the Lean driver run side by side: the iceberg module links slowly."""
    import threading
    fn = ck.path("ops_%s.txt" % tag)
    open(fn, "w").write("\n".join(ops) + "\n")
    impl = [None] * len(ops)
    res = {}

    def side(name, sel):
        idx = [i for i, o in enumerate(ops) if sel(o)]
        b = BUILDS[name]
        kw = dict(b[3]) if len(b) > 3 else {}
        binary, log = ck.go_build(b[0], b[1], b[2], name="h_" + name, **kw)
        if binary is None:
            res[name] = ("build", log)
            return
        if not idx:
            res[name] = ("ok", idx, [])
            return
        sub = ck.path("ops_%s_%s.txt" % (tag, name))
        open(sub, "w").write("\n".join(ops[i] for i in idx) + "\n")
        rc, out, err = ck.run_bin(binary, stdin_path=sub, env={"VERIF_HARNESS": "C30"})
        lines = out.split("\n")[:-1]
        if rc != 0 or len(lines) != len(idx):
            res[name] = ("run", "rc=%s answered %d of %d\n%s" % (rc, len(lines), len(idx), err[-800:]))
            return
        res[name] = ("ok", idx, lines)

    def lean():
        try:
            res["lean"] = ("ok", ck.lean_run("C30", fn))
        except Exception as ex:  # noqa: BLE001
            res["lean"] = ("fail", str(ex))
    ths = [threading.Thread(target=side, args=("h", lambda o: not o.startswith("ice "))),
           threading.Thread(target=side, args=("ice", lambda o: o.startswith("ice "))),
           threading.Thread(target=lean)]
    for t in ths:
        t.start()
    for t in ths:
        t.join()
    for name in ("h", "ice"):
        r = res.get(name, ("run", "harness thread died"))
        if r[0] == "build":
            b = BUILDS[name]
            ck.broke("correspondence harness build %s (%s %s, overlay %s)" % (name, b[0], b[1], b[2]), r[1])
            return None, None
        if r[0] == "run":
            ck.broke("implementation harness (%s) did not answer every op" % name, r[1])
            return None, None
        for i, line in zip(r[1], r[2]):
            impl[i] = line
    if res["lean"][0] != "ok":
        raise RuntimeError(res["lean"][1])
    model = res["lean"][1]
    if len(model) != len(ops):
        ck.broke("Lean driver did not answer every op", "%d of %d" % (len(model), len(ops)))
        return impl, None
    return impl, model


CORPUS = [
    # the suspected (now replayed) defect: 2-byte object, digest matches, caller declared 5 bytes
    "download 0 0 - some %s - 5 body 0102" % hexs(hashlib.sha256(b"\x01\x02").hexdigest().encode()) + table([b"\x01\x02"]),
    "download 0 0 - some %s - 2 body 0102" % hexs(hashlib.sha256(b"\x01\x02").hexdigest().encode()) + table([b"\x01\x02"]),
]


def evaluate(ck, ops, metas):
    impl, model = run_ops(ck, ops, "a")
    if impl is None:
        return
    for i, op in enumerate(ops):
        io = impl[i]
        kind = op.split()[0]
        meta = metas[i] if metas else {}
        outc = "" if kind in ("cdl", "ice") else io.split()[0] + (" " + io.split()[1] if io.startswith("status") else "")
        ck.count("%s:%s" % (kind, outc))
        if meta.get("kind"):
            ck.count("%s-storage:%s" % (kind, meta["kind"]))
        nontrivial = io.startswith(("ok", "bytes", "err", "status 502")) or (kind == "cdl" and "bytes:" in io) or \
            (kind == "ice" and ("b=" in io or "err" in io))
        if kind == "ice":
            for r in io[3:].split(";"):
                r = r.split()
                ck.count("ice-segment:" + (r[0] if r else "?"))
                for t in r[1:]:
                    ck.count("ice-record:" + ("blob" if ":b=" in t else "kept" if t.endswith(":k") else "other"))
        if kind == "cdl":
            for r in io.split()[1:]:
                ck.count("cdl-answer:" + r.split(":")[0] + (":" + r.split(":")[1] if r.startswith("status") else ""))
        ck.case(op, nontrivial=nontrivial, sample={"op": op[:200], "impl": io[:120]})
        ck.cov["traces_validated_against_impl"] += 1
        mon = monitor(op, io)
        if mon:
            ck.violation(mon[0], mon[1], {"ops": [op], "expected": "property monitor true", "actual": io})
        elif model is not None and io != model[i]:
            ck.cov["disagreements_checked"] += 1
            if len(ck.broken) < 3:
                ck.broke("correspondence model/implementation (%s)" % kind,
                         "op %s\nimpl : %s\nmodel: %s" % (op[:400], io[:300], model[i][:300]))


def run(ck):
    n = 1500 if ck.quick() else 20000
    ck.cov["rule"] = ("ops = envelope x storage behaviour (exact, tampered bit, truncated, extended, empty, other, fetch error, nil reader) "
                      "for Resolve and Unwrap, and download requests (mode, integrity sha/alg/size variants, maxBlob) x object behaviour; "
                      "ice = one iceberg Processor with 2-4 mappings (mode, validate_checksum on/off/default, max_inline_size, store_metadata, "
                      "resolve_concurrency) over one shared store (exact / tampered / truncated / extended / empty / other / failing / missing objects, "
                      "objects shared between mappings), 3-7 resolveLfsRecords segments in a generated order of mappings on the same Processor; "
                      "non-trivial = the storage was consulted (ok / err / bytes / 502); distinct = distinct op lines")
    ops, metas = list(CORPUS), [{"kind": "corpus"}, {"kind": "corpus"}]
    # deterministic corpus: A good, B tampered (same length), same request id; both release orders
    a, b = b"AAAAAAAAAAAAAAAAAAAAAAAAAAAAAAAA", b"BBBBBBBBBBBBBBBBBBBBBBBBBBBBBBBB"
    sa, sb = hashlib.sha256(a).hexdigest().encode(), hashlib.sha256(b"C" * 32).hexdigest().encode()
    for order in ("1,0", "0,1"):
        ops.append("cdl 2 %s %s %s 32 %s %s %s 32 %s" % (order, hexs(b"req-1"), hexs(sa), hexs(a), hexs(b"req-1"), hexs(sb), hexs(b)) + table([a, b]))
        metas.append({"kind": "cdl-corpus"})
    for _ in range(60 if ck.quick() else 1500):
        op, meta = gen_cdl(ck.rng)
        ops.append(op); metas.append(meta)
    for op in ice_corpus():
        ops.append(op); metas.append({"kind": "ice-corpus"})
    for _ in range(300 if ck.quick() else 6000):
        op, meta = gen_ice(ck.rng)
        ops.append(op); metas.append(meta)
    for _ in range(n):
        c = ck.rng.below(3)
        if c == 0:
            op, meta = gen_resolve(ck.rng, False)
        elif c == 1:
            op, meta = gen_resolve(ck.rng, True)
        else:
            op, meta = gen_download(ck.rng)
        ops.append(op); metas.append(meta)
    evaluate(ck, ops, metas)


def replay(ck, path):
    rep = json.load(open(path))
    ops = rep["ops"]
    evaluate(ck, ops, None)
    ck.cov["evaluations"] = max(ck.cov["evaluations"], 1); ck.cov["distinct_nontrivial"] = max(ck.cov["distinct_nontrivial"], 2)
