"""C30 — LFS readers never return a blob that fails its envelope checksum."""
import hashlib
import json
import zlib

from checks import lib

PROPERTY = "C30"
LEAN_MODULES = ["KafVerif.Props.C30"]
OBLIGATIONS = [
    "KafVerif.C30.declares",
    "KafVerif.C30.resolve_sound",
    "KafVerif.C30.resolve_passthrough",
    "KafVerif.C30.unwrap_sound",
    "KafVerif.C30.download_sound",
    "KafVerif.C30.streamVerify_complete",
    "KafVerif.C30.downloadOld_violates",
]
BUILDS = {"h": ("root", "./cmd/proxy", ["C30"])}
LEVEL_TEXT = ("Lean 4 theorems for every hash function, envelope, configuration and storage behaviour: Resolver.Resolve and "
              "Consumer.Unwrap return a blob only if its digest under the declared algorithm equals the declared value and it "
              "is within the size limit (resolve_sound, unwrap_sound, declares); the proxy download endpoint sends bytes only "
              "if SHA-256 and size equal what the caller supplied (download_sound). Tied to the source by running generated "
              "envelopes x storage behaviours through the real Resolver/Consumer/handleHTTPDownload and the model.")
LEVEL_NOTE = ("Hash functions, JSON decoding and strings.TrimSpace/ToLower outside ASCII are parameters; the harness uses the "
              "real hashes and the monitor recomputes them independently (hashlib/zlib).")
TECHNIQUE = "Lean 4 proof over a hand-written model + Go/Lean differential correspondence + direct monitor"
ASSUMPTIONS = [
    "'the checksum the envelope declares' = what EnvelopeChecksum yields (checksum_alg none declares none; DESIGN section 5)",
    "algorithm names, digests and mode strings are ASCII in the correspondence stream (TrimSpace/ToLower modelled on ASCII)",
    "S3 body = bytes then EOF or one read error; no partial-read interleavings (io.LimitReader semantics trusted)",
    "download requests are independent in the model (the decision is a function of the request and its own object; the request id is "
    "not an input): VALIDATED by `cdl` ops — 2-4 overlapping downloads through the real handler with shared / duplicate X-Request-ID "
    "values, parked in the S3 fake right before EOF and released in a scheduled order; every sequential download also carries an X-Request-ID from a small pool",
]


def hexs(b):
    return lib.hexs(b)


def digests(b):
    return (hashlib.sha256(b).hexdigest().encode(), hashlib.md5(b).hexdigest().encode(),
            ("%08x" % (zlib.crc32(b) & 0xFFFFFFFF)).encode())


def table(blobs):
    out, seen = [], set()
    for b in blobs:
        if b in seen:
            continue
        seen.add(b)
        s, m, c = digests(b)
        out += [hexs(b), hexs(s), hexs(m), hexs(c)]
    return " | " + " ".join(out)


ALGS = [b"", b"sha256", b"md5", b"crc32", b"none", b" MD5 ", b"SHA256", b"sha1", b"crc32c", b"\tnone\n", b"Crc32", b"md5 x"]


def norm_alg(raw):
    v = raw.strip(b" \t\n\v\f\r").lower()
    if v == b"":
        return "sha256"
    return v.decode() if v in (b"sha256", b"md5", b"crc32", b"none") else None


def declared(env):
    """Spec: (alg, expected) the envelope declares, None when it declares none, 'err' for an unsupported algorithm."""
    a = norm_alg(env["alg"])
    if a is None:
        return "err"
    if a == "none":
        return None
    if env["checksum"]:
        return (a, env["checksum"])
    if env["sha"]:
        return ("sha256", env["sha"])
    return None


def real_hash(alg, blob):
    s, m, c = digests(blob)
    return {"sha256": s, "md5": m, "crc32": c}[alg]


def gen_payload(rng):
    n = rng.choice([0, 1, 2, 5, 16, 33, 40])
    return rng.bytes(n)


def variant(rng, payload):
    """What the storage returns for the object: (kind, bytes)."""
    c = rng.below(8)
    if c <= 2 or not payload:
        return "exact", payload
    if c == 3:
        i = rng.below(len(payload))
        return "tampered", payload[:i] + bytes([payload[i] ^ (1 << rng.below(8))]) + payload[i + 1:]
    if c == 4:
        return "truncated", payload[:rng.below(len(payload))]
    if c == 5:
        return "extended", payload + rng.bytes(rng.range(1, 4))
    if c == 6:
        return "empty", b""
    return "other", rng.bytes(len(payload))


def gen_env(rng, payload):
    """Mostly-valid envelope: at most one or two dimensions deviate from a consistent envelope."""
    sha, md5, crc = digests(payload)
    alg = rng.choice(ALGS[:5]) if not rng.chance(1, 4) else rng.choice(ALGS)
    a = norm_alg(alg)
    right = {"sha256": sha, "md5": md5, "crc32": crc}.get(a, sha)
    ck = rng.choice([b"", right, right, right, right.upper(), b"00" * (len(right) // 2), sha, md5])
    env = {"version": 1, "bucket": b"bkt", "key": b"ns/t/lfs/2026/01/01/obj-1", "sha": sha, "checksum": ck, "alg": alg}
    dev = rng.below(12)
    if dev == 0:
        env["version"] = rng.choice([0, 2, -1])
    elif dev == 1:
        env["bucket"] = b""
    elif dev == 2:
        env["key"] = rng.choice([b"", b"k"])
    elif dev == 3:
        env["sha"] = rng.choice([b"", b"00" * 32, sha.upper()])
    return env


def value_fields(rng, payload):
    if rng.chance(1, 10):
        raw = rng.choice([b"plain text value", b"", b"{", b'{"a":1}', b'{"kfs_lfs":1,"bucket":', b'{"kfs_lfs":1,' + b"x" * 20,
                          b'{"kfs_lfs": nope, not json at all }', rng.bytes(30), b'{"kfs_lfs":1}'])
        return None, ["raw", hexs(raw)]
    env = gen_env(rng, payload)
    return env, ["env", str(env["version"]), hexs(env["bucket"]), hexs(env["key"]), hexs(env["sha"]), hexs(env["checksum"]), hexs(env["alg"])]


def gen_resolve(rng, unwrap):
    payload = gen_payload(rng)
    kind, stored = variant(rng, payload)
    env, vf = value_fields(rng, payload)
    s3k = rng.choice(["ok"] * 14 + ["err"] + ([] if unwrap else ["nil"]))
    validate = "0" if rng.chance(1, 6) else "1"
    if unwrap:
        op = ["unwrap", validate, s3k, hexs(stored)] + vf
    else:
        n = len(stored)
        mx = rng.choice([0, 0, 0, -1, n - 1, n, n, n + 1, 1, 1000, 1000])
        op = ["resolve", str(mx), validate, s3k, hexs(stored)] + vf
    return " ".join(op) + table([stored]), {"env": env, "stored": stored, "kind": kind}


SHAV = ["ok", "ok", "ok", "upper", "spaces", "short", "long", "nonhex", "empty", "blank", "other"]


def gen_download(rng):
    content = rng.bytes(rng.choice([1, 2, 7, 31, 32, 33, 60]))
    sha = hashlib.sha256(content).hexdigest().encode()
    okind = rng.choice(["exact"] * 4 + ["tampered", "truncated", "extended", "shorter-sha-of-object", "empty", "missing", "readerr"])
    obj, objk = content, "body"
    declared_sha = sha
    size = len(content)
    if okind == "tampered":
        i = rng.below(len(content)); obj = content[:i] + bytes([content[i] ^ 0x01]) + content[i + 1:]
    elif okind == "truncated":
        obj = content[:rng.below(len(content))]
    elif okind == "extended":
        obj = content + rng.bytes(rng.range(1, 3))
    elif okind == "shorter-sha-of-object":      # digest matches the (short) object, declared size is larger
        obj = content
        size = len(content) + rng.range(1, 5)
    elif okind == "empty":
        obj = b""
    elif okind == "missing":
        objk = "missing"
    elif okind == "readerr":
        objk = "bodyerr"
        if rng.chance(1, 2):
            obj = content[:rng.below(len(content) + 1)]
    # mostly-valid request: at most one of the request dimensions deviates
    sv, alg, max_blob, mode, presign, integ = "ok", rng.choice([b"", b"sha256"]), rng.choice([0, 100, len(content)]), rng.choice([b"", b"stream"]), "0", "some"
    dev = rng.below(14)
    if dev == 0:
        sv = rng.choice(SHAV[3:])
    elif dev == 1:
        sv = rng.choice(["upper", "spaces"])
    elif dev == 2:
        alg = rng.choice([b"SHA256 ", b"md5", b"none", b"sha-256"])
    elif dev == 3:
        size = rng.choice([0, -1, len(content) - 1, len(content) + 1, 101, 9223372036854775807, 9223372036854775806, 1 << 40])
    elif dev == 4:
        max_blob = rng.choice([len(content) - 1, 1, size, size - 1])
    elif dev == 5:
        mode = rng.choice([b"STREAM ", b"presign", b"Presign", b"bogus", b" "]); presign = rng.choice(["0", "1"])
    elif dev == 6:
        integ = "none"
    elif dev == 7:
        mode = b"presign"; presign = "1"
    shastr = {"ok": declared_sha, "upper": declared_sha.upper(), "spaces": b"  " + declared_sha + b"\n", "short": declared_sha[:63],
              "long": declared_sha + b"0", "nonhex": declared_sha[:10] + b"g" + declared_sha[11:], "empty": b"", "blank": b"   ",
              "other": hashlib.sha256(b"x" + content).hexdigest().encode()}[sv]
    rid = rng.choice(RIDS) if not rng.chance(1, 5) else b"req-" + rng.bytes(4).hex().encode()     # X-Request-ID: small pool => often repeated
    op = ["download", presign, str(max_blob), hexs(mode), integ, hexs(shastr), hexs(alg), str(size), objk, hexs(obj), "rid=" + hexs(rid)]
    blobs = [obj]
    if 0 <= size < 1000:
        blobs.append(obj[:size + 1])
    return " ".join(op) + table(blobs), {"sha": shastr, "size": size, "kind": okind, "obj": obj}


RIDS = [b"req-1", b"req-2", b"00000000-0000-4000-8000-000000000001", b"trace.A_b-9"]


def gen_cdl(rng):
    """2-4 overlapping stream downloads through the real handler, request ids mostly shared, objects good / tampered / short /
    extended; every download has its own key, envelope digest and size.  The schedule is (start order = index, release order)."""
    n = rng.range(2, 4)
    shared = rng.choice(RIDS)
    length = rng.choice([2, 7, 32, 33, 60])
    f, blobs, metas = [], [], []
    for i in range(n):
        content = rng.bytes(length if not rng.chance(1, 4) else rng.choice([3, 20, 61]))
        kind = rng.choice(["good", "good", "tampered", "tampered", "short", "extended", "other-same-length"])
        obj = content
        if kind == "tampered":
            j = rng.below(len(content)); obj = content[:j] + bytes([content[j] ^ 0x20]) + content[j + 1:]
        elif kind == "short":
            obj = content[:rng.below(len(content))]
        elif kind == "extended":
            obj = content + rng.bytes(2)
        elif kind == "other-same-length":
            obj = rng.bytes(len(content))
        rid = shared if not rng.chance(1, 5) else rng.choice([b"", b"uniq-%d" % i])
        sha = hashlib.sha256(content).hexdigest().encode()
        f += [hexs(rid), hexs(sha), str(len(content)), hexs(obj)]
        blobs += [obj, obj[:len(content) + 1]]
        metas.append({"sha": sha, "size": len(content), "kind": kind})
    order = list(range(n))
    for i in range(n - 1, 0, -1):
        j = rng.below(i + 1); order[i], order[j] = order[j], order[i]
    op = "cdl %d %s %s" % (n, ",".join(map(str, order)), " ".join(f))
    return op + table(blobs), {"kind": "cdl", "downloads": metas}


def monitor_cdl(op, out):
    f = op.split(" | ")[0].split()
    n = int(f[1])
    res = out.split()[1:]
    if not out.startswith("cdl ") or len(res) != n:
        return "concurrent-download-harness", "unexpected outcome " + out[:120]
    for i, r in enumerate(res):
        sha = bytes.fromhex(f[3 + 4 * i + 1]); size = int(f[3 + 4 * i + 2])
        if r == "hung":
            return "concurrent-download-hangs", "download %d of %d overlapping downloads never finished" % (i, n)
        if r.startswith("bytes:"):
            body = b"" if r[6:] == "-" else bytes.fromhex(r[6:])
            if hashlib.sha256(body).hexdigest().encode() != sha or len(body) != size:
                same = len({f[3 + 4 * k] for k in range(n)}) < n
                return ("concurrent-download-serves-other-bytes",
                        "download %d of %d overlapping downloads (%s X-Request-ID) was answered 200 with %d bytes that do not match ITS OWN "
                        "integrity.sha256/size (%d)" % (i, n, "shared" if same else "distinct", len(body), size))
    return None


def monitor(op, out):
    """The property itself on one implementation line.  Returns (fingerprint, what) or None."""
    f = op.split(" | ")[0].split()
    if f[0] == "cdl":
        return monitor_cdl(op, out)
    if f[0] == "download":
        if out.startswith("bytes "):
            body = b"" if out.split()[1] == "-" else bytes.fromhex(out.split()[1])
            sha = (b"" if f[5] == "-" else bytes.fromhex(f[5])).strip().lower()
            size = int(f[7])
            if hashlib.sha256(body).hexdigest().encode() != sha:
                return "download-serves-sha-mismatch", "download sent %d bytes whose SHA-256 differs from the caller's integrity.sha256" % len(body)
            if len(body) != size:
                return "download-serves-size-mismatch", "download sent %d bytes although the caller declared integrity.size=%d" % (len(body), size)
        elif not (out.startswith("status ") or out.startswith("presigned ")):
            return "download-harness-" + out.split()[0], "unexpected outcome " + out[:80]
        return None
    if f[0] in ("resolve", "unwrap"):
        if out.startswith("panic"):
            return f[0] + "-panics", out[:120]
        if not out.startswith("ok "):
            return None
        kv = dict(x.split("=", 1) for x in out.split()[1:])
        blob = b"" if kv["blob"] == "-" else bytes.fromhex(kv["blob"])
        tail = f[5:] if f[0] == "resolve" else f[4:]
        validate = (f[2] if f[0] == "resolve" else f[1]) == "1"
        ub = lambda s: b"" if s == "-" else bytes.fromhex(s)  # noqa: E731
        env = {"sha": ub(tail[4]), "checksum": ub(tail[5]), "alg": ub(tail[6])}
        if f[0] == "resolve":
            mx = int(f[1])
            if mx > 0 and len(blob) > mx:
                return "resolve-exceeds-max-size", "Resolve returned %d bytes with MaxSize=%d" % (len(blob), mx)
        if validate:
            d = declared(env)
            if d == "err":
                return f[0] + "-accepts-unsupported-alg", "a blob was returned for an unsupported checksum algorithm %r" % env["alg"]
            if d is not None and real_hash(d[0], blob) != d[1]:
                return f[0] + "-returns-checksum-mismatch", "%s returned a blob whose %s digest differs from the envelope's declared %r" % (f[0], d[0], d[1][:70])
    return None


def run_ops(ck, binary, ops, tag):
    fn = ck.path("ops_%s.txt" % tag)
    open(fn, "w").write("\n".join(ops) + "\n")
    rc, out, err = ck.run_bin(binary, stdin_path=fn, env={"VERIF_HARNESS": "C30"})
    impl = out.split("\n")[:-1]
    if rc != 0 or len(impl) != len(ops):
        ck.broke("implementation harness did not answer every op", "rc=%s answered %d of %d\n%s" % (rc, len(impl), len(ops), err[-800:]))
        return None, None
    model = ck.lean_run("C30", fn)
    if len(model) != len(ops):
        ck.broke("Lean driver did not answer every op", "%d of %d" % (len(model), len(ops)))
        return impl, None
    return impl, model


CORPUS = [
    # the suspected (now replayed) defect: 2-byte object, digest matches, caller declared 5 bytes
    "download 0 0 - some %s - 5 body 0102" % hexs(hashlib.sha256(b"\x01\x02").hexdigest().encode()) + table([b"\x01\x02"]),
    "download 0 0 - some %s - 2 body 0102" % hexs(hashlib.sha256(b"\x01\x02").hexdigest().encode()) + table([b"\x01\x02"]),
]


def evaluate(ck, binary, ops, metas):
    impl, model = run_ops(ck, binary, ops, "a")
    if impl is None:
        return
    for i, op in enumerate(ops):
        io = impl[i]
        kind = op.split()[0]
        meta = metas[i] if metas else {}
        outc = "" if kind == "cdl" else io.split()[0] + (" " + io.split()[1] if io.startswith("status") else "")
        ck.count("%s:%s" % (kind, outc))
        if meta.get("kind"):
            ck.count("%s-storage:%s" % (kind, meta["kind"]))
        nontrivial = io.startswith(("ok", "bytes", "err", "status 502")) or (kind == "cdl" and "bytes:" in io)
        if kind == "cdl":
            for r in io.split()[1:]:
                ck.count("cdl-answer:" + r.split(":")[0] + (":" + r.split(":")[1] if r.startswith("status") else ""))
        ck.case(op, nontrivial=nontrivial, sample={"op": op[:200], "impl": io[:120]})
        ck.cov["traces_validated_against_impl"] += 1
        mon = monitor(op, io)
        if mon:
            ck.violation(mon[0], mon[1], {"ops": [op], "expected": "property monitor true", "actual": io})
        elif model is not None and io != model[i]:
            ck.cov["disagreements_checked"] += 1
            if len(ck.broken) < 3:
                ck.broke("correspondence model/implementation (%s)" % kind,
                         "op %s\nimpl : %s\nmodel: %s" % (op[:400], io[:300], model[i][:300]))


def run(ck):
    bins = ck.build_all()
    if bins is None:
        return
    n = 1500 if ck.quick() else 20000
    ck.cov["rule"] = ("ops = envelope x storage behaviour (exact, tampered bit, truncated, extended, empty, other, fetch error, nil reader) "
                      "for Resolve and Unwrap, and download requests (mode, integrity sha/alg/size variants, maxBlob) x object behaviour; "
                      "non-trivial = the storage was consulted (ok / err / bytes / 502); distinct = distinct op lines")
    ops, metas = list(CORPUS), [{"kind": "corpus"}, {"kind": "corpus"}]
    # deterministic corpus: A good, B tampered (same length), same request id; both release orders
    a, b = b"AAAAAAAAAAAAAAAAAAAAAAAAAAAAAAAA", b"BBBBBBBBBBBBBBBBBBBBBBBBBBBBBBBB"
    sa, sb = hashlib.sha256(a).hexdigest().encode(), hashlib.sha256(b"C" * 32).hexdigest().encode()
    for order in ("1,0", "0,1"):
        ops.append("cdl 2 %s %s %s 32 %s %s %s 32 %s" % (order, hexs(b"req-1"), hexs(sa), hexs(a), hexs(b"req-1"), hexs(sb), hexs(b)) + table([a, b]))
        metas.append({"kind": "cdl-corpus"})
    for _ in range(60 if ck.quick() else 1500):
        op, meta = gen_cdl(ck.rng)
        ops.append(op); metas.append(meta)
    for _ in range(n):
        c = ck.rng.below(3)
        if c == 0:
            op, meta = gen_resolve(ck.rng, False)
        elif c == 1:
            op, meta = gen_resolve(ck.rng, True)
        else:
            op, meta = gen_download(ck.rng)
        ops.append(op); metas.append(meta)
    evaluate(ck, bins["h"], ops, metas)


def replay(ck, path):
    rep = json.load(open(path))
    bins = ck.build_all()
    if bins is None:
        return
    ops = rep["ops"]
    evaluate(ck, bins["h"], ops, None)
    ck.cov["evaluations"] = max(ck.cov["evaluations"], 1); ck.cov["distinct_nontrivial"] = max(ck.cov["distinct_nontrivial"], 2)
