"""C22 — different topics never share storage or metadata keys."""
import json

from checks import lib

PROPERTY = "C22"
LEAN_MODULES = ["KafVerif.Props.C22"]
OBLIGATIONS = [
    "KafVerif.C22.accepted_plain",
    "KafVerif.C22.keys_injective",
    "KafVerif.C22.topics_disjoint",
    "KafVerif.C22.old_rule_aliases",
]
BUILDS = {"h": ("root", "./cmd/verif_c22", ["C22"])}
TECHNIQUE = "Lean 4 proof (injectivity of every key constructor on accepted names, for all namespaces/partitions/offsets) + correspondence of the real CreateTopic and key constructors with the model + direct collision monitor on the real keys"
LEVEL_TEXT = ("keys_injective / topics_disjoint proved at full strength for every pair of accepted names, every namespace string, "
              "partition and base offset; path.Clean/path.Join are modelled segment-wise and diffed against Go on generated paths")
LEVEL_NOTE = "consumer-offset keys (group dimension) belong to C16; recovery.go re-derives the same path.Join keys and is covered by the same lemma but not driven"
ASSUMPTIONS = [
    "Go strings are modelled as byte lists; fmt %d / %020d as in the model (diffed on boundary values)",
    "keys collide only within one key space (S3 bucket, etcd, cache map, offsets map, lease map); the namespace is the same for both topics (one broker configuration)",
    "topic names reach storage only through CreateTopic / auto-create (snapshot topics published by the operator are constrained by C39)",
]

LEGAL = "abcxyzABCXYZ0189._-"
BASES = ["orders", "a", "x", "t", "a.b", "A_b-9", "...", "orders.v2", "0", "-", "_", "a-", "x.y.z", "T", "z9"]
NAMESPACES = ["default", "", "ns1", "a/b", "/rooted", "a/../b", "..", "x:y", "./n//m/", "/"]
PARTS = [0, 1, 2, 10, 2147483647, -1]
OFFS = [0, 1, 12345, 9223372036854775807, -5, 99999999999999999]


def hx(b):
    if isinstance(b, str):
        b = b.encode("latin-1")
    return b.hex() if b else "-"


def unhx(s):
    return b"" if s == "-" else bytes.fromhex(s)


def gen_names(rng, n):
    names = []
    for b in BASES:
        names.append(b)
    for _ in range(n):
        k = rng.below(10)
        if k < 5:
            ln = rng.choice([1, 1, 2, 3, 5, 8, 20])
            names.append("".join(rng.choice(LEGAL) for _ in range(ln)))
        elif k < 7:
            ln = rng.choice([248, 249, 250, 251, 300])
            names.append("".join(rng.choice(LEGAL) for _ in range(ln)))
        else:
            ln = rng.choice([1, 2, 3, 6])
            names.append("".join(rng.choice(LEGAL + "/:. \\%\x00\xe9\x7f@,") for _ in range(ln)))
    # adversarial relatives of every base: what would alias it if it were accepted
    adv = []
    for b in BASES + names[len(BASES):len(BASES) + 6]:
        for p in (0, 1):
            adv += [b + "/%d" % p, b + ":%d" % p, b + "/partitions/%d" % p]
        adv += ["a/../" + b, "./" + b, b + "/", b + "/.", b + "//", "/" + b, b + "/config", b + ":", b + "/../" + b,
                b + "/x/..", b + " ", b + "\x00", b.upper(), b + ".", "." + b, b + "/..", "../" + b,
                # legal names that differ from b by a digit suffix: collide if a separator is dropped from a key format
                b + "0", b + "1", b + "10", b + "-1", b + ".0"]
    names += adv + ["", ".", "..", "/", ":", "./.", "a/./b", "a//b"]
    out, seen = [], set()
    for x in names:
        if x not in seen:
            seen.add(x)
            out.append(x)
    return out


def gen_ops(rng, quick):
    names = gen_names(rng, 60 if quick else 400)
    ops, meta = [], []
    for n in names:
        ops.append("accept " + hx(n)); meta.append(("accept", n))
    nss = ["default", rng.choice(NAMESPACES[1:])] if quick else NAMESPACES
    for n in names:
        if len(n) > 260:
            continue
        for ns in nss:
            for p in ([0, 1, 10, rng.choice(PARTS)] if quick else PARTS):
                b = rng.choice(OFFS)
                ops.append("keys %s %s %d %d" % (hx(ns), hx(n), p, b)); meta.append(("keys", ns, n, p, b))
    short = [n for n in names if len(n) < 40]
    for i in range(120 if quick else 1500):
        a = rng.choice(short)
        b = rng.choice(short) if rng.chance(1, 3) else rng.choice([a + ":0", a + ":", a + "/0", a + ".", a + "0", a[:-1] or "q", a])
        ops.append("pair %s %s" % (hx(a), hx(b))); meta.append(("pair", a, b))
    for i in range(150 if quick else 3000):
        segs = [rng.choice(["a", "b", "..", ".", "", "x.y", "...", "c:d", "..a", "a.."]) for _ in range(rng.range(0, 6))]
        p = ("/" if rng.chance(1, 3) else "") + "/".join(segs) + ("/" if rng.chance(1, 4) else "")
        ops.append("clean " + hx(p)); meta.append(("clean", p))
        es = [rng.choice(["", "a", "/", "..", "b/c", "/r", "x/../y", "."]) for _ in range(rng.range(0, 4))]
        ops.append(" ".join(["join"] + [hx(e) for e in es])); meta.append(("join", es))
    return ops, meta


def kv(line):
    return dict(x.split("=", 1) for x in line.split() if "=" in x)


def monitor(meta, out):
    """The property itself on the implementation's lines: among names the real CreateTopic accepted,
    no key of one (topic, partition) equals or is covered by a prefix of another.
    Returns (fingerprint, what, involved op indices) or None."""
    acc = set()
    for m, o in zip(meta, out):
        if m[0] == "accept" and o == "accept":
            acc.add(m[1])
    spaces = {}      # (space, ns) -> key -> (owner, index)
    prefixes = []    # (space, ns, prefix, owner-topic, owner-part or None, index)
    keys = []        # (space, ns, key, topic, part, index)
    for i, (m, o) in enumerate(zip(meta, out)):
        if m[0] == "pair":
            if "next=" in o and m[1] != m[2]:
                d = kv(o)
                if d.get("next") != "18" or d.get("nerr") != "true":
                    return ("delete-topic-disturbs-other-topic",
                            "after DeleteTopic(%r) NextOffset(%r,0) = %s (expected 18)" % (m[1], m[2], d.get("next")), [i])
            continue
        if m[0] != "keys" or m[2] not in acc or "=" not in o:
            continue
        _, ns, t, p, b = m
        d = kv(o)
        for fam, space, level in (("seg", "s3", "p"), ("idx", "s3", "p"), ("cache", "cache", "p"), ("off", "etcd", "p"),
                                  ("pst", "etcd", "p"), ("lease", "etcd", "p"), ("asg", "etcd", "p"), ("cfg", "etcd", "t"),
                                  ("res", "lease-map", "p"), ("mem", "offsets-map", "p"), ("ctk", "cache-topic", "t")):
            k = d[fam]
            sp = (space, ns if space in ("s3", "cache", "cache-topic") else None)
            owner = (t, p) if level == "p" else (t, None)
            tab = spaces.setdefault(sp, {})
            if k in tab:
                t0, p0 = tab[k][0]
                if t0 != t or (p0 is not None and owner[1] is not None and p0 != owner[1]):
                    return ("accepted-topic-names-share-key",
                            "%s key %r is derived for %r and for %r" % (fam, unhx(k), tab[k][0], owner), [tab[k][1], i])
            tab.setdefault(k, (owner, i))
            keys.append((sp, k, t, p, i))
        prefixes.append((("s3", ns), d["pfx"], t, p, i))
        prefixes.append((("s3", ns), d["ctk"] + "2f", t, None, i))
        prefixes.append((("etcd", None), d["del"], t, None, i))
        prefixes.append((("offsets-map", None), hx(t.encode("latin-1") + b":"), t, None, i))
    byspace = {}
    for sp, k, t, p, i in keys:
        byspace.setdefault(sp, []).append((k, t, p, i))
    seenp = set()
    for sp, pf, t, p, i in prefixes:
        if (sp, pf) in seenp:
            continue
        seenp.add((sp, pf))
        for k, t2, p2, j in byspace.get(sp, []):
            if k.startswith(pf) and (t2 != t or (p is not None and p2 != p)):
                return ("prefix-of-one-topic-covers-key-of-another",
                        "prefix %r of %r covers key %r of %r" % (unhx(pf), (t, p), unhx(k), (t2, p2)), [i, j])
    return None


def run_ops(ck, binary, ops, tag, model=True):
    fn = ck.path("ops_%s.txt" % tag)
    open(fn, "w").write("\n".join(ops) + "\n")
    rc, out, err = ck.run_bin(binary, stdin_path=fn)
    impl = out.split("\n")[:-1]
    if rc != 0 or len(impl) != len(ops):
        return impl, None, "impl rc=%s lines=%d/%d %s" % (rc, len(impl), len(ops), err[-500:])
    return impl, (ck.lean_run("C22", fn) if model else None), None


def report(ck, binary, ops, meta, impl, mon):
    fp, what, idx = mon
    # minimal replay: the accept lines of the involved names + the involved ops
    names = set()
    for i in idx:
        m = meta[i]
        names.update([m[2]] if m[0] == "keys" else [m[1], m[2]] if m[0] == "pair" else [])
    small = ["accept " + hx(n) for n in sorted(names)] + [ops[i] for i in idx]
    ck.violation(fp, what, {"ops": small, "expected": "no shared key / covering prefix among accepted names", "actual": what})


def meta_of(ops):
    meta = []
    for o in ops:
        f = o.split()
        d = lambda s: unhx(s).decode("latin-1")
        if f[0] == "accept":
            meta.append(("accept", d(f[1])))
        elif f[0] == "keys":
            meta.append(("keys", d(f[1]), d(f[2]), int(f[3]), int(f[4])))
        elif f[0] == "pair":
            meta.append(("pair", d(f[1]), d(f[2])))
        else:
            meta.append((f[0],))
    return meta


def run(ck):
    bins = ck.build_all()
    if bins is None:
        return
    binary = bins["h"]
    ck.cov["rule"] = ("a case = one op line (accept / keys / pair / clean / join) on a generated topic name, namespace, partition and "
                      "base offset; non-trivial = keys/pair lines whose topic the real CreateTopic accepted, or accept lines it rejected "
                      "for a reason other than emptiness; distinct = distinct op lines")
    ops, meta = gen_ops(ck.rng.fork(), ck.quick())
    # corpus first: replays of earlier findings are prepended to the generated ops
    import glob, os
    for fn in sorted(glob.glob(os.path.join(lib.REPLAYS, "C22", "*.json"))):
        cops = json.load(open(fn)).get("ops", [])
        ops = cops + ops
        meta = meta_of(cops) + meta
    impl, model, crash = run_ops(ck, binary, ops, "all")
    if crash:
        ck.broke("implementation harness did not answer every op", crash)
        return
    acc = {m[1] for m, o in zip(meta, impl) if m[0] == "accept" and o == "accept"}
    for m, o, line in zip(meta, impl, ops):
        nontriv = (m[0] == "keys" and m[2] in acc) or (m[0] == "pair" and "next=" in o) or \
                  (m[0] == "accept" and o == "reject" and m[1] != "") or m[0] in ("clean", "join")
        ck.case(line, nontrivial=nontriv, sample={"op": line[:100], "impl": o[:100]} if m[0] == "pair" and "next" in o else None)
        ck.count(m[0] + ":" + (o.split()[0] if m[0] == "accept" else "n"))
    ck.count("accepted_names", len(acc))
    ck.cov["traces_validated_against_impl"] = len(ops)
    mon = monitor(meta, impl)
    if mon:
        report(ck, binary, ops, meta, impl, mon)
        return
    d = lib.first_diff(impl, model)
    if d is not None:
        ck.cov["disagreements_checked"] += 1
        ck.broke("correspondence model/implementation (topic acceptance and key constructors)",
                 "op %r\nimpl : %s\nmodel: %s" % (ops[d], impl[d] if d < len(impl) else None, model[d] if d < len(model) else None))
        hunt(ck, binary)


def hunt(ck, binary):
    """Wider search (implementation only) for a concrete collision among accepted names."""
    for r in range(2):
        ops, meta = gen_ops(ck.rng.fork(), False)
        impl, _, crash = run_ops(ck, binary, ops, "hunt%d" % r, model=False)
        if crash:
            return
        ck.cov["evaluations"] += len(ops)
        mon = monitor(meta, impl)
        if mon:
            report(ck, binary, ops, meta, impl, mon)
            return


def replay(ck, path):
    rep = json.load(open(path))
    bins = ck.build_all()
    if bins is None:
        return
    ops = rep["ops"]
    impl, model, crash = run_ops(ck, bins["h"], ops, "replay")
    if crash:
        ck.broke("implementation harness did not answer every op", crash)
        return
    meta = meta_of(ops)
    for o, r in zip(ops, impl):
        print("  %-60s -> %s" % (o[:60], r[:160]))
    for o in ops:
        ck.case(o)
    ck.cov["distinct_nontrivial"] = max(2, ck.cov["distinct_nontrivial"])
    mon = monitor(meta, impl)
    if mon:
        ck.violation(mon[0], mon[1], {"ops": ops, "actual": mon[1]})
    elif lib.first_diff(impl, model) is not None:
        d = lib.first_diff(impl, model)
        ck.broke("correspondence model/implementation on the replay", "op %r\nimpl : %s\nmodel: %s" % (ops[d], impl[d], model[d]))
