"""C22 — different topics never share storage or metadata keys."""
import json
import os
import subprocess

from checks import lib

PROPERTY = "C22"
LEAN_MODULES = ["KafVerif.Props.C22", "KafVerif.Props.C22Delete"]
OBLIGATIONS = [
    "KafVerif.C22.accepted_plain",
    "KafVerif.C22.keys_injective",
    "KafVerif.C22.topics_disjoint",
    "KafVerif.C22.old_rule_aliases",
    # the singleflight key of getPartitionLog (one shared *PartitionLog per key)
    "KafVerif.C22.loginit_format_injective",
    "KafVerif.C22.loginit_src_injective",     # about the key expression REGENERATED from cmd/broker/main.go (Gen/C22LogInit.lean)
    "KafVerif.C22.loginit_nosep_collides",
    # the DELETE SELECTORS of DeleteTopic in both stores (Props/C22Delete.lean)
    "KafVerif.C22.delete_selects_only_own_keys",
    "KafVerif.C22.delete_selects_all_own_keys",
    "KafVerif.C22.contains_selector_overmatches",
    "KafVerif.C22.fixed_selector_exact",
    "KafVerif.C22.regex_selector_crosses_topics",
]
BUILDS = {"h": ("root", "./cmd/broker", ["C22"])}      # one binary: harness inside package main (VERIF_HARNESS=C22)
TECHNIQUE = ("Lean 4 proof (injectivity of every key constructor on accepted names, for all namespaces/partitions/offsets) + correspondence of "
             "the real CreateTopic and key constructors with the model + direct collision monitor on the real keys + go/ast-regenerated key "
             "expression of getPartitionLog's singleflight group with a Lean obligation + gated concurrent-first-produce scenarios through the real handler "
             "+ delete selectors of DeleteTopic as predicates over keys (Lean: select only own keys) diffed against both real stores (embedded etcd) on "
             "families of near-identical accepted names, with a raw etcd key dump and a Store-API read-back of every other topic")
LEVEL_TEXT = ("keys_injective / topics_disjoint proved at full strength for every pair of accepted names, every namespace string, "
              "partition and base offset; path.Clean/path.Join are modelled segment-wise and diffed against Go on generated paths; the "
              "singleflight key of getPartitionLog is regenerated from the source on every run and proved injective (loginit_src_injective)")
LEVEL_NOTE = ("identity of consumer-offset keys across groups belongs to C16; the delete selectors over them are proved for group ids without '/' "
              "(and not group = topic = \"offsets\": theorem contains_selector_overmatches, proposed fix fixes/C22-delete-consumer-offsets-anchored.patch); recovery.go re-derives the same path.Join keys and is covered by the same lemma "
              "but not driven; the singleflight key expression is tied statically (extractor, trusted) and by scenarios, not by a line-by-line diff")
ASSUMPTIONS = [
    "Go strings are modelled as byte lists; fmt %d / %020d as in the model (diffed on boundary values)",
    "keys collide only within one key space (S3 bucket, etcd, cache map, offsets map, lease map); the namespace is the same for both topics (one broker configuration)",
    "topic names reach storage only through CreateTopic / auto-create (snapshot topics published by the operator are constrained by C39)",
    "static tie of the singleflight key: the go/ast extractor harness/C22/tools/extract (trusted) resolves the first argument of every <recv>.logInit.Do/DoChan call in cmd/broker/main.go through fmt.Sprintf / fmt.Sprint / + / strconv.Itoa and single-definition locals; a key built any other way makes the obligation fail (reported without a failing input unless a scenario finds one)",
    "delete selectors: group ids contain no '/' and not (group id = deleted topic = \"offsets\") — outside that HEAD's substring filter over-matches "
    "(driven in the adv-* families, compared with the model's prediction, reported as proposed/known finding, never as a new violation)",
    "scenario schedule: only the first store.NextOffset of the parked (topic, partition) is gated; the second request is released when it has finished or is seen (goroutine stack) waiting inside singleflight.Group.Do for another goroutine's call",
]
TRUSTED = ["harness/C22/tools/extract (go/ast extractor of the singleflight key expression)"]

# ------------------------------------------------------------------ regenerated fact (go/ast): the singleflight key expression

GEN = os.path.join(lib.LEAN, "KafVerif", "Gen", "C22LogInit.lean")
EXTRACTOR = os.path.join(lib.HARNESS, "C22", "tools", "extract", "main.go")


def lean_str(s):
    return json.dumps(s, ensure_ascii=False)


def extractor_binary(ck):
    """The extractor is a tool of the framework (it does not depend on the tree under test): built once per source version."""
    import hashlib
    h = hashlib.sha256(open(EXTRACTOR, "rb").read()).hexdigest()[:16]
    d = os.path.join(os.environ.get("VERIF_TMP", "/tmp"), "kafverif-tools")
    os.makedirs(d, exist_ok=True)
    out = os.path.join(d, "c22extract-" + h)
    if not os.path.exists(out):
        tmp = out + ".tmp%d" % os.getpid()
        p = subprocess.run(["go", "build", "-o", tmp, EXTRACTOR], cwd=ck.scratch, env=lib.go_env(), capture_output=True, text=True)
        if p.returncode != 0:
            raise RuntimeError("extractor build failed: " + (p.stdout + p.stderr)[-1500:])
        os.replace(tmp, out)
    return out


def generate(ck):
    p = subprocess.run([extractor_binary(ck), lib.REPO], cwd=ck.scratch, capture_output=True, text=True)
    if p.returncode != 0:
        raise RuntimeError("extractor failed: " + (p.stdout + p.stderr)[-1500:])
    sites = [json.loads(l) for l in p.stdout.split("\n") if l.strip()]
    ck._c22_sites = sites
    rows, comments = [], []
    for st in sites:
        comments.append("-- %s: %s%s" % (st["fn"], st["src"].replace("\n", " "), ("   (not resolved: %s)" % st["other"]) if st.get("other") else ""))
        ps = []
        for pc in st.get("pieces") or []:
            if pc["k"] == "lit":
                if any(ord(c) > 126 or ord(c) < 32 for c in pc["s"]):
                    ps = []
                    break
                ps.append(".lit (str %s)" % lean_str(pc["s"]))
            else:
                ps.append("." + pc["k"])
        rows.append("  [" + ", ".join(ps) + "]")       # an unresolved expression is the empty (unsafe) format
    src = ("-- REGENERATED by checks/C22.py (harness/C22/tools/extract, go/ast) from cmd/broker/main.go; do not edit.\n"
           "-- The key expression of every `<handler>.logInit.Do(key, …)` call (singleflight group of getPartitionLog),\n"
           "-- as pieces over the function's topic / partition parameters.  Piece: KafVerif/Model/MetaKeys.lean.\n"
           "import KafVerif.Model.MetaKeys\nnamespace KafVerif.Gen.C22\nopen KafVerif.MetaKeys\n"
           + "\n".join(comments) + ("\n" if comments else "")
           + "def logInitSites : List (List Piece) := [\n" + ",\n".join(rows) + "]\nend KafVerif.Gen.C22\n")
    old = open(GEN).read() if os.path.exists(GEN) else None
    if old != src:
        with ck._lake_lock():
            tmp = GEN + ".tmp%d" % os.getpid()
            open(tmp, "w").write(src)
            os.replace(tmp, GEN)
    ck._c22_gen = src
    ck.cov.setdefault("distribution", {})["loginit_call_sites_extracted"] = len(sites)


def reprove_if_gen_foreign(ck):
    """lean/KafVerif/Gen/*.lean is shared by every check process; when another run (another $VERIF_REPO) rewrote it
    between our `generate` and our `lake build`, prove() judged the wrong expression: prove again."""
    for _ in range(3):
        src = getattr(ck, "_c22_gen", None)
        if src is None or (os.path.exists(GEN) and open(GEN).read() == src):
            return
        ck.log("regenerated facts were overwritten by a concurrent run; proving again")
        ck.broken = [b for b in ck.broken if not b["what"].startswith(("lake build", "axiom audit", "forbidden-token", "translator", "leanchecker"))]
        ck.discharged = 0
        ck.prove()


def static_verdict(ck):
    """After prove(): says in words what the regenerated key expression is when the obligations no longer build."""
    reprove_if_gen_foreign(ck)
    sites = getattr(ck, "_c22_sites", None)
    if sites is None:
        return ""
    ok = len(sites) == 1 and [p["k"] for p in sites[0].get("pieces") or []] == ["topic", "lit", "part"] and \
        len(sites[0]["pieces"][1]["s"]) == 1 and sites[0]["pieces"][1]["s"] not in LEGAL_ALPHABET
    if ok:
        return ""
    what = "; ".join("%s %s: %s%s" % (s["pos"], s["fn"], s["src"], (" [%s]" % s["other"]) if s.get("other") else "") for s in sites) or "no logInit.Do call found"
    if any(b["what"].startswith("lake build") for b in ck.broken):
        ck.broke("static tie (singleflight key of getPartitionLog): KafVerif.C22.loginit_src_injective no longer holds on the key "
                 "expression regenerated from the current source", what)
    return what


LEGAL_ALPHABET = "abcdefghijklmnopqrstuvwxyzABCDEFGHIJKLMNOPQRSTUVWXYZ0123456789._-"

LEGAL = "abcxyzABCXYZ0189._-"
BASES = ["orders", "a", "x", "t", "a.b", "A_b-9", "...", "orders.v2", "0", "-", "_", "a-", "x.y.z", "T", "z9"]
NAMESPACES = ["default", "", "ns1", "a/b", "/rooted", "a/../b", "..", "x:y", "./n//m/", "/"]
PARTS = [0, 1, 2, 10, 2147483647, -1]
OFFS = [0, 1, 12345, 9223372036854775807, -5, 99999999999999999]


def hx(b):
    if isinstance(b, str):
        b = b.encode("latin-1")
    return b.hex() if b else "-"


def unhx(s):
    return b"" if s == "-" else bytes.fromhex(s)


def gen_names(rng, n):
    names = []
    for b in BASES:
        names.append(b)
    for _ in range(n):
        k = rng.below(10)
        if k < 5:
            ln = rng.choice([1, 1, 2, 3, 5, 8, 20])
            names.append("".join(rng.choice(LEGAL) for _ in range(ln)))
        elif k < 7:
            ln = rng.choice([248, 249, 250, 251, 300])
            names.append("".join(rng.choice(LEGAL) for _ in range(ln)))
        else:
            ln = rng.choice([1, 2, 3, 6])
            names.append("".join(rng.choice(LEGAL + "/:. \\%\x00\xe9\x7f@,") for _ in range(ln)))
    # adversarial relatives of every base: what would alias it if it were accepted
    adv = []
    for b in BASES + names[len(BASES):len(BASES) + 6]:
        for p in (0, 1):
            adv += [b + "/%d" % p, b + ":%d" % p, b + "/partitions/%d" % p]
        adv += ["a/../" + b, "./" + b, b + "/", b + "/.", b + "//", "/" + b, b + "/config", b + ":", b + "/../" + b,
                b + "/x/..", b + " ", b + "\x00", b.upper(), b + ".", "." + b, b + "/..", "../" + b,
                # legal names that differ from b by a digit suffix: collide if a separator is dropped from a key format
                b + "0", b + "1", b + "10", b + "-1", b + ".0"]
    names += adv + ["", ".", "..", "/", ":", "./.", "a/./b", "a//b"]
    out, seen = [], set()
    for x in names:
        if x not in seen:
            seen.add(x)
            out.append(x)
    return out


def gen_ops(rng, quick):
    names = gen_names(rng, 60 if quick else 400)
    ops, meta = [], []
    for n in names:
        ops.append("accept " + hx(n)); meta.append(("accept", n))
    nss = ["default", rng.choice(NAMESPACES[1:])] if quick else NAMESPACES
    for n in names:
        if len(n) > 260:
            continue
        for ns in nss:
            for p in ([0, 1, 10, rng.choice(PARTS)] if quick else PARTS):
                b = rng.choice(OFFS)
                ops.append("keys %s %s %d %d" % (hx(ns), hx(n), p, b)); meta.append(("keys", ns, n, p, b))
    short = [n for n in names if len(n) < 40]
    for i in range(120 if quick else 1500):
        a = rng.choice(short)
        b = rng.choice(short) if rng.chance(1, 3) else rng.choice([a + ":0", a + ":", a + "/0", a + ".", a + "0", a[:-1] or "q", a])
        ops.append("pair %s %s" % (hx(a), hx(b))); meta.append(("pair", a, b))
    for i in range(150 if quick else 3000):
        segs = [rng.choice(["a", "b", "..", ".", "", "x.y", "...", "c:d", "..a", "a.."]) for _ in range(rng.range(0, 6))]
        p = ("/" if rng.chance(1, 3) else "") + "/".join(segs) + ("/" if rng.chance(1, 4) else "")
        ops.append("clean " + hx(p)); meta.append(("clean", p))
        es = [rng.choice(["", "a", "/", "..", "b/c", "/r", "x/../y", "."]) for _ in range(rng.range(0, 4))]
        ops.append(" ".join(["join"] + [hx(e) for e in es])); meta.append(("join", es))
    return ops, meta


def kv(line):
    return dict(x.split("=", 1) for x in line.split() if "=" in x)


def monitor(meta, out):
    """The property itself on the implementation's lines: among names the real CreateTopic accepted,
    no key of one (topic, partition) equals or is covered by a prefix of another.
    Returns (fingerprint, what, involved op indices) or None."""
    acc = set()
    for m, o in zip(meta, out):
        if m[0] == "accept" and o == "accept":
            acc.add(m[1])
    spaces = {}      # (space, ns) -> key -> (owner, index)
    prefixes = []    # (space, ns, prefix, owner-topic, owner-part or None, index)
    keys = []        # (space, ns, key, topic, part, index)
    for i, (m, o) in enumerate(zip(meta, out)):
        if m[0] == "pair":
            if "next=" in o and m[1] != m[2]:
                d = kv(o)
                if d.get("next") != "18" or d.get("nerr") != "true":
                    return ("delete-topic-disturbs-other-topic",
                            "after DeleteTopic(%r) NextOffset(%r,0) = %s (expected 18)" % (m[1], m[2], d.get("next")), [i])
            continue
        if m[0] != "keys" or m[2] not in acc or "=" not in o:
            continue
        _, ns, t, p, b = m
        d = kv(o)
        for fam, space, level in (("seg", "s3", "p"), ("idx", "s3", "p"), ("cache", "cache", "p"), ("off", "etcd", "p"),
                                  ("pst", "etcd", "p"), ("lease", "etcd", "p"), ("asg", "etcd", "p"), ("cfg", "etcd", "t"),
                                  ("res", "lease-map", "p"), ("mem", "offsets-map", "p"), ("ctk", "cache-topic", "t")):
            k = d[fam]
            sp = (space, ns if space in ("s3", "cache", "cache-topic") else None)
            owner = (t, p) if level == "p" else (t, None)
            tab = spaces.setdefault(sp, {})
            if k in tab:
                t0, p0 = tab[k][0]
                if t0 != t or (p0 is not None and owner[1] is not None and p0 != owner[1]):
                    return ("accepted-topic-names-share-key",
                            "%s key %r is derived for %r and for %r" % (fam, unhx(k), tab[k][0], owner), [tab[k][1], i])
            tab.setdefault(k, (owner, i))
            keys.append((sp, k, t, p, i))
        prefixes.append((("s3", ns), d["pfx"], t, p, i))
        prefixes.append((("s3", ns), d["ctk"] + "2f", t, None, i))
        prefixes.append((("etcd", None), d["del"], t, None, i))
        prefixes.append((("offsets-map", None), hx(t.encode("latin-1") + b":"), t, None, i))
    byspace = {}
    for sp, k, t, p, i in keys:
        byspace.setdefault(sp, []).append((k, t, p, i))
    seenp = set()
    for sp, pf, t, p, i in prefixes:
        if (sp, pf) in seenp:
            continue
        seenp.add((sp, pf))
        for k, t2, p2, j in byspace.get(sp, []):
            if k.startswith(pf) and (t2 != t or (p is not None and p2 != p)):
                return ("prefix-of-one-topic-covers-key-of-another",
                        "prefix %r of %r covers key %r of %r" % (unhx(pf), (t, p), unhx(k), (t2, p2)), [i, j])
    return None


# ------------------------------------------------------------------ concurrent first produce (real handler, gated store)

SC_BASES = ["t", "a", "logs", "orders", "x.y", "A_b-", "z9", "0", "-", "_", "a.", "t1", "T", "q-w_e.r"]
SC_DIGITS = ["1", "2", "9", "10", "12", "7", "30", "123", "01", "0"]


def _collide(base, digits, p, sep=""):
    """(base+sep+digits, p) and (base, int(digits ++ p)): the same string once `sep` and the key's own separator are dropped."""
    joined = digits + str(p)
    big = int(joined)
    if str(big) != joined or big > 1500:
        return None
    return (base + sep + digits, p, base, big)


def gen_scenarios(rng, quick):
    """Pairs of (topic, partition) whose keys collide under the plausible wrong key formats; which side is parked,
    the batch sizes, pre-created vs auto-created topics and the follow-up round all come from the seed."""
    fams = []

    def pick(f):
        for _ in range(50):
            r = f()
            if r is not None and (r[0], r[1]) != (r[2], r[3]):
                return r
        return None
    b = lambda: rng.choice(SC_BASES)
    d = lambda: rng.choice(SC_DIGITS)
    pp = lambda: rng.choice([0, 0, 1, 2, 3, 5, 9, 10, 11])
    fams.append(("nosep", lambda: _collide(b(), d(), pp())))                                  # "%s%d", fmt.Sprint(topic, partition)
    fams.append(("nosep-canon", lambda: rng.choice([("t1", 0, "t", 10), ("a1", 1, "a", 11), ("logs2", 3, "logs", 23),
                                                    ("orders12", 3, "orders", 123), ("x10", 0, "x", 100), ("t1", 23, "t", 123),
                                                    ("t12", 3, "t1", 23), ("b7", 77, "b", 777)])))
    fams.append(("sepdrop", lambda: _collide(b(), d(), pp(), rng.choice("-._"))))           # a key builder that strips / maps a legal separator
    fams.append(("shift", lambda: (lambda base, d1, d2, p: None if (str(int(d2 + str(p))) != d2 + str(p) or str(int(d1 + d2 + str(p))) != d1 + d2 + str(p)
                                                                      or int(d1 + d2 + str(p)) > 1500)
                                   else (base + d1, int(d2 + str(p)), base, int(d1 + d2 + str(p))))(b(), rng.choice("123456789"), rng.choice(["1", "2", "5"]), pp())))
    fams.append(("same-topic", lambda: (lambda base, p, dd: None if (str(int(str(p) + dd)) != str(p) + dd or int(str(p) + dd) > 1500)
                                        else (base, p, base, int(str(p) + dd)))(b(), pp(), d())))
    fams.append(("sepname", lambda: (lambda base, sp, p: (base + sp + str(p), 0, base, p))(b(), rng.choice("-._"), pp())))   # "a-1"/0 vs "a"/1
    fams.append(("illegal", lambda: (lambda base, sp, p: (base + sp + str(p), 0, base, p))(b(), rng.choice("/:"), pp())))   # rejected by validation
    # same partition, related names: what a key that trims / folds / truncates the topic would merge
    fams.append(("related", lambda: (lambda base, p, k: (base + [d(), "-" + d(), ".v2", "-dlq", "_", ".", "x"][k], p, base, p) if k < 7
                                     else None if base.swapcase() == base else (base.swapcase(), p, base, p))(b(), pp(), rng.below(8))))
    fams.append(("control", lambda: (lambda x, y: None if x == y else (x, pp(), y, pp()))(b(), b())))
    reps = {"nosep": 8, "nosep-canon": 5, "sepdrop": 4, "shift": 4, "same-topic": 3, "sepname": 3, "related": 5, "illegal": 2, "control": 2}
    out = []
    for name, f in fams:
        for _ in range(reps[name] * (1 if quick else 8)):
            r = pick(f)
            if r is None:
                continue
            tA, pA, tB, pB = r
            if rng.chance(1, 2):                      # which side is parked in its initialisation
                tA, pA, tB, pB = tB, pB, tA, pA
            mode = "auto" if rng.chance(1, 5) else "exists"
            if tA == tB:
                mode = "exists"      # auto-creation sizes the topic for the FIRST request that creates it; the other partition may not exist
            out.append({"fam": name, "tA": tA, "pA": pA, "nA": rng.range(1, 5), "tB": tB, "pB": pB, "nB": rng.range(1, 5),
                        "mode": mode, "follow": 1 if rng.chance(1, 2) else 0})
    # order of the scenarios from the seed as well
    for i in range(len(out) - 1, 0, -1):
        j = rng.below(i + 1)
        out[i], out[j] = out[j], out[i]
    return out


def scen_line(sc):
    return "first %s %d %d %s %d %d %s %d" % (hx(sc["tA"]), sc["pA"], sc["nA"], hx(sc["tB"]), sc["pB"], sc["nB"], sc["mode"], sc["follow"])


def scen_of_line(line):
    f = line.split()
    d = lambda x: unhx(x).decode("latin-1")
    return {"fam": "replay", "tA": d(f[1]), "pA": int(f[2]), "nA": int(f[3]), "tB": d(f[4]), "pB": int(f[5]), "nB": int(f[6]),
            "mode": f[7], "follow": int(f[8])}


def scen_expected(sc):
    """What the property demands (computed here, not by the harness): every record under its own topic's prefix/offsets."""
    objs, idx, upd = {}, set(), set()
    for t, p, n, i1, i2 in ((sc["tA"], sc["pA"], sc["nA"], 1, 3), (sc["tB"], sc["pB"], sc["nB"], 2, 4)):
        pre = "default/%s/%d/segment-" % (t, p)
        objs[pre + "%020d.kfs" % 0] = "%d@0+%d" % (i1, n)
        idx.add(pre + "%020d.index" % 0)
        upd.add("%s/%d:%d" % (t, p, n - 1))
        if sc["follow"]:
            objs[pre + "%020d.kfs" % n] = "%d@%d+1" % (i2, n)
            idx.add(pre + "%020d.index" % n)
            upd.add("%s/%d:%d" % (t, p, n))
    exp = {"a": "0:0", "b": "0:0", "objs": objs, "idx": idx, "upd": upd,
           "nextA": str(sc["nA"] + sc["follow"]), "nextB": str(sc["nB"] + sc["follow"])}
    if sc["follow"]:
        exp["a2"] = "0:%d" % sc["nA"]
        exp["b2"] = "0:%d" % sc["nB"]
    return exp


def scen_judge(sc, line):
    """-> (verdict, text): verdict in ok | skipped | violation | broken."""
    f = line.split()
    if len(f) < 2 or f[0] != "first":
        return "broken", "harness answered %r" % line[:200]
    d = kv(line)
    if "skipped" in f:
        return "skipped", d.get("create", "")
    if "panic" in f:
        return "broken", "the scenario panicked"
    exp = scen_expected(sc)
    objs = {}
    for o in ([] if d.get("objs", "-") == "-" else d["objs"].split(";")):
        k, _, desc = o.partition("[")
        objs[k] = desc.rstrip("]")
    idx = set() if d.get("idx", "-") == "-" else set(d["idx"].split(";"))
    upd = set() if d.get("upd", "-") == "-" else set(d["upd"].split(";"))
    A, B = (sc["tA"], sc["pA"]), (sc["tB"], sc["pB"])
    own = {"1": A, "3": A, "2": B, "4": B}
    name = lambda x: "%s/%d" % x
    # cross-topic evidence first: a batch of one (topic, partition) stored under the prefix of the other
    for k, desc in sorted(objs.items()):
        for side in (A, B):
            if k.startswith("default/%s/%d/" % side):
                for b in desc.split("."):
                    bid = b.split("@")[0]
                    if bid in own and own[bid] != side:
                        return "violation", ("records produced to %s were stored in S3 object %s of %s (first requests for the two partitions "
                                             "arrived while %s was still initialising; bwait=%s); objects: %s; next offsets %s=%s %s=%s" % (
                                                 name(own[bid]), k, name(side), name(A), d.get("bwait"), d.get("objs"), name(A), d.get("nextA"),
                                                 name(B), d.get("nextB")))
    if d.get("bwait") == "joined":
        return "violation", ("the first request for %s joined the in-flight initialisation of %s (one singleflight call, one *PartitionLog for two "
                             "different partitions): %s" % (name(B), name(A), line[:600]))
    if "hang" in (d.get("a"), d.get("b"), d.get("a2"), d.get("b2")):
        return "broken", "a produce request did not return within 10 s: " + line[:400]
    acked = d.get("a", "").startswith("0:") and d.get("b", "").startswith("0:")
    diffs = []
    for key in ("a", "b", "a2", "b2", "nextA", "nextB"):
        if key in exp and d.get(key) != exp[key]:
            diffs.append("%s=%s (expected %s)" % (key, d.get(key), exp[key]))
    if objs != exp["objs"]:
        diffs.append("segment objects %s (expected %s)" % (sorted(objs.items()), sorted(exp["objs"].items())))
    if idx != exp["idx"]:
        diffs.append("index objects %s (expected %s)" % (sorted(idx), sorted(exp["idx"])))
    if upd != exp["upd"]:
        diffs.append("UpdateOffsets calls %s (expected %s)" % (sorted(upd), sorted(exp["upd"])))
    if d.get("park") != "ok":
        diffs.append("the parked request never reached store.NextOffset")
    if not diffs:
        return "ok", d.get("bwait", "")
    if acked and (objs != exp["objs"] or upd != exp["upd"] or d.get("nextA") != exp["nextA"] or d.get("nextB") != exp["nextB"]):
        return "violation", "acknowledged records of %s / %s are not (only) under their own S3 prefix / metadata offsets: %s" % (name(A), name(B), "; ".join(diffs))
    return "broken", "; ".join(diffs)


def run_scenarios(ck, binary, scs, tag):
    """Runs the scenarios through the real handler; returns False after reporting a violation."""
    lines = [scen_line(sc) for sc in scs]
    rc, out, err = ck.run_bin(binary, stdin_text="\n".join(lines) + "\n", env={"VERIF_HARNESS": "C22"}, timeout=300)
    res = out.split("\n")[:-1]
    if rc != 0 or len(res) != len(lines):
        ck.broke("scenario harness (cmd/broker, VERIF_HARNESS=C22) did not answer every scenario",
                 "rc=%s lines=%d/%d %s\nlast: %s" % (rc, len(res), len(lines), err[-800:], res[-1:] and res[-1][:300]))
        return True
    ck.cov["traces_validated_against_impl"] += len(lines)
    good = True
    broken = []
    for sc, line, r in zip(scs, lines, res):
        verdict, text = scen_judge(sc, r)
        ck.case(line, nontrivial=verdict != "skipped",
                sample={"op": "first %s/%d (parked) || %s/%d %s" % (sc["tA"], sc["pA"], sc["tB"], sc["pB"], sc["mode"]), "impl": r[:160]}
                if sc["fam"].startswith("nosep") and verdict == "ok" and len(ck.cov["samples"]) < 12 else None)
        ck.count("scenario:%s:%s" % (sc["fam"], verdict if verdict != "ok" else "ok-" + text))
        if verdict == "violation":
            note = getattr(ck, "_c22_static", "")
            ck.violation("concurrent-first-produce-crosses-topics", text + ((" [singleflight key in the source: %s]" % note) if note else ""),
                         {"scenario_ops": [line], "scenario": sc, "expected": "every record under its own topic's S3 prefix and metadata offsets; "
                          "distinct (topic, partition) never share one initialisation", "actual": r})
            good = False
        elif verdict == "broken":
            broken.append("%s\n  -> %s" % (line, text))
    if broken and good:
        ck.broke("concurrent first-produce scenario did not behave as on the reference tree (no cross-topic evidence)", "\n".join(broken[:10]))
    return good


# ------------------------------------------------------------------ delete selectors: families of names on both real stores

FAM_PRE = ["metrics", "a", "orders", "x9", "T", "app-logs", "q_", "a.b"]
FAM_SUF = ["cpu", "b", "v2", "0", "Z", "dlq", "c-d"]
FAM_META = [".", "_", "-", "X"]
FAM_WORDS = ["offsets", "partitions", "config", "metadata", "topics", "consumers", "next_offset", "kafscale", "snapshot"]
FAM_GROUPS = ["g", "dash.boards", "a-b", "offsets2", "x_offsets", "metadata", "0", "offsets", "partitions", "grp_1", "consumers"]
FAM_FP = "delete-topic-removes-keys-of-other-topic"
FAM_KNOWN_FP = "etcd-delete-topic-offsets-marker-overmatch"


def fam_in_hypotheses(f):
    """Hypotheses of KafVerif.C22.delete_selects_only_own_keys on the group ids."""
    return all("/" not in g for g in f["groups"]) and not (f["victim"] == "offsets" and "offsets" in f["groups"])


def gen_families(rng, quick):
    """Families of ACCEPTED names that differ by one regex/glob metacharacter or are prefixes of each other, names that
    are words of the key layout, one topic with more than 256 etcd keys; which one is deleted, the partition counts and
    the groups come from the seed.  Every run deletes a name with '.' next to its '_' '-' 'X' siblings, a prefix name
    next to its extensions, an extension next to its prefix, and the >256-key topic next to earlier- and later-sorting
    siblings."""
    out = []
    k = 1 if quick else 6

    def groups(victim):
        pool = [g for g in FAM_GROUPS if not (victim == "offsets" and g == "offsets")]
        gs = []
        for _ in range(rng.range(2, 4)):
            g = rng.choice(pool)
            if g not in gs:
                gs.append(g)
        return gs

    def parts():
        return rng.choice([1, 1, 2, 3])

    def add(fam, victim, names, big=None, gs=None):
        names = list(dict.fromkeys(names))
        order = list(names)
        for i in range(len(order) - 1, 0, -1):          # creation order from the seed
            j = rng.below(i + 1)
            order[i], order[j] = order[j], order[i]
        out.append({"fam": fam, "victim": victim, "groups": gs or groups(victim),
                    "topics": [(n, big if (big and n == victim) else parts()) for n in order]})

    for _ in range(2 * k):
        pre, suf = rng.choice(FAM_PRE), rng.choice(FAM_SUF)
        names = [pre + c + suf for c in FAM_META] + ([pre + suf] if rng.chance(1, 2) else [])
        add("meta-dot", pre + "." + suf, names)
    for _ in range(k):
        pre, suf = rng.choice(FAM_PRE), rng.choice(FAM_SUF)
        names = [pre + c + suf for c in FAM_META]
        add("meta-any", rng.choice(names[1:]), names)
    for _ in range(k):
        a, b, c = rng.choice(FAM_PRE), rng.choice(["m", "1", "b_"]), rng.choice(FAM_SUF)
        names = [a + x + b + y + c for x in (".", "_", "X") for y in (".", "-")]
        add("two-dots", a + "." + b + "." + c, names + [a + ".." + c, a + "." + b])
    for _ in range(k):
        b = rng.choice(["t", "orders", "a.b", "x-", "T_1", "0"])
        names = [b, b + "1", b + "11", b + ".1", b + "-1", b + "_", b + ".", b + "1.x"]
        add("prefix-del-prefix", b, names)
        add("prefix-del-ext", b + "1", names)
    for _ in range(k):
        ws = [w for w in FAM_WORDS]
        names = [rng.choice(ws) for _ in range(4)] + ["orders"]
        add("wordy", rng.choice(names[:4]), names)
    for _ in range(1 if quick else 2):
        v = rng.choice(["m", "bulk", "m.x", "big-1", "B_"])
        n = rng.choice([260, 300]) if quick else rng.choice([256, 300, 520, 600])
        add("big", v, [v, v + "0", v + "-", v + ".", "zz" + v, "0" + v, v + "z", v[:-1] + "A"], big=n)
    # OUTSIDE the hypotheses on the group ids (never alarmed as a new violation; model vs implementation only)
    add("adv-offsets-word", "offsets", ["offsets", "orders", "payments"], gs=["offsets", "g"])
    x = rng.choice(["x", "orders", "a.b"])
    add("adv-slashed-group", x, [x, "y", x + "1"], gs=["g/offsets/" + x + "/9", "g", "h/offsets/" + x + "/"])
    return out


def fam_line(f):
    return "delfam %s %s %s" % (hx(f["victim"]), ",".join(hx(g) for g in f["groups"]),
                                ";".join("%s:%d" % (hx(n), p) for n, p in f["topics"]))


def fam_of_line(line):
    w = line.split()
    d = lambda x: unhx(x).decode("latin-1")
    return {"fam": "replay", "victim": d(w[1]), "groups": [d(g) for g in w[2].split(",")],
            "topics": [(d(sp.split(":")[0]), int(sp.split(":")[1])) for sp in w[3].split(";")]}


def fam_judge(f, impl, model):
    """-> (verdict, text).  verdict: ok | violation | known | broken."""
    head, _, fixed = model.partition(" || ")
    d = kv(impl)
    if not impl.startswith("delfam dM="):
        return "broken", "harness answered %r" % impl[:300]
    names = [n for n, _ in f["topics"]]

    def owner(o):
        return "a consumer group's metadata" if o == "G" else "topic %r" % names[int(o)]
    lost = [] if d.get("lostE", "-") == "-" else d["lostE"].split(",")
    api = [("in-memory", x) for x in ([] if d.get("apiM", "-") == "-" else d["apiM"].split(","))] + \
          [("etcd", x) for x in ([] if d.get("apiE", "-") == "-" else d["apiE"].split(","))]
    if lost or api:
        what = "DeleteTopic(%r) with topics %s and groups %s: " % (f["victim"], names, f["groups"])
        what += "; ".join(["removed or changed etcd key %s of %s" % (unhx(x.split("@")[0]).decode("latin-1"), owner(x.split("@")[1])) for x in lost[:6]] +
                          ["%s store: %s of %s no longer reads back as before" % (st, x.split(":", 1)[1], owner(x.split(":", 1)[0])) for st, x in api[:6]])
        if fam_in_hypotheses(f):
            return "violation", what
        if impl == head:
            return "known", what
        return "broken", "outside the group-id hypotheses, and neither HEAD's nor the fixed selector predicts it: " + what
    if d.get("dM") != "ok" or d.get("dE") != "ok":
        return "broken", "DeleteTopic(%r) answered in-memory=%s etcd=%s" % (f["victim"], d.get("dM"), d.get("dE"))
    if d.get("leftE", "-") != "-" or d.get("staleM", "-") != "-" or d.get("staleE", "-") != "-":
        return "broken", "DeleteTopic(%r) left keys of the topic itself behind: leftE=%s staleM=%s staleE=%s" % (
            f["victim"], d.get("leftE", "")[:200], d.get("staleM"), d.get("staleE"))
    if impl not in (head, fixed):
        return "broken", "model and implementation disagree on what DeleteTopic(%r) removes\nimpl : %s\nmodel: %s" % (f["victim"], impl[:400], model[:800])
    return "ok", "fixed-selector" if (impl == fixed and impl != head) else ""


def run_families(ck, binary, fams, tag):
    """Runs the delete-selector families on both real stores; returns False after reporting a violation."""
    lines = [fam_line(f) for f in fams]
    fn = ck.path("fam_%s.txt" % tag)
    open(fn, "w").write("\n".join(lines) + "\n")
    rc, out, err = ck.run_bin(binary, stdin_path=fn, env={"VERIF_HARNESS": "C22"}, timeout=600)
    res = [l for l in out.split("\n")[:-1] if not l.startswith("{")]
    if rc != 0 or len(res) != len(lines):
        ck.broke("delete-selector harness (cmd/broker, VERIF_HARNESS=C22, op delfam) did not answer every family",
                 "rc=%s lines=%d/%d %s\nlast: %s" % (rc, len(res), len(lines), err[-800:], res[-1:] and res[-1][:300]))
        return True
    model = ck.lean_run("C22", fn)
    ck.cov["traces_validated_against_impl"] += len(lines)
    good, broken = True, []
    for f, line, r, m in zip(fams, lines, res, model + [""] * len(lines)):
        verdict, text = fam_judge(f, r, m)
        d = kv(r)
        ck.case(line, nontrivial=r.startswith("delfam dM=ok"),
                sample={"op": "delfam %s: DeleteTopic(%r) among %s" % (f["fam"], f["victim"], [n for n, _ in f["topics"]][:5]), "impl": r[:120]}
                if f["fam"] in ("meta-dot", "big") else None)
        ck.count("delfam:%s:%s%s" % (f["fam"], verdict, (":" + text) if verdict == "ok" and text else ""))
        if f["fam"] == "big":
            ck.count("delfam:big:etcd-keys-of-deleted-topic>256" if int(d.get("nkeys", "0")) > 256 else "delfam:big:TOO-SMALL")
            if verdict == "ok" and int(d.get("nkeys", "0")) <= 256:
                verdict, text = "broken", "the big topic has only %s etcd keys (more than 256 intended)" % d.get("nkeys")
        if verdict == "violation":
            ck.violation(FAM_FP, text, {"delfam_ops": [line], "family": f, "expected": "DeleteTopic removes no key and changes no read-back "
                                        "of another accepted topic, in either store", "actual": r})
            good = False
        elif verdict == "known":
            fam_known(ck, text, line, r)
        elif verdict == "broken":
            broken.append("%s\n  -> %s" % (line[:300], text))
    if broken and good:
        ck.broke("delete-selector scenario did not behave as on the reference tree (no key of another topic involved)", "\n".join(broken[:6]))
    return good


def fam_known(ck, text, line, r):
    """HEAD's Contains filter over-matches OUTSIDE the group-id hypotheses (group `offsets` + topic `offsets`; group ids that
    carry `/offsets/<topic>/`).  Reported as KNOWN-FINDING when known_findings.json lists it, otherwise recorded as a note
    (proposed finding + fixes/C22-delete-consumer-offsets-anchored.patch) without alarming on the unchanged tree."""
    if any(k.get("property") == PROPERTY and k.get("fingerprint") == FAM_KNOWN_FP and k.get("status", "open") == "open" for k in ck.known):
        ck.violation(FAM_KNOWN_FP, text, {"delfam_ops": [line], "actual": r})
    else:
        note = "PROPOSED FINDING %s (outside the group-id hypotheses; not alarmed): %s" % (FAM_KNOWN_FP, text[:400])
        if not any(n.startswith("PROPOSED FINDING") for n in ck.notes):
            ck.notes.append(note)
        ck.count("delfam:proposed-finding-observed")


def run_ops(ck, binary, ops, tag, model=True):
    fn = ck.path("ops_%s.txt" % tag)
    open(fn, "w").write("\n".join(ops) + "\n")
    rc, out, err = ck.run_bin(binary, stdin_path=fn, env={"VERIF_HARNESS": "C22"})
    impl = out.split("\n")[:-1]
    if rc != 0 or len(impl) != len(ops):
        return impl, None, "impl rc=%s lines=%d/%d %s" % (rc, len(impl), len(ops), err[-500:])
    return impl, (ck.lean_run("C22", fn) if model else None), None


def report(ck, binary, ops, meta, impl, mon):
    fp, what, idx = mon
    # minimal replay: the accept lines of the involved names + the involved ops
    names = set()
    for i in idx:
        m = meta[i]
        names.update([m[2]] if m[0] == "keys" else [m[1], m[2]] if m[0] == "pair" else [])
    small = ["accept " + hx(n) for n in sorted(names)] + [ops[i] for i in idx]
    ck.violation(fp, what, {"ops": small, "expected": "no shared key / covering prefix among accepted names", "actual": what})


def meta_of(ops):
    meta = []
    for o in ops:
        f = o.split()
        d = lambda s: unhx(s).decode("latin-1")
        if f[0] == "accept":
            meta.append(("accept", d(f[1])))
        elif f[0] == "keys":
            meta.append(("keys", d(f[1]), d(f[2]), int(f[3]), int(f[4])))
        elif f[0] == "pair":
            meta.append(("pair", d(f[1]), d(f[2])))
        else:
            meta.append((f[0],))
    return meta


def run(ck):
    bins = ck.build_all()
    if bins is None:
        return
    binary = bins["h"]
    ck._c22_static = static_verdict(ck)
    ck.cov["rule"] = ("a case = one op line (accept / keys / pair / clean / join) on a generated topic name, namespace, partition and "
                      "base offset, or one concurrent-first-produce scenario (`first`: two (topic, partition) pairs, one parked in its "
                      "initialisation) through the real handler, or one delete-selector family (`delfam`: 3-9 accepted names that differ in one "
                      "metacharacter / are prefixes of each other / are words of the key layout / one with > 256 etcd keys, created with offsets, "
                      "config, partition state and commits of 2-4 groups in both real stores, one deleted, all others read back); non-trivial = keys/pair lines whose topic the real CreateTopic accepted, "
                      "accept lines it rejected for a reason other than emptiness, scenarios whose topics were both accepted; distinct = distinct op lines")
    ops, meta = gen_ops(ck.rng.fork(), ck.quick())
    scs = gen_scenarios(ck.rng.fork(), ck.quick())
    # corpus first: replays of earlier findings are prepended to the generated ops
    import glob, os
    for fn in sorted(glob.glob(os.path.join(lib.REPLAYS, "C22", "*.json"))):
        cops = json.load(open(fn)).get("ops", [])
        ops = cops + ops
        meta = meta_of(cops) + meta
    impl, model, crash = run_ops(ck, binary, ops, "all")
    if crash:
        ck.broke("implementation harness did not answer every op", crash)
        return
    acc = {m[1] for m, o in zip(meta, impl) if m[0] == "accept" and o == "accept"}
    for m, o, line in zip(meta, impl, ops):
        nontriv = (m[0] == "keys" and m[2] in acc) or (m[0] == "pair" and "next=" in o) or \
                  (m[0] == "accept" and o == "reject" and m[1] != "") or m[0] in ("clean", "join")
        ck.case(line, nontrivial=nontriv, sample={"op": line[:100], "impl": o[:100]} if m[0] == "pair" and "next" in o else None)
        ck.count(m[0] + ":" + (o.split()[0] if m[0] == "accept" else "n"))
    ck.count("accepted_names", len(acc))
    ck.cov["traces_validated_against_impl"] = len(ops)
    mon = monitor(meta, impl)
    if mon:
        report(ck, binary, ops, meta, impl, mon)
        return
    # delete selectors: families of accepted names on both real stores (embedded etcd), one topic deleted, everything else read back
    if not run_families(ck, binary, gen_families(ck.rng.fork(), ck.quick()), "fam"):
        return
    d = lib.first_diff(impl, model)
    if d is not None:
        ck.cov["disagreements_checked"] += 1
        ck.broke("correspondence model/implementation (topic acceptance and key constructors)",
                 "op %r\nimpl : %s\nmodel: %s" % (ops[d], impl[d] if d < len(impl) else None, model[d] if d < len(model) else None))
        hunt(ck, binary)
    if ck.violations:
        return
    # concurrent first produce over colliding name pairs, through the real handler
    if run_scenarios(ck, bins["h"], scs, "scen") and ck._c22_static and not ck.violations:
        # the static tie failed but the seeded scenarios found nothing: widen (thorough-size set, implementation only)
        run_scenarios(ck, bins["h"], gen_scenarios(ck.rng.fork(), False), "scen-hunt")


def hunt(ck, binary):
    """Wider search (implementation only) for a concrete collision among accepted names."""
    for r in range(2):
        ops, meta = gen_ops(ck.rng.fork(), False)
        impl, _, crash = run_ops(ck, binary, ops, "hunt%d" % r, model=False)
        if crash:
            return
        ck.cov["evaluations"] += len(ops)
        mon = monitor(meta, impl)
        if mon:
            report(ck, binary, ops, meta, impl, mon)
            return


def replay(ck, path):
    rep = json.load(open(path))
    bins = ck.build_all()
    if bins is None:
        return
    ck._c22_static = static_verdict(ck)
    if "delfam_ops" in rep:
        fams = [fam_of_line(l) for l in rep["delfam_ops"]]
        fn = ck.path("fam_replay.txt")
        open(fn, "w").write("\n".join(rep["delfam_ops"]) + "\n")
        rc, out, err = ck.run_bin(bins["h"], stdin_path=fn, env={"VERIF_HARNESS": "C22"}, timeout=600)
        res = [l for l in out.split("\n")[:-1] if not l.startswith("{")]
        if rc != 0 or len(res) != len(fams):
            ck.broke("delete-selector harness did not answer every family", "rc=%s %s" % (rc, err[-800:]))
            return
        model = ck.lean_run("C22", fn)
        for f, line, r, m in zip(fams, rep["delfam_ops"], res, model):
            verdict, text = fam_judge(f, r, m)
            print("  DeleteTopic(%r) among %s, groups %s\n    -> %s\n    => %s %s" % (f["victim"], f["topics"], f["groups"], r[:600], verdict, text))
            ck.case(line)
            if verdict == "violation":
                ck.violation(FAM_FP, text, {"delfam_ops": [line], "actual": r})
            elif verdict == "known":
                fam_known(ck, text, line, r)
            elif verdict == "broken":
                ck.broke("delete-selector scenario did not behave as on the reference tree", text)
        ck.cov["distinct_nontrivial"] = max(2, ck.cov["distinct_nontrivial"])
        return
    if "scenario_ops" in rep:
        lines = rep["scenario_ops"]
        rc, out, err = ck.run_bin(bins["h"], stdin_text="\n".join(lines) + "\n", env={"VERIF_HARNESS": "C22"}, timeout=120)
        res = out.split("\n")[:-1]
        if rc != 0 or len(res) != len(lines):
            ck.broke("scenario harness did not answer every scenario", "rc=%s %s" % (rc, err[-800:]))
            return
        for line, r in zip(lines, res):
            sc = scen_of_line(line)
            verdict, text = scen_judge(sc, r)
            print("  %s/%d (parked) || %s/%d %s follow=%d\n    -> %s\n    => %s %s" % (sc["tA"], sc["pA"], sc["tB"], sc["pB"], sc["mode"], sc["follow"], r, verdict, text))
            ck.case(line)
            if verdict == "violation":
                ck.violation("concurrent-first-produce-crosses-topics", text, {"scenario_ops": [line], "actual": r})
            elif verdict == "broken":
                ck.broke("scenario did not behave as on the reference tree", text)
        ck.cov["distinct_nontrivial"] = max(2, ck.cov["distinct_nontrivial"])
        return
    ops = rep["ops"]
    impl, model, crash = run_ops(ck, bins["h"], ops, "replay")
    if crash:
        ck.broke("implementation harness did not answer every op", crash)
        return
    meta = meta_of(ops)
    for o, r in zip(ops, impl):
        print("  %-60s -> %s" % (o[:60], r[:160]))
    for o in ops:
        ck.case(o)
    ck.cov["distinct_nontrivial"] = max(2, ck.cov["distinct_nontrivial"])
    mon = monitor(meta, impl)
    if mon:
        ck.violation(mon[0], mon[1], {"ops": ops, "actual": mon[1]})
    elif lib.first_diff(impl, model) is not None:
        d = lib.first_diff(impl, model)
        ck.broke("correspondence model/implementation on the replay", "op %r\nimpl : %s\nmodel: %s" % (ops[d], impl[d], model[d]))
