"""C08 — point-in-time restore copies an exact, valid prefix or nothing."""
import json
import struct

from checks import lib
from checks import C07shared as S

PROPERTY = "C08"
LEAN_MODULES = ["KafVerif.Props.C08", "KafVerif.Model.KafkaPitrDriver"]
OBLIGATIONS = [
    "KafVerif.C08.scanLoop_keeps_prefix",
    "KafVerif.C08.rewritten_batch_is_encoding",
    "KafVerif.C08.truncate_batch",
    "KafVerif.C08.collect_batches",
    "KafVerif.C08.restored_records_exact_prefix",
    "KafVerif.C08.restore_fail_clean",
    "KafVerif.C08.last_candidate_spec",
    "KafVerif.C08.restore_run_exact",
    "KafVerif.C08.cutoff_is_floor",
    "KafVerif.C08.candidate_after_is_floor",
    "KafVerif.C08.restored_prefix_cut_at_time",
    "KafVerif.C08.restore_run_exact_at",
    "KafVerif.C08.collect_hdr_true",
    "KafVerif.C08.restore_again_identity",
    "KafVerif.C08.restore_again_earlier",
]
ASSUMPTIONS = [
    "S3 contract: a call either fails without effect or takes effect atomically on one object; the i-th call of a run fails iff i is in the fault set (every call index is explored); delete failures are allowed and then the clean-up claim is void, as the property says",
    "object keys are abstract (topic, partition, base offset) triples in the model; key formatting/parsing is exercised through the real code only",
    "source batches are well formed: firstTimestamp is the first record's timestamp and maxTimestamp the maximum (the scanner trusts these header fields for whole-batch decisions)",
    "CRC-32C is a parameter of the theorems",
    "the restore time is a Go time.Time without monotonic reading: (seconds since the epoch, floored; nsec in [0, 1e9)), as time.Unix / time.UnixMilli / time.Parse build it; int64 overflow of UnixMilli (|t| > 292 million years) is outside the model",
    "restore_run_exact: the store is a map (distinct object keys), the target topic is empty before the run, and every source-topic segment object is BuildSegment of a non-empty list of well-formed uncompressed batches stored under the base offset of its first batch (what the broker writes); the allocator admits one copy of a segment body",
]
BUILDS = {
    "root": ("root", "./cmd/verif_c07", ["C07"]),
    "pitr": ("root", "./cmd/verif_c08", ["C07", "C08"]),
}
LEVEL_TEXT = ("proof: Lean 4 theorems over a model of RecoverTopicToTimestamp (candidate selection, copy loop, rollback defer) on an S3 "
              "object map with a fault oracle, and of truncateRecordBatchToTimestamp/scanRecord/collectRecoverableBatches at byte level; "
              "the restore time as a Go time.Time (nanoseconds; UnixMilli = floor, After); "
              "tied to the code by correspondence of result + target objects on generated histories x fault positions x restore times with "
              "sub-millisecond fractions, incl. restoring the restored topic again")
LEVEL_NOTE = ("byte level, object level and their composition over a whole multi-partition run with an arbitrary fault set are "
              "proved (restore_run_exact: target objects = whole copies before the last candidate + BuildSegment of the kept "
              "batches, decodable records = source records up to the first one later than T; failure + successful deletes = "
              "empty target); the cutoff is the floor of the restore time for every time.Time (cutoff_is_floor, also before 1970) and the "
              "kept batches carry true headers again (collect_hdr_true), so restoring again is the identity at T2 >= T and equals restoring "
              "the source at T' <= T (batch level); the record-level part assumes uncompressed broker-written source segments")
TECHNIQUE = "lean4-proof + differential correspondence (fake S3 with fault oracle) + direct byte-level monitor of the target objects"

T0 = 1700000100000
M = 10 ** 6          # nanoseconds per millisecond
# sub-millisecond part of the restore time, in ns: the record cutoff is floor(T) whatever the fraction
FRACS = [0, 1, 499000, 499999, 500000, 500001, 501000, 999000, 999999]


# ----------------------------------------------------------------------------- generation
def ooo_timestamps(rng, T):
    """Record timestamps of ONE batch that go backwards inside the batch and that a cut at T splits in the middle:
    >= 2 kept records whose LAST one is below the running maximum, then the first record later than T, then maybe
    records that are <= T again (they follow the cut, so they must not be restored)."""
    k = rng.choice([2, 2, 3, 4])
    first = T - rng.choice([0, 1, 5, 100])
    kept = [first]
    for _ in range(1, k):
        kept.append(rng.choice([T, T - 1, T - 2, first - 1, first - 20, first + (T - first) // 2]))
    kept[-1] = max(kept[:-1]) - rng.choice([1, 3, 1000])
    out = kept + [T + rng.choice([1, 2, 1000])]
    for _ in range(rng.choice([0, 0, 1, 2])):
        out.append(rng.choice([T, T - 5, T + 3, first - 1]))
    return out


def gen_partition(rng, T):
    """Segments of one partition as case dicts for the `build` op, plus created times."""
    nseg = rng.choice([1, 1, 2, 2, 3, 4])
    base = rng.choice([0, 0, 5, 1000])
    ts = T - rng.choice([0, 1, 50, 500, 5000, 100000])
    segs = []
    # timestamps are producer-assigned, so a batch wholly later than T may be followed by batches at or before T (several
    # producers, clock skew): `gap` forces that layout in the partition's last segment, `regress` sprinkles it anywhere;
    # `ooo`: timestamps go backwards INSIDE the batch that is cut; `nextms`: records stamped T and T+1 ms next to each other
    layout = rng.choice(["-", "-", "gap", "edge", "ooo", "nextms"])
    gap = layout != "-"
    for si in range(nseg):
        nb = rng.choice([1, 1, 2, 3])
        forced = None
        if layout == "gap" and si == nseg - 1:
            # wholly later than T in the middle, at or before T after it
            forced = [(T - rng.choice([1, 40, 200]), "any"), (T + rng.choice([1, 5, 1000]), "any"), (T - rng.choice([0, 3, 30]), "flat")]
            if rng.chance(1, 2):
                forced.append((T - rng.choice([0, 2]), "flat"))
        elif layout == "edge" and si == nseg - 1:
            # a batch whose newest record is exactly at T, followed by more records at or before T, then (maybe) later ones
            forced = [(T - rng.choice([1, 7, 300]), "maxT"), (T - rng.choice([0, 0, 1]), "flat")]
            if rng.chance(1, 2):
                forced.append((T - rng.choice([0, 1]), "maxT"))
            if rng.chance(1, 2):
                forced.append((T + rng.choice([1, 100]), "any"))
        elif layout == "ooo" and si == nseg - 1:
            forced = [(T - rng.choice([2, 60]), "flat")] if rng.chance(1, 2) else []
            forced.append((T, "ooo"))
            if rng.chance(1, 3):
                forced.append((T - rng.choice([0, 4]), "flat"))
        elif layout == "nextms" and si == nseg - 1:
            if rng.chance(1, 2):
                forced = [(T - rng.choice([1, 9]), "maxT"), (T + 1, "flat")]       # batch boundary between T and T+1
            else:
                forced = [(T, "ms")]                                               # T and T+1 inside one batch
            if rng.chance(1, 2):
                forced.insert(0, (T - rng.choice([1, 30]), "flat"))
        if forced is not None:
            nb = len(forced)
        batches = []
        for bi in range(nb):
            mode = "any"
            if forced is not None:
                ts, mode = forced[bi]
            explicit = None
            if mode == "ooo":
                explicit = ooo_timestamps(rng, T)
            elif mode == "ms":
                seq = [T - 1, T, T, T + 1, T + 1, T + 2]
                explicit = seq[rng.choice([0, 1, 2]):rng.choice([4, 5, 6])]
            if explicit is not None:
                ts, n = explicit[0], len(explicit)
            else:
                n = rng.choice([1, 2, 3, 4]) if mode != "maxT" else rng.choice([2, 3, 4])
            recs, od, last_ts = [], 0, ts
            for i in range(n):
                if explicit is not None:
                    tsd = explicit[i] - ts
                elif i == 0 or mode == "flat":
                    tsd = 0
                elif mode == "maxT":
                    tsd = T - ts if i == n - 1 else rng.choice([0, (T - ts) // 2, T - ts])
                else:
                    step = rng.choice([0, 1, 1, 10, 100, 1000, -1, -20, T - ts, T - ts + 1, T - ts - 1])
                    tsd = (last_ts - ts) + step
                last_ts = ts + tsd
                recs.append({"attrs": 0, "tsd": tsd, "od": od, "key": S.gen_bytes(rng, maxlen=6), "val": S.gen_bytes(rng, maxlen=10),
                             "hdrs": [(b"h", b"v")] if rng.chance(1, 5) else []})
                od += 1 if rng.chance(7, 8) else 2
            b = {"base": base, "first": ts, "lod": recs[-1]["od"], "max": max(ts + r["tsd"] for r in recs), "recs": recs}
            batches.append(b)
            base += b["lod"] + 1
            ts = max(ts, last_ts) + rng.choice([0, 1, 10, 100, 1000])
            if rng.chance(1, 8):
                ts = T - rng.choice([0, 1, 30, 400])              # regress: back to (or before) the cutoff
        hi = max(b["max"] for b in batches)
        created = rng.choice([hi, hi + 1, hi + 1000, T, T + 1, T - 1, T + 100000, T - 100000])
        if gap and si < nseg - 1:
            created = T - rng.choice([1, 100000])                 # earlier segments are copied whole: the gap segment is the last candidate
        segs.append({"interval": rng.choice([1, 2, 100]), "created": created, "batches": batches})
    return segs


def gen_case(rng):
    T = T0
    parts = sorted(set(rng.choice([0, 1, 2, 10]) for _ in range(rng.choice([1, 1, 2, 3]))))
    c = {"T": T, "parts": {p: gen_partition(rng, T) for p in parts}}
    k = rng.below(8)
    c["allowed"] = "*" if k < 5 else ",".join(str(x) for x in sorted(set([rng.choice(parts), rng.choice([0, 1, 7])])))
    c["quirk"] = rng.choice(["none"] * 8 + ["no-index", "bad-magic", "short", "target-exists", "orphan-target-index", "compressed-last", "unrelated"])
    # the restore time is a time.Time: T ms plus a sub-millisecond fraction (records are generated around floor = T)
    frac = rng.choice([0, 0, 0] + FRACS)
    c["Tns"] = T * M + frac
    c["nsform"] = frac != 0 or rng.chance(1, 2)
    return c


def plain_batch(base, tss):
    """A batch with the given absolute record timestamps (first record = first timestamp, offsets contiguous)."""
    recs = [{"attrs": 0, "tsd": t - tss[0], "od": i, "key": b"k%d" % i, "val": b"v%d" % (base + i), "hdrs": []} for i, t in enumerate(tss)]
    return {"base": base, "first": tss[0], "lod": len(tss) - 1, "max": max(tss), "recs": recs}


def fixed_case(Tns, segs, tag):
    return {"T": Tns // M, "Tns": Tns, "nsform": True, "parts": {0: segs}, "allowed": "*", "quirk": "none", "fixed": tag}


def frac_matrix():
    """Restore times with every sub-millisecond fraction of FRACS, after 1970, at the epoch and before it (floor F < 0), against
    records stamped F-1, F, F+1, F+2 ms — inside one batch and with the batch boundary between F and F+1 — and a last
    candidate created at F+1 ms (later than T for every fraction) that is not the last segment."""
    out = []
    for F in [T0, 0, -1, -3]:
        for frac in FRACS:
            Tns = F * M + frac
            first = {"interval": 1, "created": F - 1, "batches": [plain_batch(0, [F - 2, F - 1])]}
            inside = [first,
                      {"interval": 1, "created": F + 1, "batches": [plain_batch(2, [F - 1, F, F + 1, F + 2])]},
                      {"interval": 1, "created": F + 5, "batches": [plain_batch(6, [F + 3])]}]
            bound = [first,
                     {"interval": 2, "created": F, "batches": [plain_batch(2, [F - 1, F]), plain_batch(4, [F + 1, F + 2])]}]
            out.append(fixed_case(Tns, inside, "frac-inside"))
            out.append(fixed_case(Tns, bound, "frac-boundary"))
    return out


def created_matrix():
    """3 and 4 segments of one partition with EVERY pattern of creation times later / not later than T in offset order (the
    creation time of a segment is whatever clock the writing broker had: not monotone in offset order).  The last candidate
    is the FIRST segment created later than T; everything after it must not be copied."""
    out = []
    T = T0
    for n in (3, 4):
        for bits in range(2 ** n):
            segs, base = [], 0
            for i in range(n):
                late = (bits >> i) & 1
                created = (T + 1 + 1000 * ((i * 7) % 4)) if late else (T - 1000 * ((i * 5) % 3))
                segs.append({"interval": 1, "created": created, "batches": [plain_batch(base, [T - 40 + i, T - 1, T + 2 + i])]})
                base += 3
            out.append(fixed_case(T * M + (999999 if bits % 3 == 0 else 0), segs, "created-%d" % n))
    return out


def ooo_matrix():
    """One batch of n = 2..5 records cut at every position k = 1..n-1 (k records kept), the kept timestamps going backwards
    in three ways (running maximum first / in the middle / last kept below the first timestamp); after the first record later
    than T the batch goes on with records <= T and > T alternating."""
    out = []
    T = T0
    for n in range(2, 6):
        for k in range(1, n):
            for pat in ("desc", "peak", "dip"):
                if pat == "desc":
                    kept = [T - 1 - i for i in range(k)]
                elif pat == "peak":
                    kept = [T - 10] + [T - 5 * i for i in range(k - 1)]
                else:
                    kept = [T - 10] + [T - 3 - 20 * i for i in range(k - 1)]
                tss = kept + [T + 1] + [(T - 1 if i % 2 == 0 else T + 5) for i in range(n - k - 1)]
                batches = [plain_batch(100, tss)]
                if (n + k) % 2:
                    batches.insert(0, plain_batch(97, [T - 50, T - 60, T - 40]))
                segs = [{"interval": 1, "created": T - 1000, "batches": [plain_batch(batches[0]["base"] - 2, [T - 500, T - 400])]},
                        {"interval": (1 if k % 2 else 100), "created": T + 7, "batches": batches}]
                out.append(fixed_case(T * M + (300000 if pat == "peak" else 0), segs, "ooo-%s" % pat))
    return out


def patch_compressed(seg):
    """Mark the last batch of a segment as gzip-compressed (attributes |= 1), fix its CRC and the footer CRC."""
    body = bytearray(seg[32:-16])
    fr, _ = S.frames(bytes(body))
    pos, f = fr[-1]
    f = bytearray(f)
    f[22] |= 1
    f[17:21] = struct.pack(">I", S.crc32c(bytes(f[21:])))
    body[pos:pos + len(f)] = f
    foot = bytearray(seg[-16:])
    foot[0:4] = struct.pack(">I", S.crc32c(bytes(body)))
    return seg[:32] + bytes(body) + bytes(foot)


def materialise(ck, bins, cases):
    """Build every source segment with the real BuildSegment; returns per case the object list."""
    ops, where = [], []
    for ci, c in enumerate(cases):
        for p, segs in c["parts"].items():
            for si, s in enumerate(segs):
                ops.append(S.build_op(s["interval"], s["created"], s["batches"]))
                where.append((ci, p, si))
    built, _ = S.run_harness(ck, bins["root"], ops, "mat")
    for (ci, p, si), line in zip(where, built):
        f = S.kv(line)
        cases[ci]["parts"][p][si]["seg"] = S.unhex(f["seg"])
        cases[ci]["parts"][p][si]["idx"] = S.unhex(f["idx"])
        cases[ci]["parts"][p][si]["base"] = int(f["base"])
    for c in cases:
        objs = []          # (topic, part, base, seg|None, idx|None)
        plist = sorted(c["parts"])
        for p in plist:
            for s in c["parts"][p]:
                objs.append([0, p, s["base"], s["seg"], s["idx"]])
        q = c["quirk"]
        if q == "no-index":
            objs[-1][4] = None
        elif q == "bad-magic":
            objs[0][3] = b"KAFX" + objs[0][3][4:]
        elif q == "short":
            objs[-1][3] = objs[-1][3][:10]
        elif q == "target-exists":
            objs.append([1, plist[0], 0, objs[0][3], objs[0][4]])
        elif q == "orphan-target-index":
            objs.append([1, plist[0], 777, None, b"IDX\x00junk"])
        elif q == "compressed-last":
            objs[-1][3] = patch_compressed(objs[-1][3])
        elif q == "unrelated":
            objs.append([2, 0, 0, objs[0][3], objs[0][4]])
        objs.sort(key=list_key)
        c["objs"] = objs


def list_key(o):
    """listing order of the fake S3 = lexicographic key order"""
    return "ns/%s/%d/segment-%020d" % (["src", "dst", "zzz"][o[0]], o[1], o[2])


def time_token(c):
    """the restore time on the wire: whole milliseconds (`time.UnixMilli`), or `<ns>ns` (`time.Unix(0, ns)`)"""
    return "%dns" % c["Tns"] if c.get("nsform") else str(c["T"])


def restore_op(c, fails):
    t = ["restore", time_token(c), c["allowed"], ",".join(str(f) for f in fails) or "-"]
    for topic, p, base, seg, idx in c["objs"]:
        t += ["OBJ", str(topic), str(p), str(base), S.tokb(seg), S.tokb(idx)]
    return " ".join(t)


# ----------------------------------------------------------------------------- the property, evaluated on bytes
def seg_records(seg):
    """[(offset, ts, raw, frame_index)] of a segment, or None if a batch is compressed/unparseable; plus frames."""
    body = seg[32:-16]
    fr, _ = S.frames(body)
    out = []
    for k, (_, f) in enumerate(fr):
        base, first = struct.unpack(">q", f[0:8])[0], struct.unpack(">q", f[27:35])[0]
        attrs = struct.unpack(">h", f[21:23])[0]
        if attrs & 7:
            return None, fr
        for od, tsd, raw in S.batch_records_raw(f):
            out.append((base + od, first + tsd, raw, k))
    return out, fr


def batch_valid(f):
    """length / count / lastOffsetDelta / maxTimestamp / CRC of one batch frame."""
    if len(f) < 61:
        return "batch shorter than its header"
    blen = struct.unpack(">I", f[8:12])[0]
    if blen != len(f) - 12:
        return "batchLength %d but frame has %d bytes after the length field" % (blen, len(f) - 12)
    crc = struct.unpack(">I", f[17:21])[0]
    if crc != S.crc32c(f[21:]):
        return "batch CRC %08x, computed %08x" % (crc, S.crc32c(f[21:]))
    lod, first, mx = struct.unpack(">iqq", f[23:43])
    cnt = struct.unpack(">i", f[57:61])[0]
    if struct.unpack(">h", f[21:23])[0] & 7:
        return None
    try:
        recs = S.batch_records_raw(f)
    except ValueError:
        return "records do not parse"
    used = 61 + sum(len(r[2]) for r in recs)
    if len(recs) != cnt or used != len(f):
        return "record count %d but %d records / %d of %d bytes parse" % (cnt, len(recs), used, len(f))
    if recs and lod != recs[-1][0]:
        return "lastOffsetDelta %d but last record delta %d" % (lod, recs[-1][0])
    if recs and mx != max(first + r[1] for r in recs):
        return "maxTimestamp %d but records reach %d" % (mx, max(first + r[1] for r in recs))
    return None


def expected_targets(c):
    """(expected {(part, base): (seg, idx)} for whole-copied segments, {(part): spec of the final segment}, expect_error)"""
    whole, final = {}, {}
    allowed = None if c["allowed"] == "*" else set(int(x) for x in c["allowed"].split(","))
    src = [o for o in c["objs"] if o[0] == 0 and o[3] is not None]
    by = {}
    for o in src:
        by.setdefault(o[1], []).append(o)
    for p, objs in by.items():
        if allowed is not None and p not in allowed:
            continue
        objs = sorted(objs, key=lambda o: o[2])
        created = [struct.unpack(">q", o[3][20:28])[0] if len(o[3]) >= 32 else 0 for o in objs]
        L = next((i for i, cr in enumerate(created) if cr * M > c["Tns"]), len(objs) - 1)     # created later than the instant T
        for o in objs[:L]:
            whole[(p, o[2])] = (o[3], o[4])
        final[p] = objs[L]
    return whole, final


STATS = {}


def final_kinds(c):
    """{partition: how the last candidate of a selected partition is cut at the instant T} — from the source objects alone
    (`?` when the segment holds a compressed batch)."""
    kinds = {}
    for p, o in expected_targets(c)[1].items():
        recs, _ = seg_records(o[3])
        if recs is None:
            kinds[p] = "?"
            continue
        n = next((i for i, r in enumerate(recs) if r[1] * M > c["Tns"]), len(recs))
        kinds[p] = ("final:nothing-kept" if n == 0 else "final:kept-whole" if n == len(recs) else
                    "final:cut-inside-batch" if recs[n - 1][3] == recs[n][3] else "final:cut-at-batch-boundary")
    return kinds


def parse_target(f):
    tgt = {}
    if f.get("target", "-") != "-":
        for ent in f["target"].split(";"):
            p, b, sh, ih = ent.split("/")
            tgt[(int(p), int(b))] = (None if sh == "N" else S.unhex(sh), None if ih == "N" else S.unhex(ih))
    return tgt


def monitor(c, line, fails):
    """Direct evaluation of the C08 statement on the implementation's answer.  Returns [(fingerprint, what)].
    `later than T` is evaluated on instants: a millisecond stamp ts is later than the restore time iff ts * 10^6 > T_ns."""
    out = []
    f = S.kv(line)
    if "res" not in f:
        return [("restore-crashed", "RecoverTopicToTimestamp answered %r" % line[:60])]
    tgt = parse_target(f)
    initial_tgt = {(o[1], o[2]): (o[3], o[4]) for o in c["objs"] if o[0] == 1}
    if f["srcsame"] != "1":
        out.append(("restore-touched-other-objects", "objects outside the target topic changed or odd keys appeared under the target"))
    if f["res"] != "ok":
        if f["delfail"] == "0" and tgt != initial_tgt:
            out.append(("failed-restore-leaves-target-objects",
                        "restore failed, every delete succeeded, yet the target topic holds %s" % sorted(k for k in tgt if k not in initial_tgt)))
        return out
    if initial_tgt and any(v[0] is not None for v in initial_tgt.values()):
        out.append(("restore-into-nonempty-target", "restore succeeded although the target already had segments"))
        return out
    whole, final = expected_targets(c)
    seen = set()
    for key, (seg, idx) in whole.items():
        seen.add(key)
        if tgt.get(key) != (seg, idx):
            out.append(("whole-segment-copy-differs", "segment %s before the final candidate is not byte-identical in the target (or missing)" % (key,)))
    for p, o in final.items():
        recs, fr = seg_records(o[3])
        T = c["Tns"] // M            # only for the header-level reasoning about opaque (compressed) batches below
        if recs is None:
            # compressed batch inside: whole batches may be kept on header timestamps; a cut inside one must fail
            metas = [(struct.unpack(">q", x[27:35])[0], struct.unpack(">q", x[35:43])[0]) for _, x in fr]
            if any(first <= T < mx for first, mx in metas[:next((i for i, m in enumerate(metas) if m[0] > T), len(metas))]):
                comp_cut = [i for i, (first, mx) in enumerate(metas) if first <= T < mx]
                k = comp_cut[0]
                if struct.unpack(">h", fr[k][1][21:23])[0] & 7:
                    out.append(("compressed-batch-cut", "restore succeeded although the cut falls inside a compressed batch"))
            seen.update(k for k in tgt if k[0] == p)      # opaque batches: record-level comparison not possible
            continue
        kept = []
        for r in recs:
            if r[1] * M > c["Tns"]:
                break
            kept.append(r)
        cand = [k for k in tgt if k[0] == p and k not in whole and tgt[k] != initial_tgt.get(k)]
        kind = ("final:nothing-kept" if not kept else "final:kept-whole" if len(kept) == len(recs) else
                "final:cut-inside-batch" if kept[-1][3] == recs[len(kept)][3] else "final:cut-at-batch-boundary")
        STATS[kind] = STATS.get(kind, 0) + 1
        if not kept:
            if cand:
                out.append(("restored-records-not-a-prefix", "partition %d: no record of the final segment is <= T but objects %s were written" % (p, cand)))
            continue
        first_base = struct.unpack(">q", fr[kept[0][3]][1][0:8])[0]
        key = (p, first_base)
        seen.add(key)
        if key not in tgt or tgt[key][0] is None or tgt[key][1] is None:
            out.append(("final-segment-missing", "partition %d: truncated final segment %s (or its index) missing in the target" % (p, key)))
            continue
        tseg, tidx = tgt[key]
        if len(tseg) < 48:
            out.append(("final-segment-invalid", "truncated segment too small"))
            continue
        trecs, tfr = seg_records(tseg)
        bad = None
        for _, x in tfr:
            bad = bad or batch_valid(x)
        if bad:
            out.append(("rewritten-batch-invalid", "partition %d: rewritten batch invalid: %s" % (p, bad)))
        if trecs is not None and not bad:
            # the header of every restored batch must tell the truth about the records it now holds (max recomputed over the
            # KEPT records; nothing later than T announced or contained): a later scan trusts these fields
            for k, (_, x) in enumerate(tfr):
                first, mx = struct.unpack(">qq", x[27:43])
                mine = [r[1] for r in trecs if r[3] == k]
                if mine and (mx != max(mine) or mx * M > c["Tns"]):
                    out.append(("restored-batch-header-untrue",
                                "partition %d: restored batch %d announces max timestamp %d but holds records stamped %s (T = %d ns)"
                                % (p, k, mx, mine[:6], c["Tns"])))
                    break
        if trecs is None or [(r[0], r[2]) for r in trecs] != [(r[0], r[2]) for r in kept]:
            got = "unparseable" if trecs is None else "%d records, offsets %s" % (len(trecs), [r[0] for r in trecs][:8])
            out.append(("restored-records-not-a-prefix",
                        "partition %d: final segment must hold exactly the %d records before the first one later than T (offsets %s), got %s"
                        % (p, len(kept), [r[0] for r in kept][:8], got)))
        else:
            metas = []
            for _, x in tfr:
                metas.append((struct.unpack(">q", x[0:8])[0], struct.unpack(">i", x[23:27])[0], struct.unpack(">i", x[57:61])[0]))
            iv = struct.unpack(">i", o[4][10:14])[0] if o[4] and len(o[4]) >= 16 else 1
            wf = S.segment_wf(tseg, tidx, iv, metas)
            if wf:
                out.append(("final-" + wf[0], "partition %d: rewritten segment/index: %s" % (p, wf[1])))
            if tseg[20:28] != o[3][20:28]:
                out.append(("final-segment-created-changed", "rewritten segment does not keep the source creation time"))
    extra = [k for k in tgt if k not in seen and tgt[k] != initial_tgt.get(k)]
    if extra:
        out.append(("restore-wrote-extra-objects", "target holds objects beyond the expected prefix: %s" % extra))
    return out


# ----------------------------------------------------------------------------- run
def run_ops(ck, bins, ops, tag, model=True):
    impl, calls = S.run_harness(ck, bins["pitr"], ops, tag)
    mod = S.run_model(ck, "C08", "root", ops, tag) if model else None
    return impl, calls, mod


AGAIN_OK = ("none", "unrelated")


def again_times(c, tgt, rng, level):
    """Restore times (ns) for restoring the restored topic again: the same time, earlier ones placed on / just before the
    timestamps of the records that were restored from final segments (so that a batch rewritten by the first restore is cut
    again, or kept on its header), and a later one."""
    stamps = set()
    for (p, b), (seg, idx) in tgt.items():
        if seg is None or len(seg) < 48:
            continue
        recs, _ = seg_records(seg)
        for r in (recs or [])[-6:]:
            stamps.add(r[1])
    T = c["Tns"] // M
    earlier = sorted(set(x for t in stamps for x in (t * M, t * M - 1, t * M + 500000) if x < c["Tns"] and x // M >= T - 100))
    later = [c["Tns"] + rng.choice([1, 499999, M, 5000 * M])]
    if level == "all":
        if len(earlier) > 6:
            earlier = sorted(set(rng.choice(earlier) for _ in range(6)))
        return [c["Tns"]] + earlier + later
    if level == "stamps":                      # on every restored timestamp below T (whole milliseconds)
        return [c["Tns"]] + [x for x in earlier if x % M == 0]
    pick = [c["Tns"]]
    if earlier:
        pick.append(rng.choice(earlier))
    if rng.chance(1, 3):
        pick += later
    return pick


def again_case(c, tgt, Tns):
    """The restored topic as the source of another restore at `Tns`."""
    objs = sorted(([0, p, b, seg, idx] for (p, b), (seg, idx) in tgt.items()), key=list_key)
    return {"T": Tns // M, "Tns": Tns, "nsform": True, "allowed": c["allowed"], "quirk": "again", "objs": objs}


def by_part(tgt, p):
    return sorted((k, v) for k, v in tgt.items() if k[0] == p)


def run(ck):
    bins = ck.build_all()
    if bins is None:
        return
    ncase = 32 if ck.quick() else 160
    ck.cov["rule"] = ("histories = 1-3 partitions x 1-4 broker-built segments x 1-3 batches x 1-4 records with timestamps placed around T "
                      "(equal, +-1, non-monotone inside a batch and across batches: a batch wholly later than T followed by batches <= T; a batch whose newest record is exactly at T followed by more records <= T; "
                      "record timestamps going backwards inside the batch that is cut; records stamped T and T+1 ms side by side), "
                      "restore times with a sub-millisecond fraction (0, 1 ns, 499/500/501/999 us, +-1 ns around them) after and before 1970, "
                      "segment creation times before/at/after T (non-monotone in offset order), partition filters, and quirks (missing index, "
                      "bad magic, short object, pre-existing target, orphan target index, compressed final batch, unrelated topic); fixed streams: "
                      "every fraction x {2023, epoch, before 1970} x {T|T+1 inside a batch, at a batch boundary}; one batch of 2-5 records with "
                      "backward timestamps cut at every position; each random history is run fault-free and with a failure injected at S3 call "
                      "indices (quick: 6 sampled incl. first/last upload and a delete; thorough: every index + pairs); every successfully "
                      "restored topic is restored again at the same, earlier and later times (monitor + laws: identity at T2 >= T, equal to "
                      "restoring the source at T' < T); non-trivial = at least one record bytes cut or a fault hit; distinct = distinct restore ops")
    ck.partial = ("proved as one theorem (restore_run_exact, restore_run_exact_at for a time.Time with nanoseconds) for every store whose "
                  "source-topic segment objects are broker-written "
                  "from uncompressed well-formed batches with true header timestamps, every cutoff, partition filter and S3 fault "
                  "set; not covered by the theorem (checked by correspondence + byte-level monitor only): source segments that "
                  "contain compressed batches (opaque at record level: kept whole on header timestamps or the restore fails), the "
                  "per-partition summaries returned to the caller, and the string form of object keys (C22); restoring a restored "
                  "topic again is proved at batch level (collect_hdr_true, restore_again_identity, restore_again_earlier), the "
                  "object-level laws are checked on the implementation only")
    cases = [gen_case(ck.rng.fork()) for _ in range(ncase)]
    nrandom = len(cases)
    cases += frac_matrix() + ooo_matrix() + created_matrix()
    materialise(ck, bins, cases)
    base_ops = [restore_op(c, []) for c in cases]
    impl0, calls0, _ = run_ops(ck, bins, base_ops, "p0", model=False)
    # --- restoring the restored topic again (and the source at the earlier time, for the law)
    derived = []        # (case, kind, link) ; kind: "again" (link = (ci, Tns)), "source-earlier"
    laws = []           # (ci, T2ns, index of the again op in derived, index of the source-earlier op or None)
    for ci, (c, line) in enumerate(zip(cases, impl0)):
        f = S.kv(line)
        if f.get("res") != "ok" or c["quirk"] not in AGAIN_OK:
            continue
        tgt = parse_target(f)
        if not tgt or any(v[0] is None or v[1] is None for v in tgt.values()):
            continue
        fixed = c.get("fixed", "")
        if ck.quick() and ((ci < nrandom and not ck.rng.chance(2, 3)) or
                           (fixed.startswith("frac") and not (fixed == "frac-inside" and c["T"] == T0)) or
                           fixed.startswith("created")):
            continue
        level = "all" if not ck.quick() else "stamps" if fixed.startswith("ooo") else "sample"
        for T2 in again_times(c, tgt, ck.rng, level):
            if fixed.startswith("frac") and T2 != c["Tns"] and ck.quick():
                continue
            derived.append(again_case(c, tgt, T2))
            third = None
            if T2 < c["Tns"]:
                derived.append(dict(c, T=T2 // M, Tns=T2, nsform=True, fixed="", quirk=c["quirk"]))
                third = len(derived) - 1
                laws.append((ci, T2, third - 1, third))
            else:
                laws.append((ci, T2, len(derived) - 1, None))
    ops, owner, fl = [], [], []
    for ci, (c, n) in enumerate(zip(cases, calls0)):
        ops.append(base_ops[ci]); owner.append(c); fl.append([])
        if n <= 0 or ci >= nrandom:
            continue
        if ck.quick():
            idxs = sorted(set([0, 1, n - 1, n - 2, ck.rng.below(n), ck.rng.below(n), ck.rng.below(n)]))
        else:
            idxs = list(range(n))
        for i in idxs:
            if i < 0:
                continue
            fails = [i]
            k = ck.rng.below(6)
            if k == 0:
                fails.append(n + ck.rng.below(4))          # also fail one rollback delete
            elif k == 1:
                fails.append(ck.rng.below(n))
            ops.append(restore_op(c, sorted(set(fails)))); owner.append(c); fl.append(sorted(set(fails)))
    dbase = len(ops)
    for c in derived:
        ops.append(restore_op(c, [])); owner.append(c); fl.append([])
    impl, calls, mod = run_ops(ck, bins, ops, "p1")
    for op, c, fails, line in zip(ops, owner, fl, impl):
        f = S.kv(line)
        ck.count("res:" + f.get("res", "?"))
        if f.get("delfail") == "1":
            ck.count("delete-failed")
        if fails:
            ck.count("with-faults")
        if c["quirk"] == "again":
            ck.count("restored-topic-restored-again")
        if c["Tns"] % M:
            ck.count("restore-time-with-submillisecond-fraction")
        if c["Tns"] < 0:
            ck.count("restore-time-before-1970")
        cut = f.get("res") == "ok" and f.get("target", "-") != "-"
        ck.case(op, nontrivial=bool(cut or (fails and f.get("res") == "err")),
                sample={"op": op[:200], "impl": line[:200]})
        ck.cov["traces_validated_against_impl"] += 1
        for fp, what in monitor(c, line, fails):
            ck.violation(fp, what, {"op": op, "case_quirk": c["quirk"], "actual": what, "impl": line[:2000]})
    # --- the laws of restoring again, per selected partition in which the first restore kept a record of the last candidate
    for ci, T2, i2, i3 in laws:
        c = cases[ci]
        kinds = final_kinds(c)
        f1, f2 = S.kv(impl0[ci]), S.kv(impl[dbase + i2])
        if f2.get("res") != "ok":
            ck.violation("restore-again-fails", "restoring the restored topic again at %d ns fails (first restore at %d ns succeeded)" % (T2, c["Tns"]),
                         {"op": ops[dbase + i2], "first_op": base_ops[ci], "actual": impl[dbase + i2][:500]})
            continue
        t1, t2 = parse_target(f1), parse_target(f2)
        for p, kind in kinds.items():
            if kind in ("?", "final:nothing-kept"):
                continue
            if i3 is None:
                ck.count("law:again-at-same-or-later-time-is-identity")
                if by_part(t2, p) != by_part(t1, p):
                    ck.violation("restore-again-not-identity",
                                 "partition %d: restoring the restored topic again at %d ns (>= the first restore time %d ns) does not "
                                 "reproduce it byte for byte" % (p, T2, c["Tns"]),
                                 {"op": ops[dbase + i2], "first_op": base_ops[ci], "actual": "target differs from the restored topic"})
            else:
                f3 = S.kv(impl[dbase + i3])
                ck.count("law:again-at-earlier-time-equals-source-at-that-time")
                if f3.get("res") != "ok" or by_part(t2, p) != by_part(parse_target(f3), p):
                    ck.violation("restore-again-earlier-differs",
                                 "partition %d: restoring (the topic restored at %d ns) at the earlier %d ns differs from restoring the source at %d ns"
                                 % (p, c["Tns"], T2, T2),
                                 {"op": ops[dbase + i2], "first_op": base_ops[ci], "source_op": ops[dbase + i3],
                                  "actual": "target of the second restore differs from the target of the direct restore"})
    for k, v in STATS.items():
        ck.count(k, v)
    for c in cases:
        ck.count("case:" + (c.get("fixed") or "random").split("-")[0])
    d = lib.first_diff(impl, mod)
    if d is not None:
        ck.cov["disagreements_checked"] += 1
        ck.broke("correspondence model/implementation (RecoverTopicToTimestamp)",
                 "op   : %s\nimpl : %s\nmodel: %s" % (ops[d][:1500] if d < len(ops) else None,
                                                      impl[d][:1500] if d < len(impl) else None, mod[d][:1500] if d < len(mod) else None))
        if not ck.violations:
            hunt(ck, bins)


def hunt(ck, bins):
    for rnd in range(4):
        cases = [gen_case(ck.rng.fork()) for _ in range(40)]
        materialise(ck, bins, cases)
        ops = [restore_op(c, []) for c in cases]
        impl, calls, _ = run_ops(ck, bins, ops, "h%d" % rnd, model=False)
        ops2, own = [], []
        for ci, (c, n) in enumerate(zip(cases, calls)):
            for i in range(max(n, 0)):
                ops2.append(restore_op(c, [i])); own.append(ci)
        impl2, _, _ = run_ops(ck, bins, ops2, "hh%d" % rnd, model=False)
        ck.cov["evaluations"] += len(ops) + len(ops2)
        for op, ci, line in list(zip(ops, range(len(cases)), impl)) + list(zip(ops2, own, impl2)):
            for fp, what in monitor(cases[ci], line, []):
                ck.violation(fp, what, {"op": op, "actual": what, "impl": line[:2000]})
                return


def case_from_op(op):
    t = op.split()
    if t[1].endswith("ns"):
        Tns = int(t[1][:-2])
    else:
        Tns = int(t[1]) * M
    c = {"T": Tns // M, "Tns": Tns, "nsform": t[1].endswith("ns"), "allowed": t[2], "quirk": "replay", "objs": []}
    i = 4
    while i < len(t):
        c["objs"].append([int(t[i + 1]), int(t[i + 2]), int(t[i + 3]),
                          None if t[i + 4] == "N" else S.unhex(t[i + 4]), None if t[i + 5] == "N" else S.unhex(t[i + 5])])
        i += 6
    return c


def replay(ck, path):
    rep = json.load(open(path))
    bins = ck.build_all()
    if bins is None:
        return
    op = rep["op"]
    impl, calls, _ = run_ops(ck, bins, [op], "rp", model=False)
    print("  %s\n  -> %s" % (op[:300], impl[0][:600]))
    ck.case(op, sample={"op": op[:300], "impl": impl[0][:300]})
    ck.cov["distinct_nontrivial"] = max(ck.cov["distinct_nontrivial"], 2)
    for fp, what in monitor(case_from_op(op), impl[0], []):
        ck.violation(fp, what, {"op": op, "actual": what})
