"""Shared machinery of the byte-format checks C07 (segment round trip), C08 (PITR) and C34
(decoder totality): Kafka v2 record/batch generators, harness runner with crash isolation
(a Go out-of-memory is fatal, so adversarial ops run in a child under RLIMIT_AS), CRC-32C,
an independent Python parser of segment/index/batch bytes used by the direct monitors.
"""
import os
import resource
import struct
import subprocess

from checks import lib

# ----------------------------------------------------------------------------- CRC-32C
_TAB = []
for _i in range(256):
    _c = _i
    for _ in range(8):
        _c = (_c >> 1) ^ 0x82F63B78 if _c & 1 else _c >> 1
    _TAB.append(_c)


def crc32c(data):
    c = 0xFFFFFFFF
    for b in data:
        c = _TAB[(c ^ b) & 0xFF] ^ (c >> 8)
    return c ^ 0xFFFFFFFF


# ----------------------------------------------------------------------------- harness runner
def _limit(as_gb):
    def f():
        resource.setrlimit(resource.RLIMIT_AS, (as_gb << 30, as_gb << 30))
    return f


def run_harness(ck, binary, ops, tag, as_gb=6, timeout=300, max_crashes=60):
    """Feed `ops` (one per line) to the harness binary.  Returns (lines, allocs): one result per op;
    the ` #alloc=N` suffix is split off.  If the child dies (fatal OOM, runtime throw, timeout) the op
    it was executing gets the result `crash` and a fresh child continues with the next op."""
    res, allocs = [], []
    todo = list(ops)
    rounds = 0
    while todo:
        rounds += 1
        fn = ck.path("ops_%s_%d.txt" % (tag, rounds))
        with open(fn, "w") as f:
            f.write("\n".join(todo) + "\n")
        try:
            p = subprocess.run([binary], stdin=open(fn), capture_output=True, text=True, timeout=timeout * lib.load_factor(),
                               env=lib.go_env(), cwd=ck.scratch, preexec_fn=_limit(as_gb))
            out = p.stdout
        except subprocess.TimeoutExpired as ex:
            out = ex.stdout.decode("utf8", "replace") if isinstance(ex.stdout, bytes) else (ex.stdout or "")
        lines = out.split("\n")
        if lines and lines[-1] == "":
            lines.pop()
        elif lines:
            lines.pop()            # a partial last line belongs to the op that died
        for l in lines[:len(todo)]:
            body, _, a = l.partition(" #alloc=")
            res.append(body)
            allocs.append(int(a) if a.isdigit() else 0)
        done = min(len(lines), len(todo))
        if done < len(todo):
            res.append("crash")
            allocs.append(0)
            done += 1
        todo = todo[done:]
        if rounds > max_crashes:
            # enough dead children to report; the remaining ops are not executed (result `skipped`, no verdict)
            res += ["skipped"] * len(todo)
            allocs += [0] * len(todo)
            break
    return res, allocs


def run_model(ck, driver, variant, ops, tag):
    fn = ck.path("mops_%s.txt" % tag)
    with open(fn, "w") as f:
        f.write("\n".join(ops) + "\n")
    return ck.lean_run(driver, fn, args=[variant])


# ----------------------------------------------------------------------------- tokens
def tokb(b):
    if b is None:
        return "N"
    return b.hex() if b else "-"


# ----------------------------------------------------------------------------- generators
TS_DELTAS = [0, 1, -1, 63, 64, -64, -65, 127, 128, 8191, 8192, -8193, 1000, 60000, 86400000,
             2 ** 28 - 1, 2 ** 28, 2 ** 30 - 1, 2 ** 30, -2 ** 30, -2 ** 30 - 1, 2 ** 31 - 1, 2 ** 31, -2 ** 31 - 1,
             2 ** 34, 2 ** 35 - 1, 2 ** 35, -2 ** 35, 2 ** 41, 2 ** 48 + 12345, -2 ** 49, 2 ** 56, 2 ** 62 - 1, -2 ** 62,
             2 ** 62, 2 ** 62 + 1, -2 ** 62 - 1, 2 ** 63 - 1 - 4102444800000 - 10 ** 7, -2 ** 63]


def gen_bytes(rng, kind_nullable=True, maxlen=40):
    k = rng.below(10)
    if k == 0 and kind_nullable:
        return None
    if k == 1:
        return b""
    n = rng.choice([1, 1, 2, 3, 7, 8, 15, 16, 31, 63, 64, 65, 127, 128, 129, 200, 300])
    n = min(n, maxlen) if rng.chance(4, 5) else n
    return rng.bytes(n)


def gen_record(rng, od, first, wide_ts=True):
    if first or rng.chance(1, 3):
        tsd = 0 if first or rng.chance(1, 2) else rng.range(-5, 50)
    elif wide_ts and rng.chance(1, 2):
        tsd = rng.choice(TS_DELTAS)
    else:
        tsd = rng.range(-2000, 100000)
    nh = rng.choice([0, 0, 0, 1, 1, 2, 3, 5])
    hdrs = []
    for _ in range(nh):
        hk = rng.bytes(rng.choice([1, 2, 3, 8, 20])) if rng.chance(9, 10) else b""
        hdrs.append((hk, gen_bytes(rng, maxlen=24)))
    return {"attrs": 0, "tsd": tsd, "od": od, "key": gen_bytes(rng, maxlen=24), "val": gen_bytes(rng), "hdrs": hdrs}


def gen_batch(rng, base, first_ts, nrec=None, wide_ts=True, sparse=True):
    n = nrec if nrec is not None else rng.choice([1, 1, 2, 3, 4, 6, 9])
    recs, od = [], 0
    for i in range(n):
        recs.append(gen_record(rng, od, i == 0, wide_ts))
        od += 1 if not sparse or rng.chance(5, 6) else rng.choice([2, 3, 10, 127, 200, 40000, 2 ** 20, 2 ** 26])
    lod = recs[-1]["od"]
    max_ts = max(first_ts + r["tsd"] for r in recs)
    return {"base": base, "first": first_ts, "max": max_ts, "lod": lod, "recs": recs}


# ----------------------------------------------------------------------------- boundary shapes
# Every varint field of the record format at the edges of its encoding widths (zig-zag: 63|64 and -64|-65 is the
# 1|2-byte edge, 8191|8192 the 2|3-byte edge), the smallest possible records (7 bytes: length, attributes, 1-byte
# deltas, null/empty key and value, 0 headers), 0-length vs null, headers with empty keys / empty / null values.
EDGE_LENS = [0, 1, 63, 64, 65, 127, 128, 8191, 8192]
EDGE_DELTAS = [0, 1, -1, 63, 64, -64, -65, 8191, 8192, -8192, -8193]


def minimal_record(rng, od):
    """A 7-byte record (when od < 64): null or empty key, null or empty value, no headers, 1-byte deltas."""
    return {"attrs": 0, "tsd": rng.range(-64, 63) if od else 0, "od": od, "key": rng.choice([None, b""]),
            "val": rng.choice([None, b""]), "hdrs": []}


def edge_bytes(rng, n):
    return rng.bytes(n)


def shape_batch(rng, shape, base, first_ts):
    """One batch of a named boundary shape (all choices from rng)."""
    if shape == "minimal":                       # every record 7 bytes
        n = rng.choice([1, 1, 2, 3, 8, 63, 64])
        recs = [minimal_record(rng, i) for i in range(n)]
    elif shape == "minimal-one-fat":             # average just below / above 8 bytes per record
        n = rng.choice([2, 3, 7, 8, 9])
        recs = [minimal_record(rng, i) for i in range(n)]
        recs[rng.below(n)]["val"] = rng.bytes(rng.choice([1, 1, 2, n - 1, n, n + 1]))
    elif shape == "single":                      # single-record batches of every flavour
        r = gen_record(rng, 0, True)
        if rng.chance(1, 2):
            r = minimal_record(rng, 0)
        recs = [r]
    elif shape == "edge-lengths":                # key/value/header lengths on the varint width edges
        recs = []
        for i in range(rng.choice([1, 2, 3])):
            recs.append({"attrs": 0, "tsd": 0 if i == 0 else rng.choice(EDGE_DELTAS), "od": i,
                         "key": edge_bytes(rng, rng.choice(EDGE_LENS[:7])), "val": edge_bytes(rng, rng.choice(EDGE_LENS)),
                         "hdrs": [(edge_bytes(rng, rng.choice([0, 1, 63, 64])), edge_bytes(rng, rng.choice([0, 63, 64, 127, 128])))
                                  for _ in range(rng.choice([0, 1, 2]))]})
    elif shape == "edge-deltas":                 # offset / timestamp deltas on the edges, sparse offsets
        ods = sorted(set([0] + [rng.choice([1, 62, 63, 64, 65, 127, 128, 8191, 8192, 8193]) for _ in range(rng.choice([1, 2, 4]))]))
        recs = [dict(minimal_record(rng, od), tsd=(0 if k == 0 else rng.choice(EDGE_DELTAS))) for k, od in enumerate(ods)]
    elif shape == "many-headers":                # header count on the 63|64 edge; empty keys, empty and null values
        nh = rng.choice([1, 2, 63, 64, 65])
        hdrs = [(rng.choice([b"", b"k", b"kk"]), rng.choice([None, b"", b"v"])) for _ in range(nh)]
        recs = [{"attrs": 0, "tsd": 0, "od": 0, "key": rng.choice([None, b""]), "val": rng.choice([None, b""]), "hdrs": hdrs}]
        if rng.chance(1, 2):
            recs.append(minimal_record(rng, 1))
    else:                                        # "null-vs-empty": all four key/value combinations, headers likewise
        combos = [(None, None), (None, b""), (b"", None), (b"", b""), (b"", b"x"), (b"x", b""), (None, b"x"), (b"x", None)]
        recs = [{"attrs": 0, "tsd": i, "od": i, "key": k, "val": v,
                 "hdrs": [] if i % 2 else [(b"", None), (b"", b""), (b"h", b"")]} for i, (k, v) in enumerate(combos)]
    lod = recs[-1]["od"]
    return {"base": base, "first": first_ts, "max": max(first_ts + r["tsd"] for r in recs), "lod": lod, "recs": recs}


SHAPES = ["minimal", "minimal", "minimal-one-fat", "single", "edge-lengths", "edge-deltas", "many-headers", "null-vs-empty"]


def gen_shape_batches(rng, shape=None):
    """1-3 batches, each of a boundary shape (same shape when given)."""
    base = rng.choice([0, 0, 1, 1000, 2 ** 32 + 7])
    ts = rng.choice([0, 1700000000000])
    out = []
    for _ in range(rng.choice([1, 1, 2, 3])):
        b = shape_batch(rng, shape or rng.choice(SHAPES), base, ts)
        out.append(b)
        base += b["lod"] + 1
        ts += rng.choice([0, 1, 1000])
    return out


def gen_batches(rng, nb=None, wide_ts=True, contiguous=None):
    nb = nb if nb is not None else rng.choice([1, 1, 2, 3, 4, 6])
    base = rng.choice([0, 0, 1, 5, 1000, 2 ** 31 - 2, 2 ** 32 + 7, 2 ** 40])
    ts = rng.choice([0, 1, 1700000000000, 1700000000000, 4102444800000])
    contiguous = rng.chance(3, 4) if contiguous is None else contiguous
    out = []
    for _ in range(nb):
        b = gen_batch(rng, base, ts, wide_ts=wide_ts)
        out.append(b)
        base = base + b["lod"] + 1 + (0 if contiguous else rng.choice([0, 1, 5, 100]))
        ts = ts + rng.choice([0, 1, 10, 1000, 100000])
    return out


def batch_tokens(b):
    t = ["B", str(b["base"]), str(b["first"]), str(b["max"]), str(b["lod"]), str(len(b["recs"]))]
    for r in b["recs"]:
        t += ["R", str(r["attrs"]), str(r["tsd"]), str(r["od"]), tokb(r["key"]), tokb(r["val"]), str(len(r["hdrs"]))]
        for hk, hv in r["hdrs"]:
            t += [tokb(hk), tokb(hv)]
    return t


def build_op(interval, created, batches):
    t = ["build", str(interval), str(created), str(len(batches))]
    for b in batches:
        t += batch_tokens(b)
    return " ".join(t)


def parse_build_op(op):
    """Inverse of build_op (used by replays)."""
    t = op.split()
    assert t[0] == "build"
    interval, created, nb = int(t[1]), int(t[2]), int(t[3])
    i = 4

    def b(tok):
        return None if tok == "N" else (b"" if tok == "-" else bytes.fromhex(tok))
    batches = []
    for _ in range(nb):
        assert t[i] == "B"
        base, first, mx, lod, n = (int(x) for x in t[i + 1:i + 6])
        i += 6
        recs = []
        for _ in range(n):
            assert t[i] == "R"
            attrs, tsd, od = (int(x) for x in t[i + 1:i + 4])
            key, val, nh = b(t[i + 4]), b(t[i + 5]), int(t[i + 6])
            i += 7
            hdrs = []
            for _ in range(nh):
                hdrs.append((b(t[i]) or b"", b(t[i + 1])))
                i += 2
            recs.append({"attrs": attrs, "tsd": tsd, "od": od, "key": key, "val": val, "hdrs": hdrs})
        batches.append({"base": base, "first": first, "max": mx, "lod": lod, "recs": recs})
    return {"interval": interval, "created": created, "batches": batches}


def expected_records(batches):
    """Canonical record strings the decoders must print for these batches."""
    out = []
    for b in batches:
        for r in b["recs"]:
            h = ",".join("%s=%s" % (tokb(hk), tokb(hv)) for hk, hv in r["hdrs"]) or "-"
            out.append("%d:%d:%s:%s:%s" % (b["base"] + r["od"], b["first"] + r["tsd"], tokb(r["key"]), tokb(r["val"]), h))
    return out


def kv(line):
    return dict(x.split("=", 1) for x in line.split() if "=" in x)


def unhex(tok):
    return b"" if tok in ("-", "N") else bytes.fromhex(tok)


# ----------------------------------------------------------------------------- independent byte-level readers (monitor side)
def frames(body):
    """Batch frames of a segment body: list of (position_in_body, frame_bytes); stops like the readers do."""
    out, off = [], 0
    while off + 12 <= len(body):
        bl = struct.unpack(">I", body[off + 8:off + 12])[0]
        if bl == 0 or off + 12 + bl > len(body):
            break
        out.append((off, body[off:off + 12 + bl]))
        off += 12 + bl
    return out, off


def uvarint(buf, i):
    shift = v = 0
    while True:
        if i >= len(buf):
            raise ValueError("eof")
        b = buf[i]
        i += 1
        v |= (b & 0x7F) << shift
        if b < 0x80:
            return v, i
        shift += 7
        if shift > 63:
            raise ValueError("long")


def varint(buf, i):
    u, i = uvarint(buf, i)
    return (u >> 1) ^ -(u & 1), i


def batch_records_raw(frame):
    """(offsetDelta, tsDelta, raw record bytes incl. length prefix) per record of an uncompressed batch."""
    cnt = struct.unpack(">i", frame[57:61])[0]
    out, i = [], 61
    for _ in range(max(cnt, 0)):
        s = i
        ln, i = varint(frame, i)
        if ln < 0 or i + ln > len(frame):
            raise ValueError("len")
        j = i + 1
        tsd, j = varint(frame, j)
        od, j = varint(frame, j)
        i += ln
        out.append((od, tsd, frame[s:i]))
    return out


def segment_wf(seg, idx, interval, batches_meta):
    """The well-formedness part of C07 evaluated directly on bytes.  batches_meta = [(base, lod, count)].
    Returns None or a (fingerprint, what) pair."""
    if len(seg) < 48 or seg[:4] != b"KAFS":
        return "segment-header-invalid", "segment shorter than header+footer or wrong magic"
    ver, flags, base, count, created, resv = struct.unpack(">HHqiqI", seg[4:32])
    if ver != 1 or base != batches_meta[0][0] or count != sum(m[2] for m in batches_meta):
        return "segment-header-invalid", "header version/base/count %r do not describe the batches" % ((ver, base, count),)
    body, foot = seg[32:-16], seg[-16:]
    crc, last, magic = struct.unpack(">Iq4s", foot)
    if magic != b"END!":
        return "segment-footer-invalid", "footer magic %r" % magic
    if last != batches_meta[-1][0] + batches_meta[-1][1]:
        return "segment-footer-invalid", "footer end offset %d, last batch ends at %d" % (last, batches_meta[-1][0] + batches_meta[-1][1])
    if crc != crc32c(body):
        return "segment-crc-mismatch", "footer CRC %08x, body CRC-32C %08x" % (crc, crc32c(body))
    fr, end = frames(body)
    if end != len(body) or len(fr) != len(batches_meta):
        return "segment-body-not-batches", "body does not split into the %d batches written" % len(batches_meta)
    starts = {32 + pos: struct.unpack(">q", f[:8])[0] for pos, f in fr}
    if len(idx) < 16 or idx[:4] != b"IDX\x00":
        return "index-header-invalid", "index magic/size"
    iver, icount, iint, ires = struct.unpack(">HiiH", idx[4:16])
    if iver != 1 or icount * 12 != len(idx) - 16 or icount < 1:
        return "index-header-invalid", "index version %d count %d size %d" % (iver, icount, len(idx))
    want_int = interval if interval > 0 else 1
    if iint != want_int:
        return "index-header-invalid", "index interval %d, configured %d" % (iint, want_int)
    ents = [struct.unpack(">qi", idx[16 + 12 * k:28 + 12 * k]) for k in range(icount)]
    if ents[0] != (batches_meta[0][0], 32):
        return "index-first-entry", "first index entry %r is not (base offset, 32)" % (ents[0],)
    for k, (o, p) in enumerate(ents):
        if p not in starts or starts[p] != o:
            return "index-entry-not-batch-start", "index entry %r does not point at the start of the batch with that base offset" % ((o, p),)
        if k and not (ents[k - 1][0] < o and ents[k - 1][1] < p):
            return "index-not-increasing", "index entries %r, %r not strictly increasing" % (ents[k - 1], (o, p))
    # sparse-index density: an entry is due once `interval` messages have passed since the last one
    since, have, k = 0, set(p for _, p in ents), 0
    for (pos, f), m in zip(fr, batches_meta):
        due = (k == 0) or since >= want_int
        if due != ((32 + pos) in have):
            return "index-interval-wrong", "batch at %d: entry %s but interval rule says %s" % (32 + pos, (32 + pos) in have, due)
        if due:
            since = 0
        since += m[2]
        k += 1
    return None
