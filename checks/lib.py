"""Common machinery for the KafVerif checks.

One check = one property.  bin/check imports checks/<id>.py, which declares

    PROPERTY      = "C09"
    LEAN_MODULES  = ["KafVerif.Props.C09"]          # what `lake build` must elaborate
    OBLIGATIONS   = ["KafVerif.C09.size_le_cap", …]  # property theorems (audited with #print axioms)
    def run(ck): …                                  # tie to the code: correspondence + monitors + hunt

and drives it through the fixed protocol of DESIGN.md section 2.6:
corpus/obligations -> correspondence -> monitors -> (on any break) hunt -> report.
"""
import contextlib
import fcntl
import hashlib
import json
import os
import re
import shutil
import subprocess
import sys
import tempfile
import time

ROOT = os.path.dirname(os.path.dirname(os.path.abspath(__file__)))
REPO = os.environ.get("VERIF_REPO", "/repo")
LEAN = os.path.join(ROOT, "lean")
HARNESS = os.path.join(ROOT, "harness")
EVIDENCE = os.environ.get("VERIF_EVIDENCE_DIR") or os.path.join(ROOT, "evidence")   # seedtest points this elsewhere
REPLAYS = os.path.join(ROOT, "replays")
KNOWN = os.path.join(ROOT, "known_findings.json")

MODULE_DIRS = {
    "root": "",
    "iceberg": "addons/processors/iceberg-processor",
    "sql": "addons/processors/sql-processor",
    "skeleton": "addons/processors/skeleton",
}

ALLOWED_AXIOMS = {"propext", "Quot.sound", "Classical.choice"}
FORBIDDEN = re.compile(
    r"\b(sorry|admit|native_decide|bv_decide|implemented_by|unsafe)\b|^\s*axiom\s|maxHeartbeats\s+0\b"
)

TRUSTED_BASE = [
    "Lean 4.33.0 kernel (lake build; leanchecker in the thorough tier)",
    "axioms allowed per theorem: propext, Quot.sound, Classical.choice (audited with #print axioms on every run)",
    "hand-written Lean model of the anchored code; tied to /repo by the Go correspondence harness built from the current tree with -tags verif -overlay",
    "Go compiler/runtime, go build -overlay, the generators and canonicalisers of this check",
]


def go_env():
    env = dict(os.environ)
    env["GOFLAGS"] = "-mod=mod"
    env["GOPROXY"] = "off"
    env.pop("GOSUMDB", None)       # GOSUMDB=off breaks the offline toolchain switch
    env.pop("GOTOOLCHAIN", None)
    env.setdefault("GOMAXPROCS", "16")
    return env


class SplitMix64:
    """The one PRNG every generator derives its choices from."""

    def __init__(self, seed):
        self.s = seed & 0xFFFFFFFFFFFFFFFF

    def next(self):
        self.s = (self.s + 0x9E3779B97F4A7C15) & 0xFFFFFFFFFFFFFFFF
        z = self.s
        z = ((z ^ (z >> 30)) * 0xBF58476D1CE4E5B9) & 0xFFFFFFFFFFFFFFFF
        z = ((z ^ (z >> 27)) * 0x94D049BB133111EB) & 0xFFFFFFFFFFFFFFFF
        return z ^ (z >> 31)

    def below(self, n):
        return self.next() % n if n > 0 else 0

    def range(self, lo, hi):
        return lo + self.below(hi - lo + 1)

    def choice(self, xs):
        return xs[self.below(len(xs))]

    def chance(self, num, den):
        return self.below(den) < num

    def bytes(self, n):
        return bytes(self.below(256) for _ in range(n))

    def fork(self):
        return SplitMix64(self.next())


def load_factor():
    """Time limits are sized for an idle 16-core machine; on an oversubscribed one (many checks at once) they
    stretch with the run-queue length so that starvation is not mistaken for a hang.  1 <= factor <= 6."""
    try:
        return min(6.0, max(1.0, os.getloadavg()[0] / max(1, os.cpu_count() or 1)))
    except OSError:
        return 1.0


class Check:
    def __init__(self, pid, tier, seed, mod):
        self.pid = pid
        self.tier = tier
        self.seed = seed
        self.mod = mod
        self.t0 = time.time()
        self.scratch = tempfile.mkdtemp(prefix="kafverif-%s-" % pid, dir=os.environ.get("VERIF_TMP", "/tmp"))
        os.makedirs(EVIDENCE, exist_ok=True)
        os.makedirs(os.path.join(REPLAYS, "tmp"), exist_ok=True)
        self.rng = SplitMix64(seed)
        self.violations = []          # concrete, not known
        self.known_hits = []          # matched known findings
        self.broken = []              # proof obligations / correspondences that no longer check
        self.cov = {
            "evaluations": 0,
            "distinct_nontrivial": 0,
            "rule": "",
            "samples": [],
            "traces_validated_against_impl": 0,
            "disagreements_checked": 0,
            "distribution": {},
        }
        self.obligations = 0
        self.discharged = 0
        self.assumptions = []
        self.notes = []
        self.partial = None
        self._distinct = set()
        self.known = load_known()

    # ------------------------------------------------------------------ util
    def log(self, *a):
        print("[%s %5.1fs]" % (self.pid, time.time() - self.t0), *a, flush=True)

    def cleanup(self):
        shutil.rmtree(self.scratch, ignore_errors=True)

    def path(self, name):
        return os.path.join(self.scratch, name)

    def quick(self):
        return self.tier == "quick"

    def count(self, key, n=1):
        d = self.cov["distribution"]
        d[key] = d.get(key, 0) + n

    def case(self, canonical, nontrivial=True, sample=None):
        """Register one explored case.  `canonical` is any hashable/str normal form."""
        self.cov["evaluations"] += 1
        if nontrivial:
            h = hashlib.sha1(repr(canonical).encode()).digest()[:8]
            if h not in self._distinct:
                self._distinct.add(h)
                self.cov["distinct_nontrivial"] += 1
        if sample is not None and len(self.cov["samples"]) < 5:
            self.cov["samples"].append(sample)

    # ------------------------------------------------------------------ Lean
    @contextlib.contextmanager
    def _lake_lock(self):
        os.makedirs(os.path.join(LEAN, ".lake"), exist_ok=True)
        with open(os.path.join(LEAN, ".lake", "verif.lock"), "w") as f:
            fcntl.flock(f, fcntl.LOCK_EX)
            try:
                yield
            finally:
                fcntl.flock(f, fcntl.LOCK_UN)

    def lake_build(self, modules):
        with self._lake_lock():
            p = subprocess.run(["lake", "build"] + list(modules), cwd=LEAN, capture_output=True, text=True)
        return p.returncode == 0, p.stdout + p.stderr

    def lean_sources(self, modules):
        """Transitive KafVerif.* imports of the given modules (source files)."""
        seen, todo = {}, list(modules)
        while todo:
            m = todo.pop()
            if m in seen:
                continue
            f = os.path.join(LEAN, m.replace(".", "/") + ".lean")
            if not os.path.exists(f):
                continue
            seen[m] = f
            for line in open(f):
                mm = re.match(r"\s*(?:public\s+)?import\s+(KafVerif[\w.]*)", line)
                if mm:
                    todo.append(mm.group(1))
        return seen

    def forbidden_scan(self, modules):
        hits = []
        for m, f in sorted(self.lean_sources(modules).items()):
            src = open(f).read()
            src = re.sub(r"/-.*?-/", lambda mo: "\n" * mo.group(0).count("\n"), src, flags=re.S)
            for i, line in enumerate(src.split("\n"), 1):
                code = line.split("--", 1)[0]
                code = re.sub(r'"(\\.|[^"\\])*"', '""', code)
                if FORBIDDEN.search(code):
                    hits.append("%s:%d: %s" % (f, i, line.strip()))
        return hits

    def axioms_audit(self, modules, theorems):
        """Returns {theorem: sorted axioms | None if missing}."""
        src = "".join("import %s\n" % m for m in modules)
        src += "".join("#print axioms %s\n" % t for t in theorems)
        fn = self.path("Audit_%s.lean" % self.pid)
        open(fn, "w").write(src)
        p = subprocess.run(["lake", "env", "lean", fn], cwd=LEAN, capture_output=True, text=True)
        out = p.stdout + p.stderr
        res = {}
        for t in theorems:
            m = re.search(r"'%s' depends on axioms: \[(.*?)\]" % re.escape(t), out, flags=re.S)
            if m:
                res[t] = sorted(a.strip() for a in m.group(1).split(",") if a.strip())
            elif re.search(r"'%s' does not depend on any axioms" % re.escape(t), out):
                res[t] = []
            else:
                res[t] = None
        return res, out

    def prove(self):
        """Obligations: build, forbidden-token scan, axiom audit.  Never raises."""
        mods = list(getattr(self.mod, "LEAN_MODULES", []))
        thms = list(getattr(self.mod, "OBLIGATIONS", []))
        self.obligations = len(thms)
        if not mods:
            return
        gen = getattr(self.mod, "generate", None)
        if gen is not None:
            try:
                gen(self)
            except Exception as e:  # translator failed on the current source
                self.broke("translator", "fact extractor failed on the current source: %r" % (e,))
        ok, out = self.lake_build(mods)
        if not ok:
            tail = "\n".join(out.strip().split("\n")[-40:])
            self.broke("lake build " + " ".join(mods), tail)
            return
        hits = self.forbidden_scan(mods)
        if hits:
            self.broke("forbidden-token scan", "\n".join(hits))
            return
        res, out = self.axioms_audit(mods, thms)
        bad = []
        for t in thms:
            ax = res.get(t)
            if ax is None:
                bad.append("%s: theorem not found" % t)
            elif not set(ax) <= ALLOWED_AXIOMS:
                bad.append("%s: axioms %s" % (t, ax))
            else:
                self.discharged += 1
        self.axioms = res
        if bad:
            self.broke("axiom audit", "\n".join(bad) + "\n" + out[-2000:])
        if self.tier == "thorough" and not self.broken:
            with self._lake_lock():
                p = subprocess.run(["lake", "env", "leanchecker"] + mods, cwd=LEAN, capture_output=True, text=True)
            if p.returncode != 0:
                self.broke("leanchecker", (p.stdout + p.stderr)[-2000:])
            else:
                self.notes.append("leanchecker re-checked " + " ".join(mods))
        self.log("obligations %d/%d discharged" % (self.discharged, self.obligations))

    def lean_run(self, driver, stdin_path=None, args=(), timeout=1800):
        """Run lean/Driver/<driver>.lean through the interpreter; returns stdout lines."""
        src = os.path.join(LEAN, "Driver", driver + ".lean")
        cmd = ["lake", "env", "lean", "--run", src] + list(args)
        fin = open(stdin_path) if stdin_path else subprocess.DEVNULL
        p = subprocess.run(cmd, cwd=LEAN, stdin=fin, capture_output=True, text=True, timeout=timeout)
        if p.returncode != 0:
            raise RuntimeError("lean driver %s failed: %s" % (driver, (p.stdout + p.stderr)[-3000:]))
        return p.stdout.split("\n")[:-1] if p.stdout.endswith("\n") else p.stdout.split("\n")

    # ------------------------------------------------------------------ Go
    def overlay_json(self, module, overlay_dirs):
        """overlay_dirs: directories under /verif/harness/; each holds <module>/<relpath> files."""
        base = os.path.join(REPO, MODULE_DIRS[module])
        repl = {}
        for d in overlay_dirs:
            top = os.path.join(HARNESS, d, module)
            for dp, _, fns in os.walk(top):
                for fn in fns:
                    src = os.path.join(dp, fn)
                    rel = os.path.relpath(src, top)
                    dst = os.path.join(base, rel)
                    if os.path.exists(dst):
                        raise RuntimeError("overlay would replace existing repo file " + dst)
                    repl[dst] = src
        fn = self.path("overlay_%s_%d.json" % (module, len(os.listdir(self.scratch))))
        json.dump({"Replace": repl}, open(fn, "w"), indent=1)
        return fn

    def go_build(self, module, pkg, overlay_dirs, name=None, race=False, test=False, extra=()):
        """Build ./<pkg> of the module from the CURRENT working tree with the verif overlay.
        Returns (binary path | None, log)."""
        ov = self.overlay_json(module, overlay_dirs)
        out = self.path(name or ("h_" + re.sub(r"\W", "_", pkg)))
        cwd = os.path.join(REPO, MODULE_DIRS[module])
        if test:
            cmd = ["go", "test", "-c", "-vet=off"]
        else:
            cmd = ["go", "build"]
        cmd += ["-tags", "verif", "-overlay", ov, "-o", out]
        if race:
            cmd.append("-race")
        cmd += list(extra) + [pkg]
        p = subprocess.run(cmd, cwd=cwd, env=go_env(), capture_output=True, text=True)
        if p.returncode != 0:
            return None, p.stdout + p.stderr
        return out, p.stdout + p.stderr

    def build_all(self):
        """Build every harness the check module declares in BUILDS = {name: (module, pkg, overlay_dirs[, kwargs])}.
        Returns {name: path} or None (and records the broken correspondence) if any build fails."""
        bins = {}
        for name, b in getattr(self.mod, "BUILDS", {}).items():
            kw = dict(b[3]) if len(b) > 3 else {}
            kw.setdefault("name", "h_" + name)
            out, log = self.go_build(b[0], b[1], b[2], **kw)
            if out is None:
                self.broke("correspondence harness build %s (%s %s, overlay %s)" % (name, b[0], b[1], b[2]), log)
                return None
            bins[name] = out
        return bins

    def run_bin(self, binary, args=(), stdin_path=None, stdin_text=None, env=None, timeout=600, mem_gb=None):
        timeout = timeout * load_factor()
        e = go_env()
        if env:
            e.update(env)
        if mem_gb:
            e["GOMEMLIMIT"] = "%dGiB" % mem_gb
        kw = {}
        if stdin_path:
            kw["stdin"] = open(stdin_path)
        elif stdin_text is not None:
            kw["input"] = stdin_text
        else:
            kw["stdin"] = subprocess.DEVNULL
        try:
            p = subprocess.run([binary] + list(args), env=e, capture_output=True, text=True, timeout=timeout,
                               cwd=self.scratch, **kw)
        except subprocess.TimeoutExpired as ex:
            return 124, (ex.stdout or b"").decode("utf8", "replace") if isinstance(ex.stdout, bytes) else (ex.stdout or ""), "timeout"
        return p.returncode, p.stdout, p.stderr

    # ------------------------------------------------------------------ reporting
    def broke(self, what, detail):
        """A proof obligation or correspondence no longer checks."""
        self.log("BROKEN:", what)
        self.broken.append({"what": what, "detail": detail[-6000:]})

    def save_replay(self, obj, tag="v"):
        n = len(self.violations) + len(self.known_hits) + len(self.broken)
        fn = os.path.join(REPLAYS, "tmp", "%s-%s-seed%d-%d.json" % (self.pid, tag, self.seed, n))
        obj = dict(obj)
        obj.setdefault("property", self.pid)
        obj.setdefault("seed", self.seed)
        obj.setdefault("tier", self.tier)
        obj.setdefault("replay_cmd", "bin/check %s --replay %s" % (self.pid, fn))
        json.dump(obj, open(fn, "w"), indent=1, default=str)
        return fn

    def violation(self, fingerprint, what, replay):
        """A concrete failing input/history on the implementation.
        fingerprint: normalised class of the minimal failing case (matched against known_findings.json)."""
        for k in self.known:
            if k.get("status", "open") == "open" and k["property"] == self.pid and k["fingerprint"] == fingerprint:
                if fingerprint not in [h["fingerprint"] for h in self.known_hits]:
                    self.known_hits.append({"fingerprint": fingerprint, "what": k.get("what", what)})
                return False
        if fingerprint in [v["fingerprint"] for v in self.violations]:
            return True
        if len(self.violations) < 10:
            fn = self.save_replay(dict(replay, fingerprint=fingerprint, what=what))
            self.violations.append({"fingerprint": fingerprint, "what": what, "replay": fn})
        return True

    def finish(self):
        level = getattr(self.mod, "LEVEL", "proof")
        rc = 0
        lines = []
        for h in self.known_hits:
            lines.append("KNOWN-FINDING: property=%s %s" % (self.pid, h["what"]))
        for v in self.violations:
            lines.append("VIOLATION property=%s replay=%s" % (self.pid, v["replay"]))
            rc = 1
        if self.broken and not self.violations:
            fn = self.save_replay({"no_longer_checks": self.broken,
                                   "searched": self.cov["evaluations"]}, tag="broken")
            lines.append("VIOLATION property=%s replay=%s no-failing-input-found" % (self.pid, fn))
            rc = 1
        cov = dict(self.cov)
        cov.update({
            "obligations": self.obligations,
            "discharged": self.discharged,
            "checker_cmd": "cd /verif/lean && lake build %s && lake env lean <#print axioms audit>%s" % (
                " ".join(getattr(self.mod, "LEAN_MODULES", [])),
                " && lake env leanchecker" if self.tier == "thorough" else ""),
            "trusted_base": TRUSTED_BASE + list(getattr(self.mod, "TRUSTED", [])),
            "theorems": list(getattr(self.mod, "OBLIGATIONS", [])),
            "axioms": getattr(self, "axioms", {}),
            "exhaustive": bool(self.cov.get("exhaustive", False)),
        })
        if self.partial:
            cov["partial"] = self.partial
        if self.notes:
            cov["notes"] = self.notes
        if level == "proof" and (self.obligations == 0 or self.discharged == 0):
            # schema wants >=1; a check with a broken build reports honestly via the generic keys
            cov.pop("obligations"); cov.pop("discharged")
            cov["obligations_failed"] = True
            cov["evaluations"] = max(cov["evaluations"], 1)
            cov["distinct_nontrivial"] = max(cov["distinct_nontrivial"], 2)
        ev = {
            "property_id": self.pid,
            "tier": self.tier,
            "seed": self.seed,
            "level": level,
            "coverage": cov,
            "assumptions": self.assumptions + list(getattr(self.mod, "ASSUMPTIONS", [])),
            "wall_s": round(time.time() - self.t0, 2),
            "violations": len(self.violations) + (1 if (self.broken and not self.violations) else 0),
            "known_findings_hit": [h["fingerprint"] for h in self.known_hits],
        }
        if not cov["samples"]:
            cov["samples"] = ["(no case was explored: %s)" % ("; ".join(b["what"] for b in self.broken) or "n/a")]
        tmp = os.path.join(EVIDENCE, ".%s.json.tmp" % self.pid)
        json.dump(ev, open(tmp, "w"), indent=1, default=str)
        os.replace(tmp, os.path.join(EVIDENCE, "%s.json" % self.pid))
        for l in lines:
            print(l, flush=True)
        self.log("done rc=%d evaluations=%d distinct=%d wall=%.1fs" % (
            rc, cov["evaluations"], cov["distinct_nontrivial"], time.time() - self.t0))
        return rc


def load_known():
    try:
        return json.load(open(KNOWN)).get("findings", [])
    except FileNotFoundError:
        return []


def first_diff(a, b):
    """Index of the first differing line of two line lists, or None."""
    n = min(len(a), len(b))
    for i in range(n):
        if a[i] != b[i]:
            return i
    if len(a) != len(b):
        return n
    return None


def hexs(b):
    return b.hex() if b else "-"


def ddmin(items, fails):
    """Delta-debug a list to a 1-minimal sublist on which `fails` is still true."""
    n = 2
    items = list(items)
    while len(items) >= 2:
        chunk = max(1, len(items) // n)
        reduced = False
        for i in range(0, len(items), chunk):
            cand = items[:i] + items[i + chunk:]
            if cand and fails(cand):
                items = cand
                n = max(n - 1, 2)
                reduced = True
                break
        if not reduced:
            if chunk == 1:
                break
            n = min(n * 2, len(items))
    return items
