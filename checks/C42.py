"""C42 — operator reconciliation is idempotent (partial: theorem about the translated IR)."""
import json
import os
import re

from checks import lib

PROPERTY = "C42"
LEAN_MODULES = ["KafVerif.Props.C42"]
OBLIGATIONS = [
    "KafVerif.C42.fragment_idempotent",
    "KafVerif.C42.written_fields_independent_of_existing_object",
    "KafVerif.C42.closures_in_fragment",
    "KafVerif.C42.renders_pure",
    "KafVerif.C42.closures_idempotent_partial",
    "KafVerif.C42.unclassified_can_break_idempotence",
    "KafVerif.C42.closures_nonvacuous",
    "KafVerif.C42.owned_names_table_ok",
    "KafVerif.C42.owned_names_injective",
    "KafVerif.C42.cut_names_can_collide",
]
BUILDS = {"h": ("root", "./cmd/verif_c42", ["C42"])}
LEVEL_TEXT = ("Partial. Lean 4: every CreateOrUpdate mutate closure of pkg/operator, translated on every run by a go/ast pass into a small "
              "IR (object-free assignments under object-free guards, assign-then-default, SetControllerReference; anything else that "
              "mentions the object is `other`), lies in the fragment (closures_in_fragment, decide) for which run p (run p o) = run p o "
              "is proved for every environment and every object (fragment_idempotent), the written fields do not depend on the existing "
              "object, and the reachable code contains no time/rand call and no map-range feeding a slice (renders_pure). The Name expressions of all "
              "CreateOrUpdate sites, regenerated from the source, are cluster name + literal suffix with distinct suffixes per kind, hence for "
              "every cluster name distinct sites own distinct objects (owned_names_injective).")
LEVEL_NOTE = ("The theorem is about the translated IR, not the Go code: the translator is trusted and is validated on every run (every field "
              "the real reconcile sets must be covered by an IR write of a closure of that object type). The fake client stands in for the "
              "API server: defaulting webhooks and server-side mutation are not modelled. Idempotence of the real code is TESTED: generated "
              "cluster specs x operator environments (cluster names up to 60 chars) reconciled 3x + once on a fresh client, all objects "
              "deep-compared; every write request of the repeat passes is recorded through a client interceptor (must be none), resourceVersions "
              "are compared between passes, and the per-kind object count is compared with the same spec under a short cluster name.")
TECHNIQUE = "Lean 4 idempotence theorem over a go/ast-translated IR of the mutate closures + 3x reconcile against controller-runtime's fake client"
ASSUMPTIONS = [
    "the go/ast translator is faithful: a statement is `assign` only if its right-hand side does not mention the object variable; helper calls on locals are object-free",
    "controllerutil.SetControllerReference with an unchanged owner is a constant write to metadata.ownerReferences",
    "the object-producing part of ClusterReconciler.Reconcile is replayed by an overlay in Reconcile's order (status, etcd health polling and snapshot publishing need live etcd/S3 and create no objects)",
    "controller-runtime's fake client stands in for the API server (no defaulting, no admission mutation)",
]

GEN = os.path.join(lib.LEAN, "KafVerif", "Gen", "C42Mutate.lean")
META_FIELDS = {"labels", "annotations", "ownerreferences", "finalizers", "name", "namespace"}


def _binary(ck):
    b = getattr(ck, "_c42_bin", None)
    if b:
        return b
    bins = ck.build_all()
    if bins is None:
        return None
    ck._c42_bin = bins["h"]
    return ck._c42_bin


class Interner:
    def __init__(self):
        self.ids = {}

    def seg(self, s, create=True):
        s = s.lower()
        if s not in self.ids:
            if not create:
                return 999999
            self.ids[s] = len(self.ids) + 1
        return self.ids[s]

    # embedded ObjectMeta fields are promoted in Go (`sts.Labels`, `Spec.Template.Labels`) and nested under
    # "metadata" in JSON: both sides drop the metadata/ObjectMeta segment.
    def go_path(self, p):
        segs = [x for x in p.split(".") if x and x.lower() not in ("objectmeta", "metadata")]
        if segs and segs[0].lower() == "ownerreferences":
            return [0]
        return [self.seg(x) for x in segs]

    def json_path(self, segs):
        segs = [x for x in segs if x.lower() != "metadata"]
        if segs and segs[0].lower() == "ownerreferences":
            return [0]
        return [self.seg(x, create=False) for x in segs]


def parse_extract(out):
    closures, cur = [], None
    total = None
    for l in out.split("\n"):
        if l.startswith("closure "):
            m = re.match(r'closure (\d+) func=(\S+) obj=(\S+) type=(\S*) name=("(?:[^"\\]|\\.)*") file=(\S+) line=(\d+)', l)
            if not m:
                raise RuntimeError("unparsable closure line: " + l)
            cur = {"idx": int(m.group(1)), "func": m.group(2), "obj": m.group(3), "type": m.group(4),
                   "name": json.loads(m.group(5)), "file": m.group(6), "line": int(m.group(7)), "stmts": [], "impure": [], "names": []}
            closures.append(cur)
        elif l.startswith("stmt "):
            m = re.match(r'stmt (\d+) (\d+) (\S+) (\S+) ("(?:[^"\\]|\\.)*")$', l)
            if not m:
                raise RuntimeError("unparsable stmt line: " + l)
            cur["stmts"].append((int(m.group(2)), m.group(3), m.group(4), json.loads(m.group(5))))
        elif l.startswith("impure "):
            m = re.match(r'impure (\d+) ("(?:[^"\\]|\\.)*")$', l)
            cur["impure"].append(json.loads(m.group(2)))
        elif l.startswith("name "):
            m = re.match(r'name (\d+) (\S+) ("(?:[^"\\]|\\.)*") ("(?:[^"\\]|\\.)*")$', l)
            if not m:
                raise RuntimeError("unparsable name line: " + l)
            cur["names"].append((m.group(2), json.loads(m.group(3)), json.loads(m.group(4))))
        elif l.startswith("closures "):
            total = int(l.split()[1])
    if total is None or total != len(closures) or not closures:
        raise RuntimeError("extractor output incomplete")
    return closures


def flatten(cl, it):
    """IR tree -> flat guarded atoms: (conds, atom tuple, text)."""
    out, stack, conds_ids, eid = [], [], {}, [0]

    def fresh():
        eid[0] += 1
        return eid[0]
    for depth, kind, path, text in cl["stmts"]:
        if kind == "guard":
            cid = conds_ids.setdefault(text, len(conds_ids))
            stack.append((cid, True))
            continue
        if kind == "else":
            c, _ = stack.pop()
            stack.append((c, False))
            continue
        if kind == "endif":
            stack.pop()
            continue
        conds = list(stack)
        if kind in ("assign", "mapSet"):
            out.append((conds, ("assign", it.go_path(path), fresh()), text))
        elif kind in ("defaultIfZero", "initIfNil"):
            p = it.go_path(path)
            if out and out[-1][0] == conds and out[-1][1][0] == "assign" and out[-1][1][1] == p:
                prev = out.pop()
                out.append((conds, ("assignDefault", p, prev[1][2], fresh()), prev[2] + " ; " + text))
            else:
                out.append((conds, ("defaultIfZero", p, fresh()), text))
        elif kind == "setOwnerRef":
            out.append((conds, ("setOwnerRef",), text))
        elif kind in ("local", "ret"):
            out.append((conds, ("skip",), text))
        else:
            out.append((conds, ("other", fresh()), text))
    if stack:
        raise RuntimeError("unbalanced guards in closure %d" % cl["idx"])
    return out


def lean_atom(a):
    if a[0] == "assign":
        return ".assign %s %d" % (a[1], a[2])
    if a[0] == "assignDefault":
        return ".assignDefault %s %d %d" % (a[1], a[2], a[3])
    if a[0] == "defaultIfZero":
        return ".defaultIfZero %s %d" % (a[1], a[2])
    if a[0] == "other":
        return ".other %d" % a[1]
    return "." + a[0]


def lean_str(s):
    return json.dumps(s, ensure_ascii=True)


def generate(ck):
    binary = _binary(ck)
    if binary is None:
        raise RuntimeError("harness (which contains the translator) does not build")
    rc, out, err = ck.run_bin(binary, args=["extract", lib.REPO])
    if rc != 0:
        raise RuntimeError("translator failed: " + out[-500:] + err[-500:])
    closures = parse_extract(out)
    it = Interner()
    flat = [flatten(c, it) for c in closures]
    ck._c42 = {"closures": closures, "flat": flat, "interner": it}
    src = ("-- REGENERATED by checks/C42.py from pkg/operator/*.go (controllerutil.CreateOrUpdate mutate closures)\n"
           "import KafVerif.Model.OperatorMutate\nnamespace KafVerif.Gen.C42\nopen KafVerif.Operator\n")
    src += "/-- segment ids: " + ", ".join("%d=%s" % (v, k) for k, v in sorted(it.ids.items(), key=lambda kv: kv[1])) + " -/\n"
    src += "def segCount : Nat := %d\n" % len(it.ids)
    for c, fl in zip(closures, flat):
        src += "/-- %s:%d %s (%s %s) -/\ndef prog%d : List GStmt := [\n" % (c["file"], c["line"], c["func"], c["type"], c["name"].replace("-/", "- /"), c["idx"])
        rows = []
        for conds, atom, text in fl:
            cs = "[" + ", ".join("(%d, %s)" % (i, "true" if b else "false") for i, b in conds) + "]"
            rows.append("  ⟨%s, %s⟩" % (cs, lean_atom(atom)))
        src += ",\n".join(rows) + "]\n"
    src += "def closures : List Closure := [\n" + ",\n".join(
        "  { func := %s, objType := %s, prog := prog%d, impure := %d }" % (lean_str(c["func"]), lean_str(c["type"]), c["idx"], len(c["impure"]))
        for c in closures) + "]\n"
    # names of the owned objects: one row per (CreateOrUpdate site, resolved Name expression); kinds are interned, suffixes are
    # byte lists (kernel `decide` does not reduce String operations)
    kinds = {}
    rows = []
    for c in closures:
        if not c["names"]:
            raise RuntimeError("extractor reported no Name expression for closure %d" % c["idx"])
        for form, suffix, text in c["names"]:
            k = kinds.setdefault(c["type"], len(kinds) + 1)
            f = ".concat %s" % list(suffix.encode()) if form == "concat" else ".other"
            rows.append("  -- %s %s:%d  %s\n  { closure := %d, kind := %d, form := %s }" % (c["type"], c["file"], c["line"], text.replace("\n", " "), c["idx"], k, f))
    src += "/-- kind ids: " + ", ".join("%d=%s" % (v, k) for k, v in kinds.items()) + " -/\n"
    src += "def nameSites : List NameSite := [\n" + ",\n".join(rows) + "]\nend KafVerif.Gen.C42\n"
    ck._c42["names"] = [(c["type"], n) for c in closures for n in c["names"]]
    old = open(GEN).read() if os.path.exists(GEN) else None
    if old != src:
        os.makedirs(os.path.dirname(GEN), exist_ok=True)
        tmp = GEN + ".tmp%d" % os.getpid()
        open(tmp, "w").write(src)
        os.replace(tmp, GEN)
    d = ck.cov["distribution"]
    d["closures_translated"] = len(closures)
    for fl in flat:
        for _, atom, _ in fl:
            d["ir_" + atom[0]] = d.get("ir_" + atom[0], 0) + 1
    d["purity_findings"] = sum(len(c["impure"]) for c in closures)
    d["owned_name_sites"] = sum(len(c["names"]) for c in closures)
    d["owned_name_sites_not_plain_concat"] = sum(1 for c in closures for n in c["names"] if n[0] != "concat")


# ------------------------------------------------------------------ generator of cluster specs

ENVS = [
    {},
    {"KAFSCALE_OPERATOR_ETCD_SNAPSHOT_BUCKET": "snapshots"},
    {"KAFSCALE_OPERATOR_ETCD_STORAGE_MEMORY": "true", "KAFSCALE_OPERATOR_ETCD_REPLICAS": "1"},
    {"KAFSCALE_OPERATOR_ETCD_ENDPOINTS": "http://etcd-a:2379, http://etcd-b:2379"},
    {"KAFSCALE_OPERATOR_ETCD_STORAGE_CLASS": "fast", "KAFSCALE_OPERATOR_ETCD_STORAGE_SIZE": "20Gi",
     "KAFSCALE_OPERATOR_ETCD_SNAPSHOT_S3_ENDPOINT": "http://minio:9000", "KAFSCALE_OPERATOR_ETCD_SNAPSHOT_CREATE_BUCKET": "true"},
    {"KAFSCALE_ACL_ENABLED": "true", "KAFSCALE_ACL_JSON": "{\"default\":\"deny\"}", "KAFSCALE_LOG_LEVEL": "debug",
     "KAFSCALE_PRINCIPAL_SOURCE": "client_id", "KAFSCALE_OPERATOR_ETCD_MAINTENANCE_ENABLED": "false"},
    {"KAFSCALE_OPERATOR_ETCD_DEFRAG_ENABLED": "true", "KAFSCALE_OPERATOR_ETCD_QUOTA_BACKEND_BYTES": "4294967296"},
]


def opt(rng, num, den, f):
    return f() if rng.chance(num, den) else None


def kvmap(rng, prefix, nmax):
    n = rng.below(nmax + 1)
    return {"%s%d" % (prefix, rng.below(40)): "v%d" % rng.below(9) for _ in range(n)}


def gen_spec(rng):
    brokers = {}
    r = opt(rng, 3, 4, lambda: rng.choice([1, 1, 2, 3, 5, 0]))
    if r is not None:
        brokers["replicas"] = r
    if rng.chance(1, 2):
        res = {}
        if rng.chance(2, 3):
            res["requests"] = {k: v for k, v in [("cpu", rng.choice(["500m", "1", "2"])), ("memory", rng.choice(["1Gi", "512Mi"])),
                                                 ("ephemeral-storage", "1Gi")][: rng.range(1, 3)]}
        if rng.chance(1, 2):
            res["limits"] = {"cpu": "4", "memory": "8Gi", "hugepages-2Mi": "64Mi"}
        brokers["resources"] = res
    if rng.chance(1, 2):
        brokers["advertisedHost"] = rng.choice(["kafka.example.com", " padded.example.com ", ""])
    if rng.chance(1, 3):
        brokers["advertisedPort"] = rng.choice([19092, 0, 443])
    if rng.chance(2, 3):
        svc = {"type": rng.choice(["LoadBalancer", "NodePort", "ClusterIP", "", "bogus"])}
        ann = kvmap(rng, "example.com/a", 6)
        if ann:
            svc["annotations"] = ann
        if rng.chance(1, 3):
            svc["loadBalancerIP"] = rng.choice(["203.0.113.10", "  203.0.113.11 ", " "])
        if rng.chance(1, 3):
            svc["loadBalancerSourceRanges"] = ["203.0.113.0/24", "198.51.100.0/24"][: rng.range(1, 2)]
        if rng.chance(1, 3):
            svc["externalTrafficPolicy"] = rng.choice(["Local", "Cluster", "x"])
        if rng.chance(1, 3):
            svc["kafkaNodePort"] = rng.choice([30092, 0])
        if rng.chance(1, 4):
            svc["metricsNodePort"] = 30093
        brokers["service"] = svc
    s3 = {"bucket": rng.choice(["bucket", "kafscale-data"]), "region": rng.choice(["us-east-1", "eu-west-1"]),
          "credentialsSecretRef": rng.choice(["creds", "creds", "", " "])}
    for k, vals in [("endpoint", ["http://minio:9000", " "]), ("readBucket", ["replica"]), ("readRegion", ["us-west-2"]),
                    ("readEndpoint", ["http://replica:9000"]), ("kmsKeyArn", ["arn:aws:kms:x"])]:
        if rng.chance(1, 3):
            s3[k] = rng.choice(vals)
    spec = {"brokers": brokers, "s3": s3, "etcd": {"endpoints": rng.choice([[], [], [], ["http://e1:2379", " http://e2:2379 ", "http://e1:2379"]])}}
    if rng.chance(1, 2):
        spec["config"] = {k: v for k, v in [("segmentBytes", rng.choice([0, 1048576])), ("flushIntervalMs", rng.choice([0, 500])),
                                            ("cacheSize", rng.choice(["", "256Mi"]))]}
    if rng.chance(1, 2):
        lfs = {"enabled": rng.chance(4, 5)}
        if rng.chance(1, 2):
            lfs["replicas"] = rng.choice([0, 1, 3])
        if rng.chance(1, 2):
            lfs["image"] = "ghcr.io/kafscale/lfs-proxy:test"
        if rng.chance(1, 3):
            lfs["backends"] = ["b-0:9092", "b-1:9092"]
        if rng.chance(1, 2):
            svc = {"type": rng.choice(["LoadBalancer", "ClusterIP", ""])}
            ann = kvmap(rng, "lfs.example.com/a", 5)
            if ann:
                svc["annotations"] = ann
            if rng.chance(1, 3):
                svc["loadBalancerSourceRanges"] = ["10.0.0.0/8"]
            if rng.chance(1, 3):
                svc["port"] = 19093
            lfs["service"] = svc
        if rng.chance(1, 2):
            lfs["http"] = {"enabled": rng.chance(2, 3), "port": 8080, "apiKeySecretRef": rng.choice(["", "apikey"]), "apiKeySecretKey": "key"}
        if rng.chance(1, 2):
            lfs["metrics"] = {"enabled": rng.chance(2, 3), "port": 9095}
        if rng.chance(1, 3):
            lfs["health"] = {"enabled": True, "port": 9096}
        if rng.chance(1, 3):
            lfs["s3"] = {"namespace": "lfs", "maxBlobSize": 1 << 30, "chunkSize": 1 << 20, "forcePathStyle": True, "ensureBucket": rng.chance(1, 2)}
        spec["lfsProxy"] = lfs
    return spec


LONG_NAME_LENGTHS = [30, 32, 33, 34, 35, 40, 51, 52, 53, 60]
MANAGED_ENVS = [0, 1, 2, 4, 6]      # indices into ENVS without external endpoints and with maintenance enabled


def long_name(rng, n):
    """a valid DNS-1123 label of exactly n characters (n <= 63)"""
    words = ["analytics", "streaming", "platform", "prod", "eu", "west", "1", "kafka", "payments", "ledger", "x9", "tier", "blue"]
    s = rng.choice(["analytics-streaming-platform-prod-1", "payments-ledger-kafka-eu-west-1", "a1"])
    while len(s) < n:
        s += "-" + rng.choice(words)
    s = s[:n]
    if s.endswith("-"):
        s = s[:-1] + "z"
    return s


def gen_case(rng, i):
    name = rng.choice(["demo", "prod-kafka", "a", "c-%d" % rng.below(100)])
    env = dict(rng.choice(ENVS))
    if rng.chance(1, 4):
        env.update(rng.choice(ENVS))
    spec = gen_spec(rng)
    # long cluster names (derived object names approach / pass the 52 and 63 character limits); the first three cases
    # of every run are managed-etcd clusters with >= 34-character names, so that stream does not depend on the seed
    forced = i < 3
    if forced or rng.chance(2, 5):
        n = [35, 34, 52][i] if forced else rng.choice(LONG_NAME_LENGTHS + [rng.range(30, 60)])
        name = long_name(rng, n)
        if forced or rng.chance(2, 3):
            env = dict(ENVS[rng.choice(MANAGED_ENVS)])
            spec["etcd"] = {"endpoints": []}
    if i == 0:
        spec = {"brokers": {"service": {"annotations": {"a/%d" % k: "v" for k in range(8)}}},
                "s3": {"bucket": "b", "region": "r", "credentialsSecretRef": "creds"}, "etcd": {"endpoints": []},
                "lfsProxy": {"enabled": True, "service": {"annotations": {"l/%d" % k: "v" for k in range(8)}}}}
        env = {"KAFSCALE_OPERATOR_ETCD_SNAPSHOT_BUCKET": "snapshots"}
    return {"name": name, "twin": "a" if name != "a" else "b", "namespace": rng.choice(["default", "kafscale"]), "spec": spec,
            "env": env, "rounds": 3}


# ------------------------------------------------------------------ run

def run_impl(ck, binary, cases, tag):
    fn = ck.path("ops_%s.txt" % tag)
    open(fn, "w").write("".join("case %s\n" % json.dumps(c, sort_keys=True).encode().hex() for c in cases))
    rc, out, err = ck.run_bin(binary, stdin_path=fn, timeout=900)
    lines = out.split("\n")[:-1]
    if rc != 0 or len(lines) != len(cases):
        return None, "impl-crash rc=%s lines=%d/%d %s" % (rc, len(lines), len(cases), err[-800:])
    res = []
    for l in lines:
        try:
            res.append(json.loads(l.split(" ", 1)[1]))
        except Exception:
            res.append({"err": "unparsable:" + l[:200]})
    return res, None


def monitor_all(case, res):
    """the property on one case; returns a list of (fingerprint, what)"""
    if "panic" in res:
        return [("reconcile-panic", "reconcile panicked: %s" % res["panic"][:200])]
    if res.get("err"):
        return []   # a spec the operator rejects is not an idempotence question (counted)
    hits = []
    for i, r in enumerate(res.get("rounds", [])):
        if r != "same":
            kind = re.sub(r"^diff\(([^/:]+).*$", r"\1", r)
            hits.append(("reconcile-not-idempotent:" + kind, "reconcile #%d changed an object produced by reconcile #%d: %s" % (i + 2, i + 1, r)))
            break
    if res.get("fresh") != "same":
        kind = re.sub(r"^diff\(([^/:]+).*$", r"\1", res.get("fresh", "?"))
        hits.append(("render-not-deterministic:" + kind, ("two reconciles of the same cluster and environment on fresh API servers rendered "
                                                         "different objects: %s" % res.get("fresh"))))
    # write monitor: a repeat reconcile of an unchanged cluster sends no write request (CreateOrUpdate only calls Update when
    # the mutated object differs from the fetched one) and moves no resourceVersion
    rw = res.get("repeat_writes")
    if rw is not None:
        # the only write HEAD repeats: deleteLegacyBrokerDeployment deletes `<name>-broker` unconditionally and gets NotFound —
        # a Delete answered NotFound changed nothing and is not counted; every other request is
        rw = [w for w in rw if not (w["op"].endswith(":delete") and w["rv1"] == "notfound")]
    if rw is None or "rv" not in res:
        hits.append(("harness-incomplete", "harness did not report repeat_writes / rv"))
    else:
        if rw:
            w = rw[0]
            hits.append(("reconcile-repeat-writes:" + w["kind"],
                         "reconcile of an unchanged cluster sent %d write request(s) after the first pass; first: %s %s/%s resourceVersion %s->%s; all: %s"
                         % (len(rw), w["op"], w["kind"], w["name"], w["rv0"], w["rv1"],
                            ", ".join("%s %s/%s" % (x["op"], x["kind"], x["name"]) for x in rw[:8]))))
        else:
            for i, r in enumerate(res["rv"]):
                if r != "same":
                    kind = re.sub(r"^diff\(([^/:]+).*$", r"\1", r)
                    hits.append(("reconcile-repeat-writes:" + kind, "resourceVersion of an owned object moved between reconcile #%d and #%d "
                                 "of an unchanged cluster: %s" % (i + 1, i + 2, r)))
                    break
    tw = res.get("twin")
    if tw is not None and tw != "same":
        if tw.startswith("err:"):
            hits.append(("owned-object-count:twin-reconcile-error", "the same spec/env under cluster name %r failed to reconcile while %r "
                         "reconciled: %s" % (case.get("twin"), case["name"], tw)))
        else:
            kind = re.sub(r"^diff\(([^/:]+).*$", r"\1", tw)
            hits.append(("owned-object-count:" + kind, "the same spec and environment own a different number of objects under cluster name %r "
                         "(%d chars) than under %r: %s (twin->this)" % (case["name"], len(case["name"]), case.get("twin"), tw)))
    return hits


def monitor(case, res, want=None):
    hits = monitor_all(case, res)
    if want is not None:
        hits = [h for h in hits if h[0] == want]
    return hits[0] if hits else None


def shrink_case(ck, binary, case, fp):
    """drop spec sub-trees / env vars while the same fingerprint still shows (bounded)"""
    budget = [25]

    def fails(c):
        budget[0] -= 1
        if budget[0] < 0:
            return False
        for _ in range(2):   # map-order defects are probabilistic: try twice
            res, crash = run_impl(ck, binary, [c], "dd")
            if crash:
                return False
            if monitor(c, res[0], fp):
                return True
        return False
    cur = json.loads(json.dumps(case))
    for k in list(cur["env"].keys()):
        t = json.loads(json.dumps(cur)); del t["env"][k]
        if fails(t):
            cur = t
    for top in ["lfsProxy", "config"]:
        if top in cur["spec"]:
            t = json.loads(json.dumps(cur)); del t["spec"][top]
            if fails(t):
                cur = t
    for sec in ["brokers", "s3", "lfsProxy"]:
        for k in list(cur["spec"].get(sec, {}).keys()):
            if sec == "s3" and k in ("bucket", "region", "credentialsSecretRef"):
                continue
            t = json.loads(json.dumps(cur)); del t["spec"][sec][k]
            if fails(t):
                cur = t
    return cur


def coverage_ops(ck, res):
    """write-coverage tie: every field the real reconcile set must be covered by an IR write of some closure of that type"""
    g = ck._c42
    it = g["interner"]
    by_type = {}
    for c in g["closures"]:
        by_type.setdefault(c["type"], []).append(c["idx"])
    ops, meta = [], []
    for o in res.get("objects", []):
        paths = [p for p in o["paths"] if p and [s.lower() for s in p[:2]] not in (["metadata", "name"], ["metadata", "namespace"])]
        for idx in by_type.get(o["kind"], []):
            for p in paths:
                ops.append("covers %d %s" % (idx, " ".join(str(x) for x in it.json_path(p))))
                meta.append((o["kind"], o["name"], idx, ".".join(p)))
    return ops, meta, by_type


def run(ck):
    binary = _binary(ck)
    if binary is None:
        return
    if not hasattr(ck, "_c42"):
        generate(ck)
    ck.cov["rule"] = ("generated KafscaleCluster specs (brokers/service/resources/s3/etcd/config/lfsProxy with boundary values, multi-entry "
                      "maps, cluster names of 1..60 chars with boundaries around the 52/63 limits of derived names) x operator environments, each "
                      "reconciled 3x on one fake API server (write requests recorded per pass) and once on a fresh one, plus once under a short twin name; a case is "
                      "non-trivial when it produced at least 6 objects; distinct = distinct (spec, env)")
    n = 60 if ck.quick() else 500
    cases = [gen_case(ck.rng.fork(), i) for i in range(n)]
    res, crash = run_impl(ck, binary, cases, "all")
    if crash:
        ck.broke("implementation harness did not answer every case", crash)
        return
    seen_cov = set()
    cov_ops, cov_meta = [], []
    types_seen = {}
    for case, r in zip(cases, res):
        nobj = len(r.get("objects", []))
        ck.count("objects_compared", nobj * 3)
        ck.count("reconcile_errors", 1 if r.get("err") else 0)
        ck.count("managed_etcd" if any(o["kind"] == "PodDisruptionBudget" for o in r.get("objects", [])) else "external_etcd")
        ck.case(json.dumps(case, sort_keys=True), nontrivial=nobj >= 6,
                sample={"case": {"name": case["name"], "env": case["env"], "spec_keys": sorted(case["spec"].keys())},
                        "impl": {k: v for k, v in r.items() if k != "objects"}})
        ck.cov["traces_validated_against_impl"] += 1
        for o in r.get("objects", []):
            types_seen[o["kind"] + " " + o["name"]] = types_seen.get(o["kind"] + " " + o["name"], 0) + 1
        ck.count("name_len_ge34" if len(case["name"]) >= 34 else "name_len_lt34")
        ck.count("repeat_pass_write_requests", len(r.get("repeat_writes") or []))
        ms = monitor_all(case, r)
        if ms:
            for fp, what in ms:
                if fp not in [v["fingerprint"] for v in ck.violations]:
                    small = shrink_case(ck, binary, case, fp)
                    ck.violation(fp, what, {"case": small, "expected": "every object identical after each further reconcile and on a fresh "
                                            "API server; no write request and no resourceVersion change on repeat reconciles; same number "
                                            "of owned objects per kind as the same spec under a short cluster name", "actual": what})
            continue
        ops, meta, _ = coverage_ops(ck, r)
        for op, mt in zip(ops, meta):
            if op not in seen_cov:
                seen_cov.add(op)
                cov_ops.append(op)
                cov_meta.append(mt)
    ck.cov["distribution"]["object_kinds_seen"] = len(types_seen)
    # model side of the tie: ask the Lean driver which of the really-written fields the IR predicts
    if cov_ops and not ck.violations:
        fn = ck.path("cov_ops.txt")
        open(fn, "w").write("\n".join(cov_ops) + "\n")
        try:
            ans = ck.lean_run("C42", fn)
        except Exception as e:
            ck.broke("model driver", repr(e)[-2000:])
            ans = None
        if ans is not None:
            covered = {}
            for a, (kind, name, idx, path) in zip(ans, cov_meta):
                covered.setdefault((kind, name, idx), []).append((path, a == "covered"))
            objs = {}
            for (kind, name, idx), lst in covered.items():
                miss = [p for p, ok in lst if not ok]
                objs.setdefault((kind, name), []).append((idx, miss))
            ck.count("fields_checked_against_ir", len(cov_ops))
            for (kind, name), alts in sorted(objs.items()):
                best = min(alts, key=lambda x: len(x[1]))
                if best[1]:
                    ck.cov["disagreements_checked"] += 1
                    ck.broke("correspondence IR/implementation (write coverage)",
                             "object %s %s: the real reconcile set field(s) %s that no translated closure of that type writes "
                             "(best candidate: closure %d) — the translator missed a write, the idempotence theorem does not cover this closure"
                             % (kind, name, best[1][:6], best[0]))
                    break
    if ck.broken and not ck.violations:
        # hunt: more specs, monitors only
        more = [gen_case(ck.rng.fork(), i + 1) for i in range(150)]
        res2, crash = run_impl(ck, binary, more, "hunt")
        if not crash:
            for case, r in zip(more, res2):
                ck.cov["evaluations"] += 1
                m = monitor(case, r)
                if m:
                    small = shrink_case(ck, binary, case, m[0])
                    ck.violation(m[0], m[1], {"case": small, "actual": m[1]})
                    break
    ck.partial = ("the idempotence theorem is about the IR produced by the go/ast translator (trusted, validated by the write-coverage tie), "
                  "not about the Go code; the API server is controller-runtime's fake client (no defaulting / admission mutation); "
                  "idempotence of the real closures is tested, not proved")


def replay(ck, path):
    rep = json.load(open(path))
    binary = _binary(ck)
    if binary is None:
        return
    case = rep.get("case")
    if not case:
        print("replay file holds no case (broken obligation/correspondence record):")
        print(json.dumps(rep.get("no_longer_checks", rep), indent=1)[:4000])
        return
    hit = None
    for attempt in range(5):   # ordering defects are probabilistic
        res, crash = run_impl(ck, binary, [case], "replay")
        if crash:
            ck.broke("implementation harness did not answer", crash)
            return
        print("  attempt %d: %s" % (attempt + 1, json.dumps({k: v for k, v in res[0].items() if k != "objects"})))
        hit = monitor(case, res[0], rep.get("fingerprint")) or monitor(case, res[0])
        if hit:
            break
    ck.case(json.dumps(case, sort_keys=True), sample={"case": case})
    ck.cov["evaluations"] = max(ck.cov["evaluations"], 1); ck.cov["distinct_nontrivial"] = 2
    if hit:
        ck.violation(hit[0], hit[1], {"case": case, "actual": hit[1]})
