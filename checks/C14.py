"""C14 — rebalances complete only when every member has rejoined."""
from checks import C12_common as G

PROPERTY = "C14"
LEAN_MODULES = ["KafVerif.Props.C14"]
OBLIGATIONS = [
    "KafVerif.C14.join_ok_all_joined",
    "KafVerif.C14.leader_is_member",
    "KafVerif.C14.only_leader_gets_members",
    "KafVerif.C14.leader_gets_all_members",
    "KafVerif.C14.sync_succeeds_when_stable",
    "KafVerif.C14.restoreOld_violates",
]
BUILDS = G.BUILDS
ASSUMPTIONS = G.COMMON_ASSUMPTIONS + [
    "\"has joined the current generation\" is judged from the requests themselves (ghost log of processed joins), not from the coordinator's joinGeneration field, so the marker lost in a failover is visible",
]
LEVEL_TEXT = ("Lean 4 theorems about the executable model of GroupCoordinator, for every reachable state (any history of "
              "join/sync/heartbeat/leave/commit/tick/cleanup/failover/store-fault steps with fresh member ids): a join answered "
              "NONE implies every current member sent a join in the reported generation (ghost join log, survives failover); "
              "a non-empty leader in a reply is a member; only the leader's NONE reply carries the member list and it is the "
              "full member list; a sync of a current member of a Stable group succeeds. The pre-fix restoreGroupState violates "
              "the first (witness). Tied to the source by the differential run plus a monitor with its own join log.")
TECHNIQUE = "Lean 4 proof (invariant over all reachable states) + Go/Lean differential correspondence + property monitor"

PROFILE = G.profile(etcd_quick=4, etcd_thorough=30, weights={"join": 14, "converge": 3, "leave": 5, "failover": 6, "failover_lazy": 3, "tick": 6, "sync": 8,
                             "commit": 1, "fetch": 0, "fail": 1, "meta": 0},
                    start_converged=50, clients=[2, 2, 3, 3, 4])
RULE = ("membership histories dominated by joins/leaves/expiries and failovers in the middle of rebalances, generated from "
        "VERIF_SEED; non-trivial = a group reached Stable; distinct = distinct implementation traces")


def monitor(tr):
    out = []
    joined = {}       # (group, generation) -> set of members whose join was processed in that generation
    for i, st in enumerate(tr.steps):
        f, reply, pre, post = st["f"], st["reply"], st["pre"], st["post"]
        kind = f[0]
        if kind == "reset":
            joined = {}
        for key in [k for k in joined if k[0] not in post["G"] and k[0] not in post["P"]]:
            del joined[key]
        jr, g = None, None
        if kind == "join" and reply.get("kind") == "join":
            jr, g = reply, f[1]
        elif kind == "race" and reply.get("kind") == "race" and reply["other"].get("kind") == "join":
            jr, g = reply["other"], st["other_f"][1]
        if kind == "par" and reply.get("kind") == "par":
            # joins inside a two-request op (histories of the shared corpus) count as joins of their generation
            for side in ("a", "b"):
                w, o = st[side + "_f"], reply[side]
                if w and w[0] == "join" and o.get("kind") == "join":
                    joined.setdefault((w[1], o["gen"]), set()).add(o["me"])
        if jr is not None:
            joined.setdefault((g, jr["gen"]), set()).add(jr["me"])
            grp = post["G"].get(g)
            if grp is not None:
                if jr["code"] == 0:
                    missing = [m for m in grp["mem"] if m not in joined[(g, jr["gen"])]]
                    if missing:
                        out.append((i, "join-success-before-all-rejoined",
                                    "join of %s answered NONE in generation %d while %s had not joined that generation" % (jr["me"], jr["gen"], missing)))
                if jr["ld"] != "-" and jr["ld"] not in grp["mem"]:
                    out.append((i, "leader-not-a-member", "reply names leader %s, members are %s" % (jr["ld"], sorted(grp["mem"]))))
                # under an injected PutConsumerGroup failure the leader's answer keeps the member list but carries
                # UNKNOWN_SERVER_ERROR (as coded, and as `only_leader_gets_members` states: never REBALANCE_IN_PROGRESS,
                # never to a non-leader); that is not counted against "only the leader's successful reply"
                ok_code = jr["code"] == 0 or (jr["code"] == -1 and 0 in st["everfault"])
                if jr["mem"] and not (ok_code and jr["me"] == jr["ld"]):
                    out.append((i, "member-list-sent-to-non-leader", "reply to %s (leader %s, code %d) carries members %s" % (jr["me"], jr["ld"], jr["code"], sorted(jr["mem"]))))
                if jr["code"] == 0 and jr["me"] == jr["ld"]:
                    want = {m: v["topics"] for m, v in grp["mem"].items()}
                    if jr["mem"] != want:
                        out.append((i, "leader-member-list-incomplete", "leader got %s, members are %s" % (jr["mem"], want)))
        if kind == "sync" and reply.get("kind") == "sync":
            g = f[1]
            grp = G.effective_group(pre, g)
            if grp is not None and grp["ph"] == "stable" and st["member"] in grp["mem"] and st["gen"] == grp["gen"]:
                if reply["code"] != 0 and not st["everfault"]:
                    out.append((i, "sync-fails-after-leader-synced", "sync of current member %s in a Stable group answered %d" % (st["member"], reply["code"])))
    return out


def run(ck):
    G.run_property(ck, PROFILE, monitor, n_quick=200, n_thorough=2000, nops=45, rule=RULE)


def replay(ck, path):
    G.replay(ck, path, monitor)
