"""C27 — proxy answers every requested partition once, without duplicate writes."""
import json

from checks import lib

PROPERTY = "C27"
LEAN_MODULES = ["KafVerif.Props.C27"]
OBLIGATIONS = [
    "KafVerif.C27.group_partition",
    "KafVerif.C27.one_entry_each",
    "KafVerif.C27.success_sound",
    "KafVerif.C27.resend_only_after_not_leader",
    "KafVerif.C27.fetch_resend_reason",
    "KafVerif.C27.at_most_three_attempts",
    "KafVerif.C27.sends_le_one_plus_not_leader",
    "KafVerif.C27.acks0_each_partition_sent_once",
    "KafVerif.C27.model_meets_spec",
]
ASSUMPTIONS = [
    "requested topic-partitions are pairwise distinct (DESIGN section 5); a decodable backend reply lists exactly the partitions of its sub-request (true of the broker's handleProduce/handleFetch; replies of another shape are exercised for correspondence only)",
    "a backend that answers NOT_LEADER_OR_FOLLOWER for a partition has not appended to it",
    "fetch replies of the scripted backends carry a record payload naming (topic, partition, send); a merged reply entry whose records belong to another topic-partition "
    "(e.g. topics merged under one entry when a v13+ fetch addresses topics by id only) is reported by the monitor",
    "sub-requests of one attempt are independent (sync.WaitGroup fan-out); Go's random map order is a parameter `ord` of the model (any permutation per attempt)",
    "scripted backends always read the request frame before failing; `down=all` is all-or-nothing per case; backend hangs (no reply, connection kept open) are not generated: forwardToBackend has no deadline",
    "two concurrent clients: exercised on disjoint topic sets with separate per-connection pools (as handleConnection creates them) and backends that hold replies until both clients' sub-requests are in flight; the model runs them one after the other on the shared routing table (their Invalidate calls commute)",
    "acks=0 fire-and-forget is modelled as one write per group (no reply, no retry); the unparsable-request raw path is not modelled; connection-pool reuse races are out of scope",
]
TECHNIQUE = ("Lean 4 theorems (induction over the retry loop, for every routing table, backend oracle and processing order) about a "
             "line-by-line model of groupPartitionsByBroker / forwardProduce / forwardFetch; differential correspondence with a real "
             "proxy wired to a scripted PartitionRouter and scripted TCP backends + direct property monitor on the implementation's "
             "replies and the backends' receive logs")
LEVEL_TEXT = ("proof: for every request with distinct partitions, routing table, processing order and backend behaviour whose decodable "
              "replies have the sub-request's shape, the merged reply has exactly one entry per requested partition; a code-0 entry is "
              "copied from a backend reply; a produce partition is re-sent only after NOT_LEADER in the previous attempt (fetch: also "
              "after a transport/connect error); at most three attempts")
LEVEL_NOTE = "theorems are about the model; correspondence and monitor are testing and bound what the tie sees"
BUILDS = {"h": ("root", "./cmd/proxy", ["C27"])}

NOT_LEADER = 6
TRANSPORT = ("close", "garbage", "short")
SHAPE = ("omit", "dup", "extra")


# ----------------------------------------------------------------------------- generator
def gen_case(rng, malformed=False):
    fetch13 = rng.chance(1, 6)
    universe = [(t, p) for t in range(4) for p in range(4)]
    route = []
    nil_router = rng.chance(1, 20)
    if not nil_router:
        density = rng.choice([0, 1, 2, 3, 3, 4])
        for tp in universe:
            if rng.below(4) < density:
                route.append((tp, rng.choice([0, 0, 1, 1, 2, 7])))
    known = [b for b in (0, 1, 2) if not rng.chance(1, 8)]
    k = rng.below(20)
    if k < 12:
        down = []
    elif k < 17:
        down = sorted(set(rng.choice([0, 1, 2]) for _ in range(rng.range(1, 2))))
    else:
        down = "all"
    unres = sorted(set(rng.below(4) for _ in range(rng.range(1, 2)))) if (fetch13 and rng.chance(2, 3)) else []
    setup = "setup route=%s known=%s unres=%s down=%s" % (
        ",".join("%d:%d=%d" % (tp[0], tp[1], b) for tp, b in route) or "-",
        ",".join(map(str, known)) or "-", ",".join(map(str, unres)) or "-",
        down if down == "all" else (",".join(map(str, down)) or "-"))
    if nil_router:
        setup += " router=nil"
    ops = [setup]
    for _ in range(rng.range(1, 4)):
        ops.append(gen_request(rng, fetch13, malformed))
    if not fetch13 and not malformed and rng.chance(1, 2):
        # two clients at once through the same proxy: client 0 on topics 0-1, client 1 on topics 2-3
        a = gen_request(rng, False, False, pool=(0, 1))
        b = gen_request(rng, False, False, pool=(2, 3))
        ops.append("C %s || %s" % (a, b))
    return ops


def gen_request(rng, fetch13, malformed, pool=None):
    if fetch13:
        kind, v = "F", 13
    elif rng.chance(1, 2):
        kind, v = "P", rng.choice([3, 5, 7, 8, 9])
    else:
        kind, v = "F", rng.choice([11, 12, 13])
    nt = rng.choice([1, 1, 2, 2, 3])
    topics = []
    while len(topics) < nt:
        t = rng.below(4) if pool is None else rng.choice(pool)
        if t not in topics or rng.chance(1, 6):
            topics.append(t)
    used = set()
    entries = []
    for t in topics:
        ps = []
        for _ in range(rng.choice([1, 1, 2, 3, 4])):
            p = rng.below(4)
            if (t, p) not in used:
                used.add((t, p))
                ps.append(p)
        if ps:
            entries.append((t, ps))
    if not entries:
        entries = [(0, [0])]
    tps = [(t, p) for t, ps in entries for p in ps]
    if kind == "P" and pool is None and rng.chance(1, 6):
        return "A v=%d req=%s" % (v, ";".join("%d:%s" % (t, "+".join(map(str, ps))) for t, ps in entries))
    codes, faults = [], []
    flaky = rng.choice([0, 1, 2, 2, 3])
    for tp in tps:
        for k in range(3):
            r = rng.below(12)
            if r < flaky:
                codes.append("%d:%d:%d=%d" % (tp[0], tp[1], k, NOT_LEADER))
            elif r == 11 and rng.chance(1, 2):
                codes.append("%d:%d:%d=%d" % (tp[0], tp[1], k, rng.choice([1, 3, 7, 2, 87])))
            if rng.chance(1, 10):
                faults.append("%d:%d:%d=%s" % (tp[0], tp[1], k, rng.choice(TRANSPORT)))
            elif malformed and rng.chance(1, 6):
                faults.append("%d:%d:%d=%s" % (tp[0], tp[1], k, rng.choice(SHAPE)))
    return "%s v=%d req=%s code=%s fault=%s" % (
        kind, v, ";".join("%d:%s" % (t, "+".join(map(str, ps))) for t, ps in entries),
        ",".join(codes) or "-", ",".join(faults) or "-")


# ----------------------------------------------------------------------------- parsing / canonical forms
def kv(line, k):
    for w in line.split():
        if w.startswith(k + "="):
            return w[len(k) + 1:]
    return "-"


def lst(s, sep):
    return [] if s in ("-", "") else s.split(sep)


def parse_sub(s):
    out = []
    for e in lst(s, ";"):
        t, ps = e.split(":")
        out += [(int(t), int(p)) for p in lst(ps, "+")]
    return out


def parse_script(s):
    m = {}
    for e in lst(s, ","):
        lhs, v = e.split("=")
        t, p, k = lhs.split(":")
        m[(int(t), int(p), int(k))] = v
    return m


def parse_reply(s):
    out = []
    for e in lst(s, ","):
        tp, rest = e.split("=")
        t, p = tp.split(":")
        c, m = rest.split("/")
        out.append((int(t), int(p), int(c), int(m)))
    return out


def parse_recv(s):
    out = []
    for e in lst(s, ","):
        who, sub = e.split("|")
        out.append((who, sub))
    return out


def recv_matches(impl, model):
    """model entries may carry who='*' (backend not determined by the model)."""
    subs = set(s for _, s in impl) | set(s for _, s in model)
    for sub in subs:
        iw = sorted(w for w, s in impl if s == sub)
        mw = [w for w, s in model if s == sub]
        if len(iw) != len(mw):
            return False
        for w in mw:
            if w != "*":
                if w not in iw:
                    return False
                iw.remove(w)
    return True


def same(impl_line, model_line):
    if " || " in impl_line or " || " in model_line:
        a, b = impl_line.split(" || "), model_line.split(" || ")
        return len(a) == len(b) and all(same(x, y) for x, y in zip(a, b))
    if not impl_line.startswith("reply=") or not model_line.startswith("reply="):
        return impl_line == model_line
    if "anomaly=" in impl_line:
        return False
    if "none" in (kv(impl_line, "reply"), kv(model_line, "reply")):
        return (kv(impl_line, "reply") == kv(model_line, "reply")
                and sorted(lst(kv(impl_line, "route"), ",")) == sorted(lst(kv(model_line, "route"), ","))
                and recv_matches(parse_recv(kv(impl_line, "recv")), parse_recv(kv(model_line, "recv"))))
    return (sorted(parse_reply(kv(impl_line, "reply"))) == sorted(parse_reply(kv(model_line, "reply")))
            and sorted(lst(kv(impl_line, "route"), ",")) == sorted(lst(kv(model_line, "route"), ","))
            and recv_matches(parse_recv(kv(impl_line, "recv")), parse_recv(kv(model_line, "recv"))))


def mark_of(t, p, k):
    return 1000000 * (k + 1) + 1000 * t + p


# ----------------------------------------------------------------------------- the property, on the implementation's line
def monitor(op, impl_line, all_down=False):
    """Returns (fingerprint, what) or None.  op = request line, impl_line = harness output."""
    if not impl_line.startswith("reply="):
        return ("proxy-gave-no-reply", "the proxy returned %r instead of a produce/fetch reply" % impl_line)
    fetch = op.split()[0] == "F"
    req = parse_sub(kv(op, "req"))
    if op.split()[0] == "A":   # acks=0: no reply; every partition written to exactly one backend, once
        if kv(impl_line, "reply") != "none":
            return ("acks0-got-a-reply", "an acks=0 produce was answered: %s" % impl_line)
        got = sorted(tp for _, sub in parse_recv(kv(impl_line, "recv")) for tp in parse_sub(sub))
        want = [] if all_down else sorted(req)
        if got != want:
            return ("acks0-not-written-exactly-once", "acks=0 produce of %s: backends received %s" % (sorted(req), got))
        return None
    codes = parse_script(kv(op, "code"))
    faults = parse_script(kv(op, "fault"))
    reply = parse_reply(kv(impl_line, "reply"))
    recv = parse_recv(kv(impl_line, "recv"))
    shape_faulty = any(v in SHAPE for v in faults.values())
    # what the scripted backends did, receipt by receipt (the log is in receipt order)
    count = {}
    answered = {}     # (t,p,k) -> code the backend put in a decodable reply
    lost = set()      # (t,p,k) sent, but the sub-request got no decodable reply
    for who, sub in recv:
        tps = parse_sub(sub)
        if not tps:
            continue
        k = count.get(tps[0], 0)
        fault = faults.get((tps[0][0], tps[0][1], k), "")
        for i, tp in enumerate(tps):
            kk = count.get(tp, 0)
            count[tp] = kk + 1
            if fault in TRANSPORT:
                lost.add((tp[0], tp[1], kk))
            elif not (fault == "omit" and i == 0):
                answered[(tp[0], tp[1], kk)] = int(codes.get((tp[0], tp[1], k), 0))
    # (1) exactly one entry per requested partition
    if not shape_faulty:
        got = sorted((t, p) for t, p, _, _ in reply)
        if got != sorted(req):
            return ("reply-entries-not-one-per-partition",
                    "requested %s, reply lists %s" % (sorted(req), got))
    # (2') a successful fetch entry carries the records the backend returned for THAT topic-partition (the harness compares
    #      the entry's record bytes with the payload id of its own (topic, partition, send) and notes a mismatch)
    if fetch and "records_of_" in kv(impl_line, "anomaly"):
        return ("reply-carries-another-partitions-records",
                "a fetch reply entry carries records of another topic-partition: %s" % kv(impl_line, "anomaly"))
    # (2) success only if a backend reported success
    for t, p, c, m in reply:
        if c == 0 and (t, p) in req:
            ok = any(answered.get((t, p, k)) == 0 and m == mark_of(t, p, k) for k in range(4))
            if not ok:
                return ("success-without-backend-success",
                        "%d:%d reported successful (mark %d) but no backend answered success for it" % (t, p, m))
    # (3) resend discipline
    for tp, n in count.items():
        if n > 3:
            return ("more-than-three-sends", "%s was sent %d times" % (tp, n))
        for k in range(1, n):
            prev = (tp[0], tp[1], k - 1)
            if answered.get(prev) == NOT_LEADER:
                continue
            if fetch and prev in lost:
                continue
            return ("resend-without-not-leader",
                    "%s %d:%d was sent again (send %d) although send %d was %s" % (
                        "fetch" if fetch else "produce", tp[0], tp[1], k, k - 1,
                        "answered %s" % answered[prev] if prev in answered else "not answered (transport error)"))
    return None


# ----------------------------------------------------------------------------- running
def run_impl(ck, binary, ops, tag):
    fn = ck.path("ops_%s.txt" % tag)
    open(fn, "w").write("\n".join(ops) + "\n")
    rc, out, err = ck.run_bin(binary, stdin_path=fn, env={"VERIF_HARNESS": "C27"}, timeout=240)
    impl = out.split("\n")[:-1]
    if rc != 0 or len(impl) != len(ops):
        return fn, impl, "impl-crash rc=%s lines=%d/%d %s" % (rc, len(impl), len(ops), err[-800:])
    return fn, impl, None


def run_lean_monitor(ck, ops, impl, tag):
    """The executable predicates of KafVerif.Props.C27 (the ones model_meets_spec is proved about),
    evaluated by the Lean driver on the implementation's replies and receive logs."""
    lines = []
    for o, r in zip(ops, impl):
        if o.startswith("C "):       # two concurrent clients: each reply against its own request
            parts, reps = o[2:].split(" || "), r.split(" || ")
            reps += ["missing"] * (len(parts) - len(reps))
            for po, pr in zip(parts, reps):
                lines += [po, "> " + pr]
            continue
        lines.append(o)
        if not o.startswith("setup"):
            lines.append("> " + r)
    fn = ck.path("mon_%s.txt" % tag)
    open(fn, "w").write("\n".join(lines) + "\n")
    out = ck.lean_run("C27", fn, args=["--monitor"])
    verdicts, j = [], 0
    for o in ops:
        if o.startswith("C "):
            vs = [out[j + 1], out[j + 3]]
            j += 4
            bad = [v.split(" ", 1)[1] for v in vs if v.startswith("violation")]
            verdicts.append("violation " + ",".join(bad) if bad else "ok")
            continue
        j += 1
        if o.startswith("setup"):
            verdicts.append("-")
        else:
            verdicts.append(out[j])
            j += 1
    return verdicts


def context_ops(ops, i):
    j = max(x for x in range(i + 1) if ops[x].startswith("setup"))
    return ops[j:i + 1]


def examine(ck, ops, impl, model, verdicts=None):
    first = None
    for i, o in enumerate(ops):
        if o.startswith("setup"):
            continue
        kind = o.split()[0]
        if kind == "C":
            ck.count("req_two_concurrent_clients")
            ctx = context_ops(ops, i)
            parts, reps = o[2:].split(" || "), impl[i].split(" || ")
            ck.case(tuple(ctx), nontrivial=True, sample={"ops": ctx, "impl": impl[i]})
            mon = None
            if len(reps) != len(parts):
                mon = ("proxy-gave-no-reply", "concurrent clients: harness returned %r" % impl[i])
            for po, pr in zip(parts, reps):
                if mon is None:
                    mon = monitor(po, pr, all_down=(kv(ctx[0], "down") == "all"))
                    if mon is None and "anomaly=" in pr and "correlation" in pr:
                        mon = ("reply-for-another-request", "reply carries another request's correlation id: " + kv(pr, "anomaly"))
            if mon is None and verdicts is not None and verdicts[i].startswith("violation"):
                names = verdicts[i].split(" ", 1)[1]
                mon = (names.split(",")[0], "Lean spec of KafVerif.Props.C27 fails on the implementation's trace: " + names)
            if mon:
                ck.violation(mon[0] + "-under-concurrency", "C27 broken with two concurrent clients (%s): %s" % mon,
                             {"ops": ctx, "expected": "each client's reply satisfies C27 for its OWN request",
                              "actual": impl[i], "model": model[i] if model else None})
            elif model is not None and not same(impl[i], model[i]) and first is None:
                first = i
            continue
        ck.count("req_" + {"P": "produce", "F": "fetch", "A": "produce_acks0"}[kind])
        ck.count("v" + kv(o, "v"))
        faults = parse_script(kv(o, "fault"))
        codes = parse_script(kv(o, "code"))
        for f in faults.values():
            ck.count("fault_" + f)
        ck.count("not_leader_scripted", sum(1 for c in codes.values() if c == str(NOT_LEADER)))
        recv = parse_recv(kv(impl[i], "recv")) if impl[i].startswith("reply=") else []
        ck.count("subrequests_received", len(recv))
        retried = len(recv) > len(set(s for _, s in recv)) or any(
            sum(1 for _, s in recv if tp in parse_sub(s)) > 1 for tp in parse_sub(kv(o, "req")))
        if retried:
            ck.count("requests_with_resend")
        ctx = context_ops(ops, i)
        ck.case(tuple(ctx), nontrivial=len(recv) >= 2 or retried, sample={"ops": ctx, "impl": impl[i]})
        mon = monitor(o, impl[i], all_down=(kv(ctx[0], "down") == "all"))
        if mon is None and verdicts is not None and verdicts[i].startswith("violation"):
            names = verdicts[i].split(" ", 1)[1]
            mon = (names.split(",")[0], "Lean spec of KafVerif.Props.C27 fails on the implementation's trace: " + names)
        if verdicts is not None:
            ck.count("lean_monitor_" + verdicts[i].split(" ")[0] + ("_hyp_not_met" if "hypothesis-not-met" in verdicts[i] else ""))
        if mon:
            ck.violation(mon[0], "C27 broken (%s): %s" % mon,
                         {"ops": ctx, "expected": "one entry per partition; success only from a backend success; "
                                                  "resend only after NOT_LEADER (fetch: or transport error)",
                          "actual": impl[i], "model": model[i] if model else None})
        elif model is not None and not same(impl[i], model[i]) and first is None:
            first = i
    return first


def small_scope_cases():
    """Every script over {success, NOT_LEADER} per (partition, send) x {reply, close} per send of the first
    partition, for a 2-partition request, 3 routing tables, produce and fetch: 2^6 * 2^3 * 3 * 2 = 3072 requests."""
    ops = []
    routes = ["0:0=0,0:1=0", "0:0=0,0:1=1", "-"]
    for route in routes:
        for kind, v in (("P", 7), ("F", 12)):
            for cm in range(64):
                codes = ["0:%d:%d=6" % (i // 3, i % 3) for i in range(6) if cm >> i & 1]
                for fm in range(8):
                    # the first partition of a sub-request may be 0:0 or 0:1: script both the same way
                    faults = ["0:%d:%d=close" % (p, k) for k in range(3) if fm >> k & 1 for p in (0, 1)]
                    ops.append("setup route=%s known=0,1,2 unres=- down=-" % route)
                    ops.append("%s v=%d req=0:0+1 code=%s fault=%s" % (kind, v, ",".join(codes) or "-", ",".join(faults) or "-"))
    return ops


def run(ck):
    bins = ck.build_all()
    if bins is None:
        return
    binary = bins["h"]
    ncases = 400 if ck.quick() else 4000
    ck.cov["rule"] = ("cases = scripted routing table (owners, unknown addresses, unresolvable fetch topic ids, nil router), backend "
                      "availability (up / some owners down / all down) and 1-3 produce (v3-v9) or fetch (v11-v13) requests with "
                      "per-(partition, send) reply codes and per-sub-request transport / shape faults, generated from VERIF_SEED; "
                      "non-trivial = the request was split into >= 2 sub-requests or something was re-sent; distinct = distinct "
                      "(setup, request history) contexts")
    ops = []
    import glob, os
    for f in sorted(glob.glob(os.path.join(lib.REPLAYS, "C27-*.json"))):   # corpus first
        ops += json.load(open(f))["ops"]
        ck.count("corpus_files")
    for i in range(ncases):
        ops += gen_case(ck.rng.fork(), malformed=(i % 8 == 7))
    if not ck.quick():
        ss = small_scope_cases()
        ops += ss
        ck.cov["small_scope_enumeration"] = ("all %d scripts {success,NOT_LEADER}^(2 partitions x 3 sends) x {reply,close}^3 x 3 routing "
                                             "tables x {produce,fetch} for a 2-partition request (validation, not the proof)" % (len(ss) // 2))
    fn, impl, crash = run_impl(ck, binary, ops, "all")
    if crash:
        ck.broke("implementation harness did not answer every op", crash)
        return
    model = ck.lean_run("C27", fn)
    verdicts = run_lean_monitor(ck, ops, impl, "all")
    ck.cov["traces_validated_against_impl"] += ncases
    d = examine(ck, ops, impl, model, verdicts)
    if d is not None:
        ck.cov["disagreements_checked"] += 1
        ck.broke("correspondence model/implementation (proxy fan-out)",
                 "ops %r\nimpl : %s\nmodel: %s" % (context_ops(ops, d), impl[d], model[d]))
        hunt(ck, binary)


def hunt(ck, binary):
    for rnd in range(3 if ck.quick() else 6):
        ops = []
        for i in range(300 if ck.quick() else 600):
            ops += gen_case(ck.rng.fork(), malformed=False)
        fn, impl, crash = run_impl(ck, binary, ops, "hunt%d" % rnd)
        if crash:
            return
        examine(ck, ops, impl, None, run_lean_monitor(ck, ops, impl, "hunt%d" % rnd))
        if ck.violations:
            return


def replay(ck, path):
    rep = json.load(open(path))
    bins = ck.build_all()
    if bins is None:
        return
    ops = rep["ops"]
    fn, impl, crash = run_impl(ck, bins["h"], ops, "replay")
    if crash:
        ck.broke("implementation harness did not answer every op", crash)
        return
    model = ck.lean_run("C27", fn)
    verdicts = run_lean_monitor(ck, ops, impl, "replay")
    for o, r, m, v in zip(ops, impl, model, verdicts):
        print("  op    %s\n  impl  %s\n  model %s\n  spec  %s" % (o, r, m, v))
    examine(ck, ops, impl, model, verdicts)
    ck.cov["evaluations"] = max(ck.cov["evaluations"], 1)
    ck.cov["distinct_nontrivial"] = max(ck.cov["distinct_nontrivial"], 2)
