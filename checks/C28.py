"""C28 — proxy metadata points clients at the proxy, topology intact."""
import json

from checks import lib

PROPERTY = "C28"
LEAN_MODULES = ["KafVerif.Props.C28"]
OBLIGATIONS = [
    "KafVerif.C28.only_proxy",
    "KafVerif.C28.only_proxy_wire",
    "KafVerif.C28.coordinator_only_proxy",
    "KafVerif.C28.not_ready_names_nobody",
    "KafVerif.C28.topology_all",
    "KafVerif.C28.topology_by_name",
    "KafVerif.C28.topology_by_id",
    "KafVerif.C28.by_id_from_snapshot",
    "KafVerif.C28.topology_kept",
    "KafVerif.C28.store_view_keeps",
    "KafVerif.C28.reply_depends_only_on_own_request",
    "KafVerif.C28.coalescing_sound_if_key_determines_load",
    "KafVerif.C28.names_key_coalescing_violates",
    "KafVerif.C28.old_violates",
]
ASSUMPTIONS = [
    "concurrency: overlapping Metadata requests are exercised with the first request held inside store.Metadata until the other 1-3 are in flight (or 60 ms); other interleavings (e.g. overlap only after the store read) are not enumerated",
    "the metadata store is InMemoryStore.Metadata/filterTopics (EtcdStore.Metadata delegates to it); snapshot topics carry a name (a nil name pointer panics inside the store, outside this property)",
    "kmsg codec and its field/version table (`wire` in the model) are trusted; the harness compares what a kmsg client decodes from the reply bytes",
    "topic ids: literal ids are generated with the upper 8 bytes zero; metadata.TopicIDForName (SHA-1 prefix the store assigns to a snapshot topic without id) is modelled as an injective constructor disjoint from the literal ids",
    "names/hosts are ASCII without the separators of the line protocol",
    "FindCoordinator is exercised at the advertised version 3 (and 0-2), where node/host/port are top-level fields",
]
TECHNIQUE = ("Lean 4 theorems about a line-by-line model of loadMetadata/filterTopics/buildProxyMetadataResponse/"
             "handleFindCoordinator/buildNotReadyResponse; differential correspondence through the real handleMetadata "
             "byte path + the theorems' own predicates evaluated by the Lean driver on the implementation's replies")
LEVEL_TEXT = ("proof: for every snapshot, request form and advertised address the reply names only node 0 (broker list, "
              "controller, leader, replicas, ISR, coordinator) and its topic list equals the declaratively specified one "
              "(all / by name / by id) on name, id, error code, is-internal and per-partition id, error code, leader epoch")
LEVEL_NOTE = ("the theorems are about the model (after fixes/C28-metadata-error-topic-leaders.patch; the code as found is "
              "kept as buildResponseOld with the witness old_violates); correspondence and monitor are testing")
BUILDS = {"h": ("root", "./cmd/proxy", ["C28"])}

NODE_IDS = [0, 1, 2, 3, 7, 100, -1]
NAMES = ["orders", "a", "b", "t.1", "x-y", "__consumer_offsets", "payments", "a.b_c"]
VERSIONS = [0, 1, 2, 4, 5, 7, 9, 10, 11, 12]


def ints(rng, lo=0, hi=3):
    n = rng.range(lo, hi)
    return "+".join(str(rng.choice(NODE_IDS)) for _ in range(n)) if n else "-"


def gen_snapshot(rng):
    nb = rng.choice([0, 1, 2, 3, 3, 5])
    brokers = ",".join("%d:%s:%d" % (rng.choice(NODE_IDS), rng.choice(["b1", "broker-2.svc", "10.0.0.3", "^"]),
                                     rng.choice([9092, 9093, 0, 19092])) for _ in range(nb)) or "-"
    nt = rng.choice([0, 1, 2, 3, 4, 6])
    topics, used = [], []
    for i in range(nt):
        name = rng.choice(NAMES) if rng.chance(1, 5) else NAMES[i % len(NAMES)]
        if rng.chance(1, 25):
            name = "^"
        tid = rng.choice(used) if (used and rng.chance(1, 8)) else (0 if rng.chance(1, 3) else rng.range(1, 30))
        used.append(tid)
        err = 0 if rng.chance(3, 4) else rng.choice([3, 5, 9, 29, 100, -1])
        parts = []
        for j in range(rng.choice([0, 1, 1, 2, 3, 5])):
            pid = j if rng.chance(5, 6) else rng.range(0, 40)
            parts.append("%d:%d:%d:%d:%s:%s:%s" % (
                pid, 0 if rng.chance(3, 4) else rng.choice([5, 6, 9]), rng.choice(NODE_IDS),
                rng.choice([0, 1, 5, -1, 2147483647, 17]), ints(rng, 0, 3), ints(rng, 0, 2), ints(rng, 0, 2) if rng.chance(1, 3) else "-"))
        topics.append("%s|%d|%d|%d|%s" % (name, tid, err, 1 if rng.chance(1, 6) else 0, ",".join(parts) or "-"))
    line = "snap brokers=%s ctrl=%d cluster=%s topics=%s" % (
        brokers, rng.choice(NODE_IDS), rng.choice(["~", "cl-1", "^", "kafscale"]), ";".join(topics) or "-")
    names = [t.split("|")[0] for t in topics]
    tids = [t.split("|")[1] if t.split("|")[1] != "0" else "#" + t.split("|")[0] for t in topics]
    return line, names, tids


def gen_request(rng, names, tids):
    v = rng.choice(VERSIONS)
    k = rng.below(10)
    if k == 0:
        return v, "all"
    if k == 1:
        return v, "empty"
    n = rng.range(1, 4)
    ents = []
    if k <= 5 or v < 10:  # by name
        for _ in range(n):
            nm = rng.choice(names) if (names and rng.chance(3, 4)) else rng.choice(NAMES + ["missing", "^"])
            if v >= 10 and rng.chance(1, 10):
                nm = "~"
            ents.append("%s@0" % nm)
    elif k <= 8:  # by id
        for _ in range(n):
            tid = rng.choice(tids) if (tids and rng.chance(3, 4)) else rng.choice([str(rng.range(1, 40)), "#" + rng.choice(NAMES)])
            nm = "~" if rng.chance(3, 4) else rng.choice(names or NAMES)
            ents.append("%s@%s" % (nm, tid))
    else:  # mixed names and ids
        for _ in range(n + 1):
            if rng.chance(1, 2):
                ents.append("%s@0" % (rng.choice(names) if names else "missing"))
            else:
                ents.append("~@%s" % (rng.choice(tids) if (tids and rng.chance(2, 3)) else rng.range(1, 40)))
    return v, ",".join(ents)


def gen_par(rng, names, tids):
    """k = 2..4 Metadata requests that overlap inside handleMetadata (the harness holds the store read of the
    first one open until all are in flight).  Mostly 'confusable' batches: same form and same number of entries
    but different ids / names, same names with different ids, all vs empty, plus free mixes."""
    k = rng.range(2, 4)
    style = rng.below(6)
    items = []
    ids = list(dict.fromkeys(tids)) or ["7"]
    nms = list(dict.fromkeys(names)) or ["missing"]
    n = rng.range(1, 2)
    for i in range(k):
        if style == 0:      # by id, nil names, same entry count, different ids
            v = rng.choice([10, 11, 12])
            ents = ["~@%s" % ids[(i + j) % len(ids)] if rng.chance(4, 5) else "~@%d" % rng.range(31, 60) for j in range(n)]
        elif style == 1:    # by id with the SAME name attached, different ids
            v = rng.choice([10, 12])
            ents = ["%s@%s" % (nms[0], ids[(i + j) % len(ids)]) for j in range(n)]
        elif style == 2:    # by name, same entry count, different names
            v = rng.choice(VERSIONS)
            ents = ["%s@0" % (nms[(i + j) % len(nms)] if rng.chance(4, 5) else "missing%d" % i) for j in range(n)]
        elif style == 3:    # by name vs by id of the same topic, all vs empty
            v = rng.choice([10, 12])
            ents = [rng.choice(["%s@0" % nms[i % len(nms)], "~@%s" % ids[i % len(ids)], "all", "empty"])]
            if ents[0] in ("all", "empty"):
                items.append("%d:%s" % (v, ents[0]))
                continue
        else:               # free mix of all request forms
            v, r = gen_request(rng, names, tids)
            items.append("%d:%s" % (v, r))
            continue
        items.append("%d:%s" % (v, ",".join(ents)))
    return "par " + " ".join(items)


def gen_case(rng, nreq):
    ops = ["cfg %s %d" % (rng.choice(["proxy.example.com", "p", "^", "10.1.2.3"]), rng.choice([9092, 1, 65535, 19092]))]
    snap, names, tids = gen_snapshot(rng)
    ops.append(snap)
    for _ in range(nreq):
        v, r = gen_request(rng, names, tids)
        ops.append("meta %d %s" % (v, r))
    for _ in range(2):
        ops.append(gen_par(rng, names, tids))
    v, r = gen_request(rng, names, tids)
    ops.append("nrmeta %d %s" % (v, r))
    ops.append("coord %d" % rng.choice([3, 3, 0, 1, 2]))
    ops.append("nrcoord %d" % rng.choice([3, 3, 0, 1, 2]))
    return ops


def is_reply_op(op):
    return op.split()[0] in ("meta", "nrmeta", "coord", "nrcoord", "par")


def run_impl(ck, binary, ops, tag):
    fn = ck.path("ops_%s.txt" % tag)
    open(fn, "w").write("\n".join(ops) + "\n")
    rc, out, err = ck.run_bin(binary, stdin_path=fn, env={"VERIF_HARNESS": "C28"})
    impl = out.split("\n")[:-1]
    if rc != 0 or len(impl) != len(ops):
        return fn, impl, "impl-crash rc=%s lines=%d/%d %s" % (rc, len(impl), len(ops), err[-500:])
    return fn, impl, None


def run_monitor(ck, ops, impl, tag):
    lines = []
    for o, r in zip(ops, impl):
        lines.append(o)
        if is_reply_op(o):
            lines.append("> " + r)
    fn = ck.path("mon_%s.txt" % tag)
    open(fn, "w").write("\n".join(lines) + "\n")
    out = ck.lean_run("C28", fn, args=["--monitor"])
    verdicts, j = [], 0
    for o in ops:
        j += 1
        if is_reply_op(o):
            verdicts.append(out[j])
            j += 1
        else:
            verdicts.append("-")
    return verdicts


def context_ops(ops, i):
    """cfg + snap in force at op i, plus op i."""
    cfg = [o for o in ops[:i] if o.startswith("cfg")][-1:]
    snap = [o for o in ops[:i] if o.startswith("snap")][-1:]
    return cfg + snap + [ops[i]]


def examine(ck, ops, impl, model, verdicts, hunting=False):
    """Registers cases, reports violations; returns index of first pure correspondence diff or None."""
    first = None
    for i, o in enumerate(ops):
        if not is_reply_op(o):
            continue
        kind = o.split()[0]
        ck.count("op_" + kind)
        if kind == "par":
            ck.count("concurrent_requests", len(o.split()) - 1)
        if kind in ("meta", "nrmeta"):
            ck.count("v%s" % o.split()[1])
            r = o.split()[2]
            form = r if r in ("all", "empty") else ("by-id" if any(not e.endswith("@0") for e in r.split(",")) else "by-name")
            ck.count("req_" + form)
        ctx = context_ops(ops, i)
        nontriv = kind in ("meta", "par") and "topics=-" not in impl[i] and impl[i].startswith(kind + " ")
        ck.case(tuple(ctx), nontrivial=nontriv, sample={"ops": ctx, "impl": impl[i]})
        if impl[i] in ("panic", "err", "undecodable", "bad-op"):
            ck.count("impl_" + impl[i])
        v = verdicts[i]
        if v.startswith("violation"):
            fp = v.split(" ", 1)[1]
            ck.violation(fp, "proxy reply breaks C28 (%s): %s -> %s" % (fp, o, impl[i]),
                         {"ops": ctx, "expected": "monitor predicates of KafVerif.Props.C28 hold on the reply",
                          "actual": impl[i], "model": model[i] if model else None})
        elif model is not None and impl[i] != model[i] and first is None:
            first = i
    return first


def run(ck):
    bins = ck.build_all()
    if bins is None:
        return
    binary = bins["h"]
    ncases = 150 if ck.quick() else 1500
    ck.cov["rule"] = ("cases = (advertised address, generated snapshot, request) triples from VERIF_SEED; requests: all / empty / "
                      "by name / by id / mixed at Metadata versions 0-12, not-ready Metadata, FindCoordinator, and batches of "
                      "2-4 OVERLAPPING Metadata requests (store read gated until all are in flight; each reply checked against "
                      "its own request); a case is "
                      "non-trivial when the reply lists at least one topic; distinct = distinct (cfg, snapshot, request) triples")
    ops = []
    import glob, os
    for f in sorted(glob.glob(os.path.join(lib.REPLAYS, "C28-*.json"))):   # corpus first
        ops += json.load(open(f))["ops"]
        ck.count("corpus_files")
    for _ in range(ncases):
        ops += gen_case(ck.rng.fork(), 6)
    fn, impl, crash = run_impl(ck, binary, ops, "all")
    if crash:
        ck.broke("implementation harness did not answer every op", crash)
        return
    model = ck.lean_run("C28", fn)
    verdicts = run_monitor(ck, ops, impl, "all")
    ck.cov["traces_validated_against_impl"] += ncases
    d = examine(ck, ops, impl, model, verdicts)
    if d is not None:
        ck.cov["disagreements_checked"] += 1
        ck.broke("correspondence model/implementation (proxy metadata path)",
                 "ops %r\nimpl : %s\nmodel: %s" % (context_ops(ops, d), impl[d], model[d]))
        hunt(ck, binary)


def hunt(ck, binary):
    """The model no longer mirrors the code: search more widely with the property monitor alone."""
    for rnd in range(6):
        ops = []
        for _ in range(300):
            ops += gen_case(ck.rng.fork(), 8)
        fn, impl, crash = run_impl(ck, binary, ops, "hunt%d" % rnd)
        if crash:
            return
        verdicts = run_monitor(ck, ops, impl, "hunt%d" % rnd)
        examine(ck, ops, impl, None, verdicts, hunting=True)
        if ck.violations:
            return


def replay(ck, path):
    rep = json.load(open(path))
    bins = ck.build_all()
    if bins is None:
        return
    ops = rep["ops"]
    fn, impl, crash = run_impl(ck, bins["h"], ops, "replay")
    if crash:
        ck.broke("implementation harness did not answer every op", crash)
        return
    model = ck.lean_run("C28", fn)
    verdicts = run_monitor(ck, ops, impl, "replay")
    for o, r, m, v in zip(ops, impl, model, verdicts):
        print("  op    %s\n  impl  %s\n  model %s\n  spec  %s" % (o, r, m, v))
    examine(ck, ops, impl, model, verdicts)
    ck.cov["evaluations"] = max(ck.cov["evaluations"], 1)
    ck.cov["distinct_nontrivial"] = max(ck.cov["distinct_nontrivial"], 2)
