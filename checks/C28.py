"""C28 — proxy metadata points clients at the proxy, topology intact."""
import json

from checks import lib

PROPERTY = "C28"
LEAN_MODULES = ["KafVerif.Props.C28"]
OBLIGATIONS = [
    "KafVerif.C28.only_proxy",
    "KafVerif.C28.only_proxy_wire",
    "KafVerif.C28.coordinator_only_proxy",
    "KafVerif.C28.not_ready_names_nobody",
    "KafVerif.C28.topology_all",
    "KafVerif.C28.topology_by_name",
    "KafVerif.C28.topology_by_id",
    "KafVerif.C28.by_id_from_snapshot",
    "KafVerif.C28.topology_kept",
    "KafVerif.C28.store_view_keeps",
    "KafVerif.C28.reply_depends_only_on_own_request",
    "KafVerif.C28.coalescing_sound_if_key_determines_load",
    "KafVerif.C28.names_key_coalescing_violates",
    "KafVerif.C28.session_reply_from_current_snapshot",
    "KafVerif.C28.session_ignores_cache",
    "KafVerif.C28.name_cache_sound_if_agrees",
    "KafVerif.C28.name_cache_sound_iff_agrees",
    "KafVerif.C28.fresh_cache_agrees_on_wellformed_snapshot",
    "KafVerif.C28.stale_name_cache_violates",
    "KafVerif.C28.old_violates",
]
ASSUMPTIONS = [
    "sessions: one proxy per case; its caches are filled only through the real refreshMetadataCache / currentBackends / resolveTopicID (the ops `warm`, `resolve`); the snapshot changes through InMemoryStore.Update (what the etcd watch does); state a changed proxy might build from other request kinds (Produce/Fetch/ApiVersions traffic) is not driven",
    "concurrency: overlapping Metadata requests are exercised with the first request held inside store.Metadata until the other 1-3 are in flight (or 60 ms); other interleavings (e.g. overlap only after the store read) are not enumerated",
    "the metadata store is InMemoryStore.Metadata/filterTopics (EtcdStore.Metadata delegates to it); snapshot topics carry a name (a nil name pointer panics inside the store, outside this property)",
    "kmsg codec and its field/version table (`wire` in the model) are trusted; the harness compares what a kmsg client decodes from the reply bytes",
    "topic ids: literal ids are generated with the upper 8 bytes zero; metadata.TopicIDForName (SHA-1 prefix the store assigns to a snapshot topic without id) is modelled as an injective constructor disjoint from the literal ids",
    "names/hosts are ASCII without the separators of the line protocol",
    "FindCoordinator is exercised at the advertised version 3 (and 0-2), where node/host/port are top-level fields",
]
TECHNIQUE = ("Lean 4 theorems about a line-by-line model of loadMetadata/filterTopics/buildProxyMetadataResponse/"
             "handleFindCoordinator/buildNotReadyResponse; differential correspondence through the real handleMetadata "
             "byte path + the theorems' own predicates evaluated by the Lean driver on the implementation's replies; "
             "session model (current snapshot + ghost topic-name cache) with every history quantified, exercised as "
             "sessions on one real proxy (snapshot change / real cache refresh / request)")
LEVEL_TEXT = ("proof: for every snapshot, request form and advertised address the reply names only node 0 (broker list, "
              "controller, leader, replicas, ISR, coordinator) and its topic list equals the declaratively specified one "
              "(all / by name / by id) on name, id, error code, is-internal and per-partition id, error code, leader epoch; "
              "for every history of one proxy (snapshot changes, cache refreshes, earlier requests) the reply is that of the "
              "snapshot in force and is independent of the proxy's topic-name cache")
LEVEL_NOTE = ("the theorems are about the model (after fixes/C28-metadata-error-topic-leaders.patch; the code as found is "
              "kept as buildResponseOld with the witness old_violates); correspondence and monitor are testing; that the "
              "code's loadMetadata reads no per-proxy state is established by the session runs, not extracted from the source")
BUILDS = {"h": ("root", "./cmd/proxy", ["C28"])}

NODE_IDS = [0, 1, 2, 3, 7, 100, -1]
NAMES = ["orders", "a", "b", "t.1", "x-y", "__consumer_offsets", "payments", "a.b_c"]
VERSIONS = [0, 1, 2, 4, 5, 7, 9, 10, 11, 12]


def ints(rng, lo=0, hi=3):
    n = rng.range(lo, hi)
    return "+".join(str(rng.choice(NODE_IDS)) for _ in range(n)) if n else "-"


def gen_parts(rng):
    parts = []
    for j in range(rng.choice([0, 1, 1, 2, 3, 5])):
        pid = j if rng.chance(5, 6) else rng.range(0, 40)
        parts.append("%d:%d:%d:%d:%s:%s:%s" % (
            pid, 0 if rng.chance(3, 4) else rng.choice([5, 6, 9]), rng.choice(NODE_IDS),
            rng.choice([0, 1, 5, -1, 2147483647, 17]), ints(rng, 0, 3), ints(rng, 0, 2), ints(rng, 0, 2) if rng.chance(1, 3) else "-"))
    return ",".join(parts) or "-"


def snap_line(head, topics):
    return "snap %s topics=%s" % (head, ";".join("|".join(t) for t in topics) or "-")


def snap_ids(topics):
    """(names, ids as a request spells them) of a snapshot: a topic without id is served under #name."""
    names = [t[0] for t in topics]
    tids = [t[1] if t[1] != "0" else "#" + t[0] for t in topics]
    return names, tids


def gen_snapshot(rng, min_topics=0):
    nb = rng.choice([0, 1, 2, 3, 3, 5])
    brokers = ",".join("%d:%s:%d" % (rng.choice(NODE_IDS), rng.choice(["b1", "broker-2.svc", "10.0.0.3", "^"]),
                                     rng.choice([9092, 9093, 0, 19092])) for _ in range(nb)) or "-"
    nt = max(min_topics, rng.choice([0, 1, 2, 3, 4, 6]))
    topics, used = [], []
    for i in range(nt):
        name = rng.choice(NAMES) if rng.chance(1, 5) else NAMES[i % len(NAMES)]
        if rng.chance(1, 25):
            name = "^"
        tid = rng.choice(used) if (used and rng.chance(1, 8)) else (0 if rng.chance(1, 3) else rng.range(1, 30))
        used.append(tid)
        err = 0 if rng.chance(3, 4) else rng.choice([3, 5, 9, 29, 100, -1])
        topics.append([name, str(tid), str(err), "1" if rng.chance(1, 6) else "0", gen_parts(rng)])
    head = "brokers=%s ctrl=%d cluster=%s" % (brokers, rng.choice(NODE_IDS), rng.choice(["~", "cl-1", "^", "kafscale"]))
    return head, topics


def derive_snapshot(rng, topics):
    """The cluster metadata moves on under the running proxy: 1-2 of delete a topic / re-create it under a
    new id / rename it (id kept) / swap the names of two topics / add a topic / change its partitions.
    Returns (new topics, ids and names touched)."""
    topics = [list(t) for t in topics]
    touched_ids, touched_names = [], []
    fresh_names = ["renamed", "new-topic", "orders.v2", "zz"]
    for _ in range(rng.choice([1, 1, 2])):
        k = rng.below(7) if topics else 4
        i = rng.below(len(topics)) if topics else 0
        if topics:
            nm, tid = topics[i][0], (topics[i][1] if topics[i][1] != "0" else "#" + topics[i][0])
            touched_ids.append(tid)
            touched_names.append(nm)
        if k <= 1:      # deleted
            del topics[i]
        elif k == 2:    # deleted and re-created under the same name: new id, new partitions / epochs
            topics[i][1] = str(rng.range(41, 60)) if (topics[i][1] == "0" or rng.chance(2, 3)) else "0"
            topics[i][4] = gen_parts(rng)
            if rng.chance(1, 2):
                topics.append(topics.pop(i))
        elif k == 3:    # renamed: same id (a derived id is pinned), new name
            topics[i][1] = tid
            topics[i][0] = rng.choice([n for n in fresh_names + NAMES if n not in [t[0] for t in topics]] or ["renamed"])
            touched_names.append(topics[i][0])
        elif k == 4:    # added
            nn = rng.choice(fresh_names + NAMES)
            topics.insert(rng.range(0, len(topics)), [nn, str(rng.choice([0, rng.range(41, 60)])), "0", "0", gen_parts(rng)])
            touched_names.append(nn)
        elif k == 5 and len(topics) >= 2:   # two topics swap names (each id now belongs to the other name)
            j = (i + 1 + rng.below(len(topics) - 1)) % len(topics)
            for x in (i, j):
                if topics[x][1] == "0":
                    topics[x][1] = "#" + topics[x][0]
            topics[i][0], topics[j][0] = topics[j][0], topics[i][0]
            touched_ids.append(topics[j][1])
            touched_names.append(topics[i][0])
        else:           # same topic, partitions / leader epochs / error code move on
            topics[i][4] = gen_parts(rng)
            if rng.chance(1, 4):
                topics[i][2] = str(rng.choice([0, 3, 9]))
    return topics, touched_ids, touched_names


def gen_request(rng, names, tids):
    v = rng.choice(VERSIONS)
    k = rng.below(10)
    if k == 0:
        return v, "all"
    if k == 1:
        return v, "empty"
    n = rng.range(1, 4)
    ents = []
    if k <= 5 or v < 10:  # by name
        for _ in range(n):
            nm = rng.choice(names) if (names and rng.chance(3, 4)) else rng.choice(NAMES + ["missing", "^"])
            if v >= 10 and rng.chance(1, 10):
                nm = "~"
            ents.append("%s@0" % nm)
    elif k <= 8:  # by id
        for _ in range(n):
            tid = rng.choice(tids) if (tids and rng.chance(3, 4)) else rng.choice([str(rng.range(1, 40)), "#" + rng.choice(NAMES)])
            nm = "~" if rng.chance(3, 4) else rng.choice(names or NAMES)
            ents.append("%s@%s" % (nm, tid))
    else:  # mixed names and ids
        for _ in range(n + 1):
            if rng.chance(1, 2):
                ents.append("%s@0" % (rng.choice(names) if names else "missing"))
            else:
                ents.append("~@%s" % (rng.choice(tids) if (tids and rng.chance(2, 3)) else rng.range(1, 40)))
    return v, ",".join(ents)


def gen_par(rng, names, tids):
    """k = 2..4 Metadata requests that overlap inside handleMetadata (the harness holds the store read of the
    first one open until all are in flight).  Mostly 'confusable' batches: same form and same number of entries
    but different ids / names, same names with different ids, all vs empty, plus free mixes."""
    k = rng.range(2, 4)
    style = rng.below(6)
    items = []
    ids = list(dict.fromkeys(tids)) or ["7"]
    nms = list(dict.fromkeys(names)) or ["missing"]
    n = rng.range(1, 2)
    for i in range(k):
        if style == 0:      # by id, nil names, same entry count, different ids
            v = rng.choice([10, 11, 12])
            ents = ["~@%s" % ids[(i + j) % len(ids)] if rng.chance(4, 5) else "~@%d" % rng.range(31, 60) for j in range(n)]
        elif style == 1:    # by id with the SAME name attached, different ids
            v = rng.choice([10, 12])
            ents = ["%s@%s" % (nms[0], ids[(i + j) % len(ids)]) for j in range(n)]
        elif style == 2:    # by name, same entry count, different names
            v = rng.choice(VERSIONS)
            ents = ["%s@0" % (nms[(i + j) % len(nms)] if rng.chance(4, 5) else "missing%d" % i) for j in range(n)]
        elif style == 3:    # by name vs by id of the same topic, all vs empty
            v = rng.choice([10, 12])
            ents = [rng.choice(["%s@0" % nms[i % len(nms)], "~@%s" % ids[i % len(ids)], "all", "empty"])]
            if ents[0] in ("all", "empty"):
                items.append("%d:%s" % (v, ents[0]))
                continue
        else:               # free mix of all request forms
            v, r = gen_request(rng, names, tids)
            items.append("%d:%s" % (v, r))
            continue
        items.append("%d:%s" % (v, ",".join(ents)))
    return "par " + " ".join(items)


def by_id_spec(rng, ids, names=None):
    ents = []
    for t in ids:
        nm = "~" if (not names or rng.chance(4, 5)) else rng.choice(names)
        ents.append("%s@%s" % (nm, t))
    return ",".join(ents)


def gen_after_change(rng, cached, touched_ids, touched_names, names, tids):
    """Requests issued after the snapshot moved on: every id the proxy may have cached, the touched ids alone and
    in mixes (cached-only subsets, cached + never-seen ids, with a zero-id entry), the touched names, all topics."""
    out = []
    cached = list(dict.fromkeys(cached))
    hot = [t for t in dict.fromkeys(touched_ids) if t in cached]
    v = lambda: rng.choice([10, 11, 12, 12])
    if cached:
        out.append("meta %d %s" % (v(), by_id_spec(rng, cached)))
    for t in hot[:2]:
        out.append("meta %d %s" % (v(), by_id_spec(rng, [t])))
    if cached:
        sub = [t for t in cached if rng.chance(1, 2)] or [rng.choice(cached)]
        if hot and rng.chance(2, 3):
            sub.insert(rng.range(0, len(sub)), rng.choice(hot))
        out.append("meta %d %s" % (v(), by_id_spec(rng, sub, names)))
        k = rng.below(4)
        if k == 0:      # one id the proxy has never seen among cached ones
            sub = sub + [str(rng.range(61, 70))]
        elif k == 1:    # a name-only entry among them (dropped by the by-id arm)
            sub = sub + ["0"]
        elif k == 2:    # ids of the new snapshot
            sub = sub + [rng.choice(tids)] if tids else sub
        for a in range(len(sub) - 1, 0, -1):     # Fisher-Yates from the seeded rng
            b = rng.below(a + 1)
            sub[a], sub[b] = sub[b], sub[a]
        out.append("meta %d %s" % (v(), ",".join("%s@%s" % ("~" if t != "0" else rng.choice(names or NAMES), t) for t in sub)))
    nms = list(dict.fromkeys(touched_names))[:3]
    if nms:
        out.append("meta %d %s" % (rng.choice(VERSIONS), ",".join("%s@0" % n for n in nms)))
    out.append("meta %d all" % rng.choice([1, 9, 12]))
    return out


def gen_case(rng, nreq):
    """One session on ONE proxy: snapshot A, cold requests, cache refresh, requests, snapshot B derived from A,
    requests by the ids/names of A and B, (refresh / resolve, snapshot C, requests)*, overlapping batches,
    not-ready and coordinator replies."""
    ops = ["cfg %s %d" % (rng.choice(["proxy.example.com", "p", "^", "10.1.2.3"]), rng.choice([9092, 1, 65535, 19092]))]
    head, topics = gen_snapshot(rng, min_topics=1 if rng.chance(5, 6) else 0)
    ops.append(snap_line(head, topics))
    names, tids = snap_ids(topics)
    for _ in range(max(1, nreq // 3)):
        v, r = gen_request(rng, names, tids)
        ops.append("meta %d %s" % (v, r))
    seen_names, seen_ids = list(names), list(tids)
    cached = []
    for rnd in range(rng.choice([1, 1, 2])):
        # the proxy fills its caches from the snapshot in force (real refresh paths)
        how = rng.below(6)
        if rnd > 0 and how == 0:
            pass                                    # no refresh between two snapshot changes
        elif how <= 3:
            ops.append("warm refresh")
            cached = [t for n, t in zip(names, tids) if n != "^"]
        elif how == 4:
            ops.append("warm backends")
            cached = [t for n, t in zip(names, tids) if n != "^"]
        else:
            t = rng.choice(seen_ids) if seen_ids else "7"
            ops.append("resolve %s" % t)
            if t not in cached:
                cached = [t for n, t in zip(names, tids) if n != "^"]
        if cached and rng.chance(1, 2):
            ops.append("meta %d %s" % (rng.choice([10, 12]), by_id_spec(rng, list(dict.fromkeys(cached)))))
        # the cluster metadata moves on
        topics, touched_ids, touched_names = derive_snapshot(rng, topics)
        if rng.chance(1, 6):
            head = gen_snapshot(rng)[0]
        ops.append(snap_line(head, topics))
        names, tids = snap_ids(topics)
        seen_names += names
        seen_ids += tids
        ops += gen_after_change(rng, cached, touched_ids, touched_names, names, tids)
        for _ in range(max(1, nreq // 3)):
            v, r = gen_request(rng, seen_names, seen_ids)
            ops.append("meta %d %s" % (v, r))
    ops.append(gen_par(rng, seen_names, cached or seen_ids))
    ops.append(gen_par(rng, names, tids))
    v, r = gen_request(rng, names, tids)
    ops.append("nrmeta %d %s" % (v, r))
    ops.append("coord %d" % rng.choice([3, 3, 0, 1, 2]))
    ops.append("nrcoord %d" % rng.choice([3, 3, 0, 1, 2]))
    return ops


def is_reply_op(op):
    return op.split()[0] in ("meta", "nrmeta", "coord", "nrcoord", "par")


def run_impl(ck, binary, ops, tag):
    fn = ck.path("ops_%s.txt" % tag)
    open(fn, "w").write("\n".join(ops) + "\n")
    rc, out, err = ck.run_bin(binary, stdin_path=fn, env={"VERIF_HARNESS": "C28"})
    impl = out.split("\n")[:-1]
    if rc != 0 or len(impl) != len(ops):
        return fn, impl, "impl-crash rc=%s lines=%d/%d %s" % (rc, len(impl), len(ops), err[-500:])
    return fn, impl, None


def run_monitor(ck, ops, impl, tag):
    lines = []
    for o, r in zip(ops, impl):
        lines.append(o)
        if is_reply_op(o):
            lines.append("> " + r)
    fn = ck.path("mon_%s.txt" % tag)
    open(fn, "w").write("\n".join(lines) + "\n")
    out = ck.lean_run("C28", fn, args=["--monitor"])
    model, verdicts, j = [], [], 0
    for o in ops:
        model.append(out[j])       # the model's own output for the op (same as a run without --monitor)
        j += 1
        if is_reply_op(o):
            verdicts.append(out[j])
            j += 1
        else:
            verdicts.append("-")
    return model, verdicts


def context_ops(ops, i):
    """The whole session op i belongs to: everything from the `cfg` that started its proxy up to op i (earlier
    snapshots, cache refreshes and requests included — a reply may only depend on the last snapshot, and the
    replay must be able to show that it does not)."""
    j = i
    while j > 0 and not ops[j].startswith("cfg"):
        j -= 1
    return ops[j:i + 1]


def case_key(ops, i):
    """Distinctness of a case: advertised address, the sequence of snapshots / refreshes so far, the request."""
    ctx = context_ops(ops, i)
    return tuple([o for o in ctx[:-1] if not is_reply_op(o)] + [ctx[-1]])


def examine(ck, ops, impl, model, verdicts, hunting=False):
    """Registers cases, reports violations; returns index of first pure correspondence diff or None."""
    first = None
    for i, o in enumerate(ops):
        if not is_reply_op(o):
            continue
        kind = o.split()[0]
        ck.count("op_" + kind)
        if kind == "par":
            ck.count("concurrent_requests", len(o.split()) - 1)
        if kind in ("meta", "nrmeta"):
            ck.count("v%s" % o.split()[1])
            r = o.split()[2]
            form = r if r in ("all", "empty") else ("by-id" if any(not e.endswith("@0") for e in r.split(",")) else "by-name")
            ck.count("req_" + form)
        ctx = context_ops(ops, i)
        nontriv = kind in ("meta", "par") and "topics=-" not in impl[i] and impl[i].startswith(kind + " ")
        ck.case(case_key(ops, i), nontrivial=nontriv, sample={"ops": ctx, "impl": impl[i]})
        state = [o.split()[0] for o in ctx[:-1] if o.split()[0] in ("snap", "warm", "resolve")]
        if kind in ("meta", "par") and ("warm" in state or "resolve" in state):
            last_fill = max(k for k, x in enumerate(state) if x in ("warm", "resolve"))
            if "snap" in state[last_fill:]:
                ck.count("requests_after_snapshot_change_with_warm_cache")
            else:
                ck.count("requests_with_fresh_cache")
        if verdicts[i] == "ok cache-would-differ":
            ck.count("requests_where_name_cache_answer_would_differ")
        if impl[i] in ("panic", "err", "undecodable", "bad-op"):
            ck.count("impl_" + impl[i])
        v = verdicts[i]
        if v.startswith("violation"):
            fp = v.split(" ", 1)[1]
            ck.violation(fp, "proxy reply breaks C28 (%s): %s -> %s" % (fp, o, impl[i]),
                         {"ops": ctx, "expected": "monitor predicates of KafVerif.Props.C28 hold on the reply",
                          "actual": impl[i], "model": model[i] if model else None})
        elif model is not None and impl[i] != model[i] and first is None:
            first = i
    return first


def run(ck):
    bins = ck.build_all()
    if bins is None:
        return
    binary = bins["h"]
    ncases = 100 if ck.quick() else 1200
    ck.cov["rule"] = ("cases = replies of SESSIONS on one proxy, from VERIF_SEED: advertised address, snapshot A, requests, real cache "
                      "refresh (refreshMetadataCache / currentBackends / resolveTopicID), snapshot B derived from A (topic deleted / "
                      "re-created under a new id / renamed / names swapped / added / partitions changed), requests by every cached id, "
                      "by the touched ids alone and mixed, by name, all — possibly a second refresh + change; requests: all / empty / "
                      "by name / by id / mixed at Metadata versions 0-12, not-ready Metadata, FindCoordinator, and batches of "
                      "2-4 OVERLAPPING Metadata requests (store read gated until all are in flight); every reply is checked against "
                      "its own request and the snapshot in force when it was issued; a case is non-trivial when the reply lists at "
                      "least one topic; distinct = distinct (cfg, snapshot/refresh history, request)")
    ops = []
    import glob, os
    for f in sorted(glob.glob(os.path.join(lib.REPLAYS, "C28-*.json"))):   # corpus first
        ops += json.load(open(f))["ops"]
        ck.count("corpus_files")
    for _ in range(ncases):
        ops += gen_case(ck.rng.fork(), 6)
    fn, impl, crash = run_impl(ck, binary, ops, "all")
    if crash:
        ck.broke("implementation harness did not answer every op", crash)
        return
    model, verdicts = run_monitor(ck, ops, impl, "all")
    ck.cov["traces_validated_against_impl"] += ncases
    d = examine(ck, ops, impl, model, verdicts)
    if d is not None:
        ck.cov["disagreements_checked"] += 1
        ck.broke("correspondence model/implementation (proxy metadata path)",
                 "ops %r\nimpl : %s\nmodel: %s" % (context_ops(ops, d), impl[d], model[d]))
        if not ck.violations:      # a concrete failing input is already on file otherwise
            hunt(ck, binary)


def hunt(ck, binary):
    """The model no longer mirrors the code: search more widely with the property monitor alone."""
    for rnd in range(6):
        ops = []
        for _ in range(300):
            ops += gen_case(ck.rng.fork(), 8)
        fn, impl, crash = run_impl(ck, binary, ops, "hunt%d" % rnd)
        if crash:
            return
        _, verdicts = run_monitor(ck, ops, impl, "hunt%d" % rnd)
        examine(ck, ops, impl, None, verdicts, hunting=True)
        if ck.violations:
            return


def replay(ck, path):
    rep = json.load(open(path))
    bins = ck.build_all()
    if bins is None:
        return
    ops = rep["ops"]
    fn, impl, crash = run_impl(ck, bins["h"], ops, "replay")
    if crash:
        ck.broke("implementation harness did not answer every op", crash)
        return
    model, verdicts = run_monitor(ck, ops, impl, "replay")
    for o, r, m, v in zip(ops, impl, model, verdicts):
        print("  op    %s\n  impl  %s\n  model %s\n  spec  %s" % (o, r, m, v))
    examine(ck, ops, impl, model, verdicts)
    ck.cov["evaluations"] = max(ck.cov["evaluations"], 1)
    ck.cov["distinct_nontrivial"] = max(ck.cov["distinct_nontrivial"], 2)
