"""C28 — proxy metadata points clients at the proxy, topology intact."""
import json

from checks import lib

PROPERTY = "C28"
LEAN_MODULES = ["KafVerif.Props.C28"]
OBLIGATIONS = [
    "KafVerif.C28.only_proxy",
    "KafVerif.C28.only_proxy_wire",
    "KafVerif.C28.coordinator_only_proxy",
    "KafVerif.C28.not_ready_names_nobody",
    "KafVerif.C28.topology_all",
    "KafVerif.C28.topology_by_name",
    "KafVerif.C28.topology_by_id",
    "KafVerif.C28.by_id_from_snapshot",
    "KafVerif.C28.topology_kept",
    "KafVerif.C28.store_view_keeps",
    "KafVerif.C28.reply_depends_only_on_own_request",
    "KafVerif.C28.coalescing_sound_if_key_determines_load",
    "KafVerif.C28.names_key_coalescing_violates",
    "KafVerif.C28.session_reply_from_current_snapshot",
    "KafVerif.C28.session_ignores_cache",
    "KafVerif.C28.name_cache_sound_if_agrees",
    "KafVerif.C28.name_cache_sound_iff_agrees",
    "KafVerif.C28.fresh_cache_agrees_on_wellformed_snapshot",
    "KafVerif.C28.stale_name_cache_violates",
    "KafVerif.C28.old_violates",
    "KafVerif.C28.metadata_never_forwarded",
    "KafVerif.C28.metadata_arm_terminal",
    "KafVerif.C28.metadata_never_opens_link",
    "KafVerif.C28.closed_connection_is_silent",
    "KafVerif.C28.metadata_observation",
    "KafVerif.C28.fallthrough_forwards_metadata",
]
ASSUMPTIONS = [
    "sessions: one proxy per case; its caches are filled only through the real refreshMetadataCache / currentBackends / resolveTopicID (the ops `warm`, `resolve`); the snapshot changes through InMemoryStore.Update (what the etcd watch does); state a changed proxy might build from other request kinds (Produce/Fetch/ApiVersions traffic) is not driven",
    "concurrency: overlapping Metadata requests are exercised with the first request held inside store.Metadata until the other 1-3 are in flight (or 60 ms); other interleavings (e.g. overlap only after the store read) are not enumerated",
    "the metadata store is InMemoryStore.Metadata/filterTopics (EtcdStore.Metadata delegates to it); snapshot topics carry a name (a nil name pointer panics inside the store, outside this property)",
    "kmsg codec and its field/version table (`wire` in the model) are trusted; the harness compares what a kmsg client decodes from the reply bytes",
    "topic ids: literal ids are generated with the upper 8 bytes zero; metadata.TopicIDForName (SHA-1 prefix the store assigns to a snapshot topic without id) is modelled as an injective constructor disjoint from the literal ids",
    "names/hosts are ASCII without the separators of the line protocol",
    "FindCoordinator is exercised at the advertised version 3 (and 0-2), where node/host/port are top-level fields",
    "connection level: the dispatch model (Model/ProxyDispatch.lean) is a hand transcription of handleConnection's per-request switch, tied to the code by running the same connection scripts through the real handleConnection (net.Pipe client, scripted TCP backends, wrapped store) and the model and diffing every client-visible outcome and the backends' request log; requests arrive one at a time (no pipelining), failures are injected between requests (or inside the next store read), client writes never fail, Produce acks=0 and LFS are not driven",
]
TECHNIQUE = ("Lean 4 theorems about a line-by-line model of loadMetadata/filterTopics/buildProxyMetadataResponse/"
             "handleFindCoordinator/buildNotReadyResponse; differential correspondence through the real handleMetadata "
             "byte path + the theorems' own predicates evaluated by the Lean driver on the implementation's replies; "
             "session model (current snapshot + ghost topic-name cache) with every history quantified, exercised as "
             "sessions on one real proxy (snapshot change / real cache refresh / request); dispatch model of "
             "handleConnection's per-request switch with every callee abstracted to a freely chosen outcome, exercised as "
             "client connections through the real handleConnection with scripted backends and injected failures")
LEVEL_TEXT = ("proof: for every snapshot, request form and advertised address the reply names only node 0 (broker list, "
              "controller, leader, replicas, ISR, coordinator) and its topic list equals the declaratively specified one "
              "(all / by name / by id) on name, id, error code, is-internal and per-partition id, error code, leader epoch; "
              "for every history of one proxy (snapshot changes, cache refreshes, earlier requests) the reply is that of the "
              "snapshot in force and is independent of the proxy's topic-name cache; for every client connection, request "
              "sequence and outcome of every handler / store read / backend dial the Metadata and FindCoordinator arms are "
              "terminal: answered from inside the proxy or the connection is closed, never written to or relayed from a backend")
LEVEL_NOTE = ("the theorems are about the model (after fixes/C28-metadata-error-topic-leaders.patch; the code as found is "
              "kept as buildResponseOld with the witness old_violates); correspondence and monitor are testing; that the "
              "code's loadMetadata reads no per-proxy state is established by the session runs, not extracted from the source")
BUILDS = {"h": ("root", "./cmd/proxy", ["C28"])}

NODE_IDS = [0, 1, 2, 3, 7, 100, -1]
NAMES = ["orders", "a", "b", "t.1", "x-y", "__consumer_offsets", "payments", "a.b_c"]
VERSIONS = [0, 1, 2, 4, 5, 7, 9, 10, 11, 12]


def ints(rng, lo=0, hi=3):
    n = rng.range(lo, hi)
    return "+".join(str(rng.choice(NODE_IDS)) for _ in range(n)) if n else "-"


def gen_parts(rng):
    parts = []
    for j in range(rng.choice([0, 1, 1, 2, 3, 5])):
        pid = j if rng.chance(5, 6) else rng.range(0, 40)
        parts.append("%d:%d:%d:%d:%s:%s:%s" % (
            pid, 0 if rng.chance(3, 4) else rng.choice([5, 6, 9]), rng.choice(NODE_IDS),
            rng.choice([0, 1, 5, -1, 2147483647, 17]), ints(rng, 0, 3), ints(rng, 0, 2), ints(rng, 0, 2) if rng.chance(1, 3) else "-"))
    return ",".join(parts) or "-"


def snap_line(head, topics):
    return "snap %s topics=%s" % (head, ";".join("|".join(t) for t in topics) or "-")


def snap_ids(topics):
    """(names, ids as a request spells them) of a snapshot: a topic without id is served under #name."""
    names = [t[0] for t in topics]
    tids = [t[1] if t[1] != "0" else "#" + t[0] for t in topics]
    return names, tids


def gen_snapshot(rng, min_topics=0):
    nb = rng.choice([0, 1, 2, 3, 3, 5])
    brokers = ",".join("%d:%s:%d" % (rng.choice(NODE_IDS), rng.choice(["b1", "broker-2.svc", "10.0.0.3", "^"]),
                                     rng.choice([9092, 9093, 0, 19092])) for _ in range(nb)) or "-"
    nt = max(min_topics, rng.choice([0, 1, 2, 3, 4, 6]))
    topics, used = [], []
    for i in range(nt):
        name = rng.choice(NAMES) if rng.chance(1, 5) else NAMES[i % len(NAMES)]
        if rng.chance(1, 25):
            name = "^"
        tid = rng.choice(used) if (used and rng.chance(1, 8)) else (0 if rng.chance(1, 3) else rng.range(1, 30))
        used.append(tid)
        err = 0 if rng.chance(3, 4) else rng.choice([3, 5, 9, 29, 100, -1])
        topics.append([name, str(tid), str(err), "1" if rng.chance(1, 6) else "0", gen_parts(rng)])
    head = "brokers=%s ctrl=%d cluster=%s" % (brokers, rng.choice(NODE_IDS), rng.choice(["~", "cl-1", "^", "kafscale"]))
    return head, topics


def derive_snapshot(rng, topics):
    """The cluster metadata moves on under the running proxy: 1-2 of delete a topic / re-create it under a
    new id / rename it (id kept) / swap the names of two topics / add a topic / change its partitions.
    Returns (new topics, ids and names touched)."""
    topics = [list(t) for t in topics]
    touched_ids, touched_names = [], []
    fresh_names = ["renamed", "new-topic", "orders.v2", "zz"]
    for _ in range(rng.choice([1, 1, 2])):
        k = rng.below(7) if topics else 4
        i = rng.below(len(topics)) if topics else 0
        if topics:
            nm, tid = topics[i][0], (topics[i][1] if topics[i][1] != "0" else "#" + topics[i][0])
            touched_ids.append(tid)
            touched_names.append(nm)
        if k <= 1:      # deleted
            del topics[i]
        elif k == 2:    # deleted and re-created under the same name: new id, new partitions / epochs
            topics[i][1] = str(rng.range(41, 60)) if (topics[i][1] == "0" or rng.chance(2, 3)) else "0"
            topics[i][4] = gen_parts(rng)
            if rng.chance(1, 2):
                topics.append(topics.pop(i))
        elif k == 3:    # renamed: same id (a derived id is pinned), new name
            topics[i][1] = tid
            topics[i][0] = rng.choice([n for n in fresh_names + NAMES if n not in [t[0] for t in topics]] or ["renamed"])
            touched_names.append(topics[i][0])
        elif k == 4:    # added
            nn = rng.choice(fresh_names + NAMES)
            topics.insert(rng.range(0, len(topics)), [nn, str(rng.choice([0, rng.range(41, 60)])), "0", "0", gen_parts(rng)])
            touched_names.append(nn)
        elif k == 5 and len(topics) >= 2:   # two topics swap names (each id now belongs to the other name)
            j = (i + 1 + rng.below(len(topics) - 1)) % len(topics)
            for x in (i, j):
                if topics[x][1] == "0":
                    topics[x][1] = "#" + topics[x][0]
            topics[i][0], topics[j][0] = topics[j][0], topics[i][0]
            touched_ids.append(topics[j][1])
            touched_names.append(topics[i][0])
        else:           # same topic, partitions / leader epochs / error code move on
            topics[i][4] = gen_parts(rng)
            if rng.chance(1, 4):
                topics[i][2] = str(rng.choice([0, 3, 9]))
    return topics, touched_ids, touched_names


def gen_request(rng, names, tids):
    v = rng.choice(VERSIONS)
    k = rng.below(10)
    if k == 0:
        return v, "all"
    if k == 1:
        return v, "empty"
    n = rng.range(1, 4)
    ents = []
    if k <= 5 or v < 10:  # by name
        for _ in range(n):
            nm = rng.choice(names) if (names and rng.chance(3, 4)) else rng.choice(NAMES + ["missing", "^"])
            if v >= 10 and rng.chance(1, 10):
                nm = "~"
            ents.append("%s@0" % nm)
    elif k <= 8:  # by id
        for _ in range(n):
            tid = rng.choice(tids) if (tids and rng.chance(3, 4)) else rng.choice([str(rng.range(1, 40)), "#" + rng.choice(NAMES)])
            nm = "~" if rng.chance(3, 4) else rng.choice(names or NAMES)
            ents.append("%s@%s" % (nm, tid))
    else:  # mixed names and ids
        for _ in range(n + 1):
            if rng.chance(1, 2):
                ents.append("%s@0" % (rng.choice(names) if names else "missing"))
            else:
                ents.append("~@%s" % (rng.choice(tids) if (tids and rng.chance(2, 3)) else rng.range(1, 40)))
    return v, ",".join(ents)


def gen_par(rng, names, tids):
    """k = 2..4 Metadata requests that overlap inside handleMetadata (the harness holds the store read of the
    first one open until all are in flight).  Mostly 'confusable' batches: same form and same number of entries
    but different ids / names, same names with different ids, all vs empty, plus free mixes."""
    k = rng.range(2, 4)
    style = rng.below(6)
    items = []
    ids = list(dict.fromkeys(tids)) or ["7"]
    nms = list(dict.fromkeys(names)) or ["missing"]
    n = rng.range(1, 2)
    for i in range(k):
        if style == 0:      # by id, nil names, same entry count, different ids
            v = rng.choice([10, 11, 12])
            ents = ["~@%s" % ids[(i + j) % len(ids)] if rng.chance(4, 5) else "~@%d" % rng.range(31, 60) for j in range(n)]
        elif style == 1:    # by id with the SAME name attached, different ids
            v = rng.choice([10, 12])
            ents = ["%s@%s" % (nms[0], ids[(i + j) % len(ids)]) for j in range(n)]
        elif style == 2:    # by name, same entry count, different names
            v = rng.choice(VERSIONS)
            ents = ["%s@0" % (nms[(i + j) % len(nms)] if rng.chance(4, 5) else "missing%d" % i) for j in range(n)]
        elif style == 3:    # by name vs by id of the same topic, all vs empty
            v = rng.choice([10, 12])
            ents = [rng.choice(["%s@0" % nms[i % len(nms)], "~@%s" % ids[i % len(ids)], "all", "empty"])]
            if ents[0] in ("all", "empty"):
                items.append("%d:%s" % (v, ents[0]))
                continue
        else:               # free mix of all request forms
            v, r = gen_request(rng, names, tids)
            items.append("%d:%s" % (v, r))
            continue
        items.append("%d:%s" % (v, ",".join(ents)))
    return "par " + " ".join(items)


# requests of handleConnection's generic forward arm (api key/version) and of the group-routing arm
RELAY = ["2/1", "19/2", "20/1", "16/0", "32/1", "23/1", "37/0", "22/0", "42/0", "33/0", "2/7", "19/5", "20/6"]
GROUP = ["12/0", "11/0", "13/0", "14/0", "8/2", "9/1", "15/0", "12/4", "11/6", "9/8", "8/8", "15/5"]


def gen_conn(rng, names, tids):
    """One client connection through the real handleConnection: a backend link is opened by a relayed request (or
    not), something fails (serving context cancelled — also from inside the next store read —, store error, body cut
    short, link killed, proxy not ready), then Metadata / FindCoordinator arrive on the SAME connection.  The last
    step is always an ApiVersions probe: it tells a closed connection from an open one without timing."""
    mode = rng.choice(["static", "static", "store"])
    live = rng.choice([1, 1, 1, 2, 3, 0])
    dead = rng.choice([0, 0, 1, 2])
    cached = 1 if rng.chance(1, 2) else 0

    def M():
        v, r = gen_request(rng, names, tids)
        return "M/%d/%s" % (v, r)

    def F():
        return "F/%d" % rng.choice([3, 3, 0, 1, 2])

    def R():
        return "R/" + rng.choice(RELAY)

    def fwd():
        k = rng.below(6)
        return R() if k <= 2 else ("G/" + rng.choice(GROUP) if k <= 4 else rng.choice(["P", "E"]))

    def fail():
        return rng.choice(["X/cancel", "X/cancel", "X/storefail", "X/storefail", "X/cancelinstore"])

    def probe():
        k = rng.below(5)
        return M() if k <= 2 else (F() if k == 3 else "MB/%d" % rng.choice(VERSIONS))

    steps = []
    style = rng.below(10)
    if style <= 2:      # the connection owns a backend link, something fails, then Metadata on the same connection
        live = max(live, 1)
        steps += [R() for _ in range(rng.range(1, 2))]
        if rng.chance(1, 2):
            steps.append(M())
        if rng.chance(1, 3):
            steps.append(fwd())
        steps.append(fail())
        if rng.chance(1, 3):
            steps.append(R())           # the link keeps working after the context is gone
        steps += [probe() for _ in range(rng.range(1, 2))]
    elif style == 3:    # no link yet, but a backend can be dialled; the store fails
        live = max(live, 1)
        if mode == "store":
            cached = 1
        steps.append(rng.choice(["X/storefail", "X/storefail", "X/cancelinstore"]))
        steps.append(M())
        steps.append(fwd())
    elif style == 4:    # Metadata body cut short
        live = max(live, 1)
        if rng.chance(1, 2):
            steps.append(R())
        if rng.chance(1, 2):
            steps.append(M())
        steps.append("MB/%d" % rng.choice(VERSIONS))
        steps.append(F())
    elif style == 5:    # the link has died (the next forward re-dials), then a failure
        live = max(live, 1)
        steps += [R(), "X/kill"]
        if rng.chance(1, 2):
            steps.append(fwd())
        steps.append(fail())
        steps.append(probe())
        steps.append(R())
    elif style == 6:    # readiness gate
        if rng.chance(1, 2):
            steps.append(fwd())
        steps.append("X/notready")
        if rng.chance(1, 2):
            steps.append("A")
        steps.append(probe() if rng.chance(2, 3) else fwd())
    elif style == 7:    # store error comes and goes
        steps += [M(), "X/storefail"]
        if rng.chance(1, 2):
            steps += [F(), "X/storeok", M(), R(), M()]
        else:
            steps += [fwd(), F(), M()]
    elif style == 8:    # the client hangs up before reading the Metadata reply (the proxy's write fails)
        live = max(live, 1)
        if rng.chance(2, 3):
            steps.append(R())
        if rng.chance(1, 3):
            steps.append(fail())
        steps.append("MC" + M()[1:])
    else:               # free mix
        pool = [M, M, F, R, R, fwd, fail, lambda: "A", lambda: "X/kill", lambda: "X/storeok",
                lambda: "MB/%d" % rng.choice(VERSIONS), lambda: rng.choice(["X/notready", "X/ready"])]
        steps += [rng.choice(pool)() for _ in range(rng.range(3, 8))]
    if live + dead == 0:
        live = 1
    steps.append("A")
    return "conn mode=%s live=%d dead=%d cached=%d %s" % (mode, live, dead, cached, " ".join(steps))


def by_id_spec(rng, ids, names=None):
    ents = []
    for t in ids:
        nm = "~" if (not names or rng.chance(4, 5)) else rng.choice(names)
        ents.append("%s@%s" % (nm, t))
    return ",".join(ents)


def gen_after_change(rng, cached, touched_ids, touched_names, names, tids):
    """Requests issued after the snapshot moved on: every id the proxy may have cached, the touched ids alone and
    in mixes (cached-only subsets, cached + never-seen ids, with a zero-id entry), the touched names, all topics."""
    out = []
    cached = list(dict.fromkeys(cached))
    hot = [t for t in dict.fromkeys(touched_ids) if t in cached]
    v = lambda: rng.choice([10, 11, 12, 12])
    if cached:
        out.append("meta %d %s" % (v(), by_id_spec(rng, cached)))
    for t in hot[:2]:
        out.append("meta %d %s" % (v(), by_id_spec(rng, [t])))
    if cached:
        sub = [t for t in cached if rng.chance(1, 2)] or [rng.choice(cached)]
        if hot and rng.chance(2, 3):
            sub.insert(rng.range(0, len(sub)), rng.choice(hot))
        out.append("meta %d %s" % (v(), by_id_spec(rng, sub, names)))
        k = rng.below(4)
        if k == 0:      # one id the proxy has never seen among cached ones
            sub = sub + [str(rng.range(61, 70))]
        elif k == 1:    # a name-only entry among them (dropped by the by-id arm)
            sub = sub + ["0"]
        elif k == 2:    # ids of the new snapshot
            sub = sub + [rng.choice(tids)] if tids else sub
        for a in range(len(sub) - 1, 0, -1):     # Fisher-Yates from the seeded rng
            b = rng.below(a + 1)
            sub[a], sub[b] = sub[b], sub[a]
        out.append("meta %d %s" % (v(), ",".join("%s@%s" % ("~" if t != "0" else rng.choice(names or NAMES), t) for t in sub)))
    nms = list(dict.fromkeys(touched_names))[:3]
    if nms:
        out.append("meta %d %s" % (rng.choice(VERSIONS), ",".join("%s@0" % n for n in nms)))
    out.append("meta %d all" % rng.choice([1, 9, 12]))
    return out


def gen_case(rng, nreq):
    """One session on ONE proxy: snapshot A, cold requests, cache refresh, requests, snapshot B derived from A,
    requests by the ids/names of A and B, (refresh / resolve, snapshot C, requests)*, overlapping batches,
    not-ready and coordinator replies."""
    ops = ["cfg %s %d" % (rng.choice(["proxy.example.com", "p", "^", "10.1.2.3"]), rng.choice([9092, 1, 65535, 19092]))]
    head, topics = gen_snapshot(rng, min_topics=1 if rng.chance(5, 6) else 0)
    ops.append(snap_line(head, topics))
    names, tids = snap_ids(topics)
    for _ in range(max(1, nreq // 3)):
        v, r = gen_request(rng, names, tids)
        ops.append("meta %d %s" % (v, r))
    seen_names, seen_ids = list(names), list(tids)
    cached = []
    for rnd in range(rng.choice([1, 1, 2])):
        # the proxy fills its caches from the snapshot in force (real refresh paths)
        how = rng.below(6)
        if rnd > 0 and how == 0:
            pass                                    # no refresh between two snapshot changes
        elif how <= 3:
            ops.append("warm refresh")
            cached = [t for n, t in zip(names, tids) if n != "^"]
        elif how == 4:
            ops.append("warm backends")
            cached = [t for n, t in zip(names, tids) if n != "^"]
        else:
            t = rng.choice(seen_ids) if seen_ids else "7"
            ops.append("resolve %s" % t)
            if t not in cached:
                cached = [t for n, t in zip(names, tids) if n != "^"]
        if cached and rng.chance(1, 2):
            ops.append("meta %d %s" % (rng.choice([10, 12]), by_id_spec(rng, list(dict.fromkeys(cached)))))
        # the cluster metadata moves on
        topics, touched_ids, touched_names = derive_snapshot(rng, topics)
        if rng.chance(1, 6):
            head = gen_snapshot(rng)[0]
        ops.append(snap_line(head, topics))
        names, tids = snap_ids(topics)
        seen_names += names
        seen_ids += tids
        ops += gen_after_change(rng, cached, touched_ids, touched_names, names, tids)
        for _ in range(max(1, nreq // 3)):
            v, r = gen_request(rng, seen_names, seen_ids)
            ops.append("meta %d %s" % (v, r))
    ops.append(gen_par(rng, seen_names, cached or seen_ids))
    ops.append(gen_par(rng, names, tids))
    v, r = gen_request(rng, names, tids)
    ops.append("nrmeta %d %s" % (v, r))
    ops.append("coord %d" % rng.choice([3, 3, 0, 1, 2]))
    ops.append("nrcoord %d" % rng.choice([3, 3, 0, 1, 2]))
    # client connections through the real handleConnection loop of the same proxy (last: in store mode a backend
    # dial refreshes the proxy's caches like `warm backends`, which the ghost cache of the monitor does not follow)
    for _ in range(rng.choice([1, 2, 2, 3])):
        ops.append(gen_conn(rng, names if rng.chance(2, 3) else seen_names, tids if rng.chance(2, 3) else seen_ids))
    return ops


def is_reply_op(op):
    return op.split()[0] in ("meta", "nrmeta", "coord", "nrcoord", "par", "conn")


def run_impl(ck, binary, ops, tag):
    fn = ck.path("ops_%s.txt" % tag)
    open(fn, "w").write("\n".join(ops) + "\n")
    rc, out, err = ck.run_bin(binary, stdin_path=fn, env={"VERIF_HARNESS": "C28"})
    impl = out.split("\n")[:-1]
    if rc != 0 or len(impl) != len(ops):
        return fn, impl, "impl-crash rc=%s lines=%d/%d %s" % (rc, len(impl), len(ops), err[-500:])
    return fn, impl, None


def run_monitor(ck, ops, impl, tag):
    lines = []
    for o, r in zip(ops, impl):
        lines.append(o)
        if is_reply_op(o):
            lines.append("> " + r)
    fn = ck.path("mon_%s.txt" % tag)
    open(fn, "w").write("\n".join(lines) + "\n")
    out = ck.lean_run("C28", fn, args=["--monitor"])
    model, verdicts, j = [], [], 0
    for o in ops:
        model.append(out[j])       # the model's own output for the op (same as a run without --monitor)
        j += 1
        if is_reply_op(o):
            verdicts.append(out[j])
            j += 1
        else:
            verdicts.append("-")
    return model, verdicts


def context_ops(ops, i):
    """The whole session op i belongs to: everything from the `cfg` that started its proxy up to op i (earlier
    snapshots, cache refreshes and requests included — a reply may only depend on the last snapshot, and the
    replay must be able to show that it does not)."""
    j = i
    while j > 0 and not ops[j].startswith("cfg"):
        j -= 1
    return ops[j:i + 1]


def case_key(ops, i):
    """Distinctness of a case: advertised address, the sequence of snapshots / refreshes so far, the request."""
    ctx = context_ops(ops, i)
    return tuple([o for o in ctx[:-1] if not is_reply_op(o)] + [ctx[-1]])


def conn_parts(op, line):
    """(steps, outcomes per step, backend log entries) of a `conn` op and its output line, or None."""
    steps = op.split()[5:]
    if not line.startswith("conn "):
        return None
    outs = [o.strip() for o in line[5:].split(" ;; ")]
    if len(outs) != len(steps) + 1 or not outs[-1].startswith("log="):
        return None
    log = outs[-1][4:]
    return steps, outs[:-1], ([] if log == "-" else log.split(","))


def conn_direct(ctx, op, line):
    """The property on one client connection, judged directly on what the client and the scripted backends saw
    (independent of the Lean model): every Metadata / FindCoordinator reply names only the proxy's advertised address
    and node 0 (or is a not-ready reply that names nobody), or the connection was closed; no backend ever received a
    Metadata (3) / FindCoordinator (10) request.  Returns a list of (fingerprint, detail)."""
    cfg = ctx[0].split()
    host, port = cfg[1], cfg[2]
    parts = conn_parts(op, line)
    if parts is None:
        return [("conn-unparsable-reply", line[:200])]
    steps, outs, log = parts
    bad = []
    for i, (st, out) in enumerate(zip(steps, outs)):
        kind = st.split("/")[0]
        if kind not in ("M", "MB", "F") or out == "closed":
            if kind == "MC" and out not in ("hangup", "closed"):
                bad.append(("conn-unexpected-outcome", "step %d %s -> %s" % (i, st, out)))
            continue
        kv = dict(w.split("=", 1) for w in out.split()[1:] if "=" in w)
        if "backend-" in out:
            bad.append(("conn-reply-from-backend", "step %d %s -> %s" % (i, st, out)))
        elif out.startswith("meta "):
            leaders_ok = True
            if kv.get("topics", "-") != "-":
                for t in kv["topics"].split(";"):
                    ps = t.split("|")[4]
                    for p in ([] if ps == "-" else ps.split(",")):
                        f = p.split(":")
                        leaders_ok &= f[2] == "0" and f[4] == "0" and f[5] == "0" and f[6] == "-"
            if not (kv.get("brokers") in ("-", "0:%s:%s" % (host, port)) and leaders_ok):
                bad.append(("conn-names-non-proxy-broker", "step %d %s -> %s" % (i, st, out)))
        elif out.startswith("coord "):
            if not ((kv.get("node") == "0" and kv.get("host") == host and kv.get("port") == port) or kv.get("node") == "-1"):
                bad.append(("conn-coordinator-not-proxy", "step %d %s -> %s" % (i, st, out)))
        else:
            bad.append(("conn-unexpected-outcome", "step %d %s -> %s" % (i, st, out)))
    for e in log:
        k, _, corr = e.partition(":")
        if k in ("3", "10", "unparsable"):
            i = int(corr) - 1000 if corr.lstrip("-").isdigit() else -1
            bad.append(("conn-metadata-sent-to-backend", "backend received api key %s for client request %s (%s)" % (
                k, corr, steps[i] if 0 <= i < len(steps) else "?")))
    return bad


def conn_same(op, impl_line, model_line):
    """Correspondence on one client connection, on the property-relevant observables only: the client-visible outcome
    of every step.  Where the model closes the connection on a Metadata / FindCoordinator request and the implementation
    sends a not-ready reply that names nobody instead, the two are equivalent for C28 (the rest of that connection is
    then not compared).  The backends' request log is judged by the monitor, not diffed."""
    a, b = conn_parts(op, impl_line), conn_parts(op, model_line)
    if a is None or b is None:
        return impl_line == model_line
    for st, x, y in zip(a[0], a[1], b[1]):
        if x == y:
            continue
        if st.split("/")[0] in ("M", "MB", "F") and y == "closed" and (
                (x.startswith("meta brokers=- ctrl=-1 ") and "backend-" not in x) or x.startswith("coord err=7 node=-1 ")):
            return True
        return False
    return True


def examine_conn(ck, ctx, op, line, model_line):
    """Coverage counters + the direct monitor for one client connection."""
    parts = conn_parts(op, line)
    if parts is not None:
        steps, outs, log = parts
        failed = linked = closed = False
        for st, out in zip(steps, outs):
            k = st.split("/")[0]
            ck.count("conn_step_" + (st if k == "X" else k))
            if not closed and k in ("M", "MB", "MC", "F"):
                o = out.split()[0]
                ck.count("conn_meta_outcome_" + o)
                if failed or k == "MB":
                    ck.count("conn_meta_after_failure" + ("_with_backend_link" if linked else "_no_link"))
            if k == "X" and st.split("/")[1] in ("cancel", "cancelinstore", "storefail", "notready"):
                failed = True
            if k == "R" and out == "relay":
                linked = True
            closed = closed or out in ("closed", "hangup")
        ck.count("conn_backend_requests", len(log))
    for fp, detail in conn_direct(ctx, op, line):
        ck.violation(fp, "client connection breaks C28 (%s): %s" % (fp, detail),
                     {"ops": ctx, "expected": "Metadata / FindCoordinator are answered by the proxy itself (naming only the "
                      "proxy) or the connection is closed; the backends never see them",
                      "actual": line, "model": model_line})


def examine(ck, ops, impl, model, verdicts, hunting=False):
    """Registers cases, reports violations; returns index of first pure correspondence diff or None."""
    first = None
    for i, o in enumerate(ops):
        if not is_reply_op(o):
            continue
        kind = o.split()[0]
        ck.count("op_" + kind)
        if kind == "par":
            ck.count("concurrent_requests", len(o.split()) - 1)
        if kind in ("meta", "nrmeta"):
            ck.count("v%s" % o.split()[1])
            r = o.split()[2]
            form = r if r in ("all", "empty") else ("by-id" if any(not e.endswith("@0") for e in r.split(",")) else "by-name")
            ck.count("req_" + form)
        ctx = context_ops(ops, i)
        if kind == "conn":
            examine_conn(ck, ctx, o, impl[i], model[i] if model else None)
        nontriv = kind in ("meta", "par") and "topics=-" not in impl[i] and impl[i].startswith(kind + " ")
        if kind == "conn":
            nontriv = any(st.split("/")[0] in ("M", "MB", "MC", "F") for st in o.split()[5:]) and impl[i].startswith("conn ")
        ck.case(case_key(ops, i), nontrivial=nontriv, sample={"ops": ctx, "impl": impl[i]})
        state = [o.split()[0] for o in ctx[:-1] if o.split()[0] in ("snap", "warm", "resolve")]
        if kind in ("meta", "par") and ("warm" in state or "resolve" in state):
            last_fill = max(k for k, x in enumerate(state) if x in ("warm", "resolve"))
            if "snap" in state[last_fill:]:
                ck.count("requests_after_snapshot_change_with_warm_cache")
            else:
                ck.count("requests_with_fresh_cache")
        if verdicts[i] == "ok cache-would-differ":
            ck.count("requests_where_name_cache_answer_would_differ")
        if impl[i] in ("panic", "err", "undecodable", "bad-op"):
            ck.count("impl_" + impl[i])
        v = verdicts[i]
        if v.startswith("violation"):
            fp = v.split(" ", 1)[1]
            ck.violation(fp, "proxy reply breaks C28 (%s): %s -> %s" % (fp, o, impl[i]),
                         {"ops": ctx, "expected": "monitor predicates of KafVerif.Props.C28 hold on the reply",
                          "actual": impl[i], "model": model[i] if model else None})
        elif model is not None and impl[i] != model[i] and first is None:
            if kind == "conn" and conn_same(o, impl[i], model[i]):
                ck.count("conn_equivalent_modulo_log_or_error_reply")
                continue
            first = i
    return first


def run(ck):
    bins = ck.build_all()
    if bins is None:
        return
    binary = bins["h"]
    ncases = 100 if ck.quick() else 1200
    ck.cov["rule"] = ("cases = replies of SESSIONS on one proxy, from VERIF_SEED: advertised address, snapshot A, requests, real cache "
                      "refresh (refreshMetadataCache / currentBackends / resolveTopicID), snapshot B derived from A (topic deleted / "
                      "re-created under a new id / renamed / names swapped / added / partitions changed), requests by every cached id, "
                      "by the touched ids alone and mixed, by name, all — possibly a second refresh + change; requests: all / empty / "
                      "by name / by id / mixed at Metadata versions 0-12, not-ready Metadata, FindCoordinator, and batches of "
                      "2-4 OVERLAPPING Metadata requests (store read gated until all are in flight); every reply is checked against "
                      "its own request and the snapshot in force when it was issued; a case is non-trivial when the reply lists at "
                      "least one topic; distinct = distinct (cfg, snapshot/refresh history, request); each session ends with 1-3 "
                      "CLIENT CONNECTIONS through the real handleConnection (scripted TCP backends that answer Metadata/FindCoordinator "
                      "naming themselves; static / store-derived / cached backend lists, live and dead addresses): relayed request(s) -> "
                      "failure (context cancelled, also inside the next store read / store error / body cut short / link killed / not "
                      "ready) -> Metadata / FindCoordinator on the same connection, and the same without a prior link; every client-visible "
                      "outcome and the backends' request log are diffed against the dispatch model and judged by the monitor")
    ops = []
    import glob, os
    for f in sorted(glob.glob(os.path.join(lib.REPLAYS, "C28-*.json"))):   # corpus first
        ops += json.load(open(f))["ops"]
        ck.count("corpus_files")
    for _ in range(ncases):
        ops += gen_case(ck.rng.fork(), 6)
    fn, impl, crash = run_impl(ck, binary, ops, "all")
    if crash:
        ck.broke("implementation harness did not answer every op", crash)
        return
    model, verdicts = run_monitor(ck, ops, impl, "all")
    ck.cov["traces_validated_against_impl"] += ncases
    d = examine(ck, ops, impl, model, verdicts)
    if d is not None:
        ck.cov["disagreements_checked"] += 1
        ck.broke("correspondence model/implementation (proxy metadata path)",
                 "ops %r\nimpl : %s\nmodel: %s" % (context_ops(ops, d), impl[d], model[d]))
        if not ck.violations:      # a concrete failing input is already on file otherwise
            hunt(ck, binary)


def hunt(ck, binary):
    """The model no longer mirrors the code: search more widely with the property monitor alone."""
    for rnd in range(6):
        ops = []
        for _ in range(300):
            ops += gen_case(ck.rng.fork(), 8)
        fn, impl, crash = run_impl(ck, binary, ops, "hunt%d" % rnd)
        if crash:
            return
        _, verdicts = run_monitor(ck, ops, impl, "hunt%d" % rnd)
        examine(ck, ops, impl, None, verdicts, hunting=True)
        if ck.violations:
            return


def replay(ck, path):
    rep = json.load(open(path))
    bins = ck.build_all()
    if bins is None:
        return
    ops = rep["ops"]
    fn, impl, crash = run_impl(ck, bins["h"], ops, "replay")
    if crash:
        ck.broke("implementation harness did not answer every op", crash)
        return
    model, verdicts = run_monitor(ck, ops, impl, "replay")
    for o, r, m, v in zip(ops, impl, model, verdicts):
        print("  op    %s\n  impl  %s\n  model %s\n  spec  %s" % (o, r, m, v))
    examine(ck, ops, impl, model, verdicts)
    ck.cov["evaluations"] = max(ck.cov["evaluations"], 1)
    ck.cov["distinct_nontrivial"] = max(ck.cov["distinct_nontrivial"], 2)
