"""C03 — fetch returns exactly the acknowledged bytes, in order.

Also holds the generators, the reference log and the three property monitors shared with
checks/C02.py and checks/C04.py (same model `KafVerif.Model.PLogRead`, same storage harness
`harness/C03/root/cmd/verif_c03`, same line protocol `KafVerif.Model.PLogProto`)."""
import json
import struct

from checks import lib
from checks import S3chunks as S3C

PROPERTY = "C03"
LEAN_MODULES = ["KafVerif.Props.C03", S3C.LEAN_MODULE]
OBLIGATIONS = [
    "KafVerif.C03.recordsFrom_run",
    "KafVerif.C03.fallback_run",
    "KafVerif.C03.readOld_skips_flush_window",
    "KafVerif.C03.segment_read_run",
    "KafVerif.C03.range_read_eq_slice",
    "KafVerif.C03.read_run",
    "KafVerif.C03.read_run_reachable",
    "KafVerif.C03.read_only_caches",
    "KafVerif.C03.read_run_gapped",
    "KafVerif.C03.read_run_after_loss",
    "KafVerif.C03.read_run_after_loss_run",
    "KafVerif.C03.handouts_stable",
    "KafVerif.C03.shared_buffer_unstable",
] + S3C.OBLIGATIONS_C03          # lower seam: the real awsS3Client's Download* over chunked / cut GetObject bodies
ASSUMPTIONS = [
    "S3 is the in-memory client (atomic whole-object put, read-after-write, clamped range reads); upload failures are C01/C05's subject and are not generated; "
    "object loss (a segment's index object deleted or corrupted, a segment object deleted) is generated only together with a restart (the data of a lost/orphaned "
    "segment is then outside the reference log); repeated loss+restart rounds are covered by the correspondence run and the monitor, the theorems cover one round",
    "freshness of returned record sets: every byte slice PartitionLog.Read hands out is a fresh allocation that nothing writes to afterwards (modelled as a heap of "
    "hand-outs in Model/PLogHandout.lean: theorem handouts_stable for the fresh-copy read path, witness shared_buffer_unstable for a reused per-partition buffer); "
    "validated on the real code by the stability run: every returned slice is kept with a private copy and re-compared after every later op, incl. two concurrent readers (read2)",
    "the segment cache returns the bytes stored under (topic, partition, base) (C09) and committed segment keys are written once",
    "segment header (32 bytes) and footer (16 bytes) contents are not modelled (zero bytes): no read may return them; CRC32 and creation time are outside the model",
    "prefetch goroutines only warm the cache (ReadAheadSegments=0 in the correspondence runs; a separate monitor-only stream runs with read-ahead on)",
    "offsets are unbounded integers in the model (no int64 overflow)",
]
TECHNIQUE = "Lean 4 proof over a hand-written model of PartitionLog.Read + Go/Lean differential correspondence on generated append/flush/restart/read histories + direct property monitor against a reference log"
LEVEL_TEXT = ("Lean 4 theorems, for every configuration and every operation sequence (append of arbitrary bytes, flush, gated flush, restart, "
              "read) whose accepted record sets declare their length: PartitionLog.Read answers offset-out-of-range iff no batch reaches the "
              "offset, otherwise a non-empty prefix of the partition's acknowledged bytes starting exactly at the batch holding the offset - on "
              "the cached, range-read, full-download, flush-window and buffer paths (read_run_reachable; range path proved equal to cached path). "
              "Model tied to the current source by differential runs at the PartitionLog and the handleFetch level.")
LEVEL_NOTE = ("Trusted: Lean kernel; the hand-written model of log.go/buffer.go/index.go/segment.go; the Go harness and generators. "
              "Cache coherence is an invariant of the model (C09 proves the cache itself); S3 is the in-memory client.")
BUILDS = {"st": ("root", "./cmd/verif_c03", ["C03"]), "br": ("root", "./cmd/broker", ["C02", "C03"])}
# C03 itself also fetches THROUGH THE PROXY (cmd/proxy fan-out + merge, harness and monitor of C27): "never another topic's data"
BUILDS_C03 = dict(BUILDS, px=("root", "./cmd/proxy", ["C27"]), s3c=S3C.ROOT_BUILD)
DRIVER = "C03"


# ----------------------------------------------------------------------------- batches
def mk_batch(lod=0, count=1, payload=9, marker=0, base=0, blen=None, seq=0):
    n = 61 + payload
    b = bytearray(n)
    struct.pack_into(">q", b, 0, base)
    struct.pack_into(">i", b, 8, (n - 12) if blen is None else blen)
    b[16] = 2  # magic
    struct.pack_into(">i", b, 23, lod)
    struct.pack_into(">H", b, 12, seq & 0xFFFF)       # partition leader epoch bytes: unique tag
    b[14] = marker & 0xFF
    struct.pack_into(">i", b, 57, count)
    for i in range(61, n):
        b[i] = (marker + i) & 0xFF
    return bytes(b)


I32MAX = 2 ** 31 - 1
KNOWN_UNDECLARED = "undeclared-batch-length-stops-frame-walk"
PAYLOADS = [0, 0, 1, 9, 9, 9, 30, 75, 200]
MAXBYTES = [1, 12, 60, 61, 62, 69, 70, 71, 100, 131, 139, 140, 141, 200, 300, 1000, 100000, I32MAX, 0, -1]


class Gen:
    """Generates one history (op lines) for up to three logs sharing S3 and cache."""

    def __init__(self, rng, malformed=True, multi=True, gates=True, restarts=True, lie_rate=(1, 6)):
        self.rng = rng
        self.lie_rate = lie_rate
        self.malformed = malformed
        self.multi = multi
        self.gates = gates
        self.restarts = restarts
        self.seq = 0

    def batch_hex(self, k, lied):
        r = self.rng
        self.seq += 1
        lod = r.choice([0, 0, 0, 0, 1, 2, 4, 9, 99])
        count = r.choice([lod + 1, lod + 1, lod + 1, 1, 0, 100, 150, 37, -1, I32MAX])
        payload = r.choice(PAYLOADS)
        base = r.choice([0, 0, 7, -1, 2 ** 40, -(2 ** 63), 2 ** 63 - 1])
        mark = (self.seq * 7 + k * 64) & 0xFF
        if not lied:
            return mk_batch(lod, count, payload, mark, base, seq=self.seq + k * 20000).hex()
        kind = r.below(9)
        if kind == 0:
            return mk_batch(r.choice([-1, -1, -5, -(2 ** 31), -2]), count, payload, mark, base, seq=self.seq).hex()
        if kind == 1:   # 2-4 concatenated batches
            n = r.range(2, 4)
            return b"".join(mk_batch(r.choice([0, 1, 2]), 1, r.choice([0, 9]), mark + j, r.choice([0, 5]), seq=self.seq + j)
                            for j in range(n)).hex()
        if kind == 2:   # length field too large / too small / negative
            return mk_batch(lod, count, payload, mark, base, blen=r.choice([49 + payload + 1, 49 + payload - 1, 49, 61, -1, -(2 ** 31), I32MAX, 1]), seq=self.seq).hex()
        if kind == 3:   # length field not declared (the repo's own test fixtures)
            return mk_batch(lod, count, payload, mark, base, blen=0, seq=self.seq).hex()
        if kind == 4:   # too short to be a batch
            return (mk_batch(lod, count, 0, mark, base)[:r.choice([0, 1, 8, 12, 27, 60])]).hex() or "-"
        if kind == 5:   # huge delta
            return mk_batch(r.choice([I32MAX, 2 ** 30]), count, payload, mark, base, seq=self.seq).hex()
        if kind == 6:   # batch followed by a few trailing bytes
            return (mk_batch(lod, count, payload, mark, base, seq=self.seq) + bytes(r.range(1, 70))).hex()
        if kind == 7:   # count lies
            return mk_batch(lod, r.choice([-(2 ** 31), I32MAX, -7, 0]), payload, mark, base, seq=self.seq).hex()
        return mk_batch(0, 1, payload, mark, base, seq=self.seq).hex()

    def history(self, nops, iv=None, cache=None, start=None):
        r = self.rng
        iv = r.choice([1, 1, 2, 3, 5, 100, 100, 100, 0, -2]) if iv is None else iv
        cache = r.below(2) if cache is None else cache
        start = r.choice([0, 0, 0, 0, 5, 1000, 2 ** 31 + 5, 2 ** 40]) if start is None else start
        ops = ["new %d %d %d" % (iv, cache, start)]
        live = [0]
        if self.multi and r.chance(1, 3):
            for k in (1, 2):
                ops.append("@%d new %d %d %d" % (k, r.choice([1, 3, 100]), cache if r.chance(3, 4) else 1 - cache, r.choice([0, start])))
                live.append(k)
        # shadow of next offsets / batch layout to aim reads (not an oracle: only guides the generator)
        nxt = {0: start, 1: 0, 2: 0}
        for op in ops[1:]:
            f = op.split()
            nxt[int(f[0][1:])] = int(f[4])
        lo = dict(nxt)
        bounds = {k: [] for k in (0, 1, 2)}
        sizes = {k: [] for k in (0, 1, 2)}
        flushed = dict(nxt)                      # shadow of the published watermark
        marks = {k: [nxt[k]] for k in (0, 1, 2)}  # earlier watermarks (stale store offsets for restartat)
        pending = None
        gated = None
        pfx = lambda k: "" if k == 0 else "@%d " % k

        def release():
            nonlocal gated, pending
            ops.append(pfx(gated) + "release")
            flushed[gated] = pending
            marks[gated].append(pending)
            gated = pending = None
        for _ in range(nops):
            k = r.choice(live) if r.chance(1, 4) else 0
            x = r.below(100)
            if x < 38:
                lied = self.malformed and r.chance(*self.lie_rate)
                hx = self.batch_hex(k, lied)
                ops.append(pfx(k) + "append " + hx)
                if not lied:
                    b = bytes.fromhex(hx)
                    lod = struct.unpack(">i", b[23:27])[0]
                    bounds[k].append((nxt[k], nxt[k] + lod))
                    sizes[k].append(len(b))
                    nxt[k] += lod + 1
            elif x < 50:
                if gated is None:
                    ops.append(pfx(k) + "flush")
                    flushed[k] = nxt[k]
                    marks[k].append(nxt[k])
                else:
                    release()
            elif x < 55 and self.gates:
                if gated is None:
                    ops.append(pfx(k) + "gate")
                    gated, pending = k, nxt[k]
                else:
                    release()
            elif x < 59 and self.restarts and gated is None:
                if r.chance(1, 2):
                    ops.append(pfx(k) + "restart")
                else:
                    # stale store offset: usually the watermark before the last flush (crash between upload and UpdateOffsets)
                    ops.append(pfx(k) + "restartat %d" % (marks[k][-2] if len(marks[k]) > 1 and r.chance(2, 3) else r.choice(marks[k])))
                nxt[k] = flushed[k]
                keep = [i for i, (a, z) in enumerate(bounds[k]) if z < flushed[k]]
                bounds[k] = [bounds[k][i] for i in keep]
                sizes[k] = [sizes[k][i] for i in keep]
            elif x < 63:
                ops.append(pfx(k) + "dropcache")
            else:
                bs = bounds[k]
                c = r.below(10)
                if bs and c < 6:
                    i = r.below(len(bs))
                    a, z = bs[i]
                    o = r.choice([a, z, (a + z) // 2, a + 1 if a < z else a])
                elif c < 8:
                    o = r.range(lo[k] - 2, max(nxt[k], lo[k]) + 2)
                else:
                    o = r.choice([lo[k], nxt[k] - 1, nxt[k], nxt[k] + 1, lo[k] - 1, 0, -1])
                if sizes[k] and r.chance(1, 2):
                    i = r.below(len(sizes[k]))
                    span = sum(sizes[k][i:i + r.range(1, 4)])
                    m = max(1, span + r.choice([-1, 0, 1, -12, 5]))
                else:
                    m = r.choice(MAXBYTES)
                if r.chance(1, 7):   # two fetches of the partition in flight at once
                    o2 = r.choice([a for a, _ in bs] + [z for _, z in bs]) if bs else o
                    ops.append(pfx(k) + "read2 %d %d %d %d" % (o, m, o2, r.choice([m, 61, 70, 1000, 100000])))
                else:
                    ops.append(pfx(k) + "read %d %d" % (o, m))
        if gated is not None:
            release()
        return ops


def xpart_ops(ck, ncases):
    """Cross-partition isolation stream: three logs (orders/0, orders/1, orders/10) with the same start offset share S3
    and the cache, so their segments have equal base offsets; flush, read (cached and not), restart each of them."""
    ops = []
    for c in range(ncases):
        r = ck.rng.fork()
        g = Gen(r.fork(), malformed=False)
        iv = r.choice([1, 3, 100])
        start = r.choice([0, 0, 7])
        cache = 1 if c % 3 else 0
        ops += ["new %d %d %d" % (iv, cache, start)] + ["@%d new %d %d %d" % (k, iv, cache, start) for k in (1, 2)]
        pfx = lambda k: "" if k == 0 else "@%d " % k
        nxt = {k: start for k in (0, 1, 2)}
        for rnd in range(r.range(2, 3)):
            for k in (0, 1, 2):
                same = r.chance(1, 2)      # same batch shapes in every log -> equal segment bases and sizes
                for j in range(r.range(1, 3)):
                    hx = g.batch_hex(k, False)
                    if same:
                        b = bytearray(bytes.fromhex(hx))
                        b[23:27] = (0).to_bytes(4, "big")
                        hx = bytes(b).hex()
                    lod = struct.unpack(">i", bytes.fromhex(hx)[23:27])[0]
                    nxt[k] += lod + 1
                    ops.append(pfx(k) + "append " + hx)
                ops.append(pfx(k) + "flush")
            for k in (1, 2, 0):
                for _ in range(2):
                    ops.append(pfx(k) + "read %d %d" % (r.range(start, max(start, nxt[k] - 1)), r.choice([70, 100, 1000, 100000])))
            if r.chance(1, 2):
                ops.append("dropcache")
            k = r.choice([1, 1, 2, 0])
            ops.append(pfx(k) + r.choice(["restart", "restartat %d" % start]))
            for k in (1, 2, 0):
                ops.append(pfx(k) + "read %d %d" % (r.range(start, max(start, nxt[k] - 1)), r.choice([70, 1000])))
    return ops


def holes_ops(ck, ncases):
    """Object loss + restart: 3-5 committed segments, then the index object of a segment (mostly a MIDDLE one) is deleted or
    corrupted, or a segment object is deleted, and the log restarts at a store offset at or below the first index-less
    segment (RestoreFromS3 skips it as orphaned; a later store offset makes the restore fail - generated rarely).  The restored
    segment list has a hole; reads at every boundary offset of every original segment and batch (in, before and after the
    hole), a tail appended after the restart, a second round of loss."""
    ops = []
    for c in range(ncases):
        r = ck.rng.fork()
        g = Gen(r.fork(), malformed=False)
        iv = r.choice([1, 1, 2, 3, 100, 100])
        start = r.choice([0, 0, 0, 7, 2 ** 33])
        ops.append("new %d %d %d" % (iv, c % 2, start))
        nxt = start
        segs = []            # registered segments: (base, last, [(first, last, bytes) per batch])
        everything = []      # every segment ever written (read targets)
        marks = [start]
        orphans = set()      # bases of S3 segment objects without a usable index
        tail = []

        def add_batch():
            nonlocal nxt
            hx = g.batch_hex(0, False)
            b = bytes.fromhex(hx)
            lod = struct.unpack(">i", b[23:27])[0]
            lay = (nxt, nxt + lod, len(b))
            nxt += lod + 1
            ops.append("append " + hx)
            return lay

        def add_seg():
            base = nxt
            lay = tail + [add_batch() for _ in range(r.range(1, 3))]
            del tail[:]
            base = lay[0][0]
            ops.append("flush")
            segs.append((base, nxt - 1, lay))
            everything.append(segs[-1])
            orphans.discard(base)
            marks.append(nxt)

        def reads():
            pts = set()
            for (base, last, lay) in everything + ([(tail[0][0], tail[-1][1], tail)] if tail else []):
                pts.update([base - 1, base, base + 1, last - 1, last, last + 1, (base + last) // 2])
                for (a, z, ln) in lay:
                    pts.update([a, z])
            pts.update([start - 1, start, nxt - 1, nxt, nxt + 1])
            sizes = sorted(set(ln for sg in everything for (_, _, ln) in sg[2]))
            pts = sorted(pts)
            for o in pts:
                for m in sorted(set([r.choice([1, 61, 1 << 20]), r.choice(sizes + [70, 0, 200]), r.choice([sizes[0], sizes[-1] + 1, 100000])])):
                    if r.chance(1, 9):
                        ops.append("dropcache")
                    if r.chance(1, 8):
                        ops.append("read2 %d %d %d %d" % (o, m, r.choice(pts), r.choice([m, 61, 1 << 20])))
                    else:
                        ops.append("read %d %d" % (o, m))

        for _ in range(r.range(3, 5)):
            add_seg()
        for rnd in range(r.choice([1, 1, 2])):
            x = r.below(8)     # mostly a MIDDLE segment; sometimes any; sometimes the LAST one (an orphan ABOVE the last valid segment)
            cand = segs[1:-1] if len(segs) > 2 and x < 5 else (segs[-1:] if x == 7 else segs)
            gone = set()
            for _ in range(r.choice([1, 1, 1, 2])):
                if not cand:
                    break
                sg = r.choice(cand)
                kind = r.choice(["delindex", "delindex", "badindex", "delseg"])
                ops.append("%s %d" % (kind, sg[0]))
                if kind == "delseg":
                    gone.add(sg[0])
                    orphans.discard(sg[0])
                elif sg[0] not in gone:
                    orphans.add(sg[0])
            if r.chance(1, 5):
                reads_before = r.chance(1, 2)   # the running log still has the segments registered
                if reads_before and not gone:
                    reads()
            lim = min(orphans) if orphans else nxt
            okm = [m for m in marks if m <= lim] or [marks[0]]
            if r.chance(1, 14):
                st = nxt
                ops.append("restart")
            else:
                st = r.choice(okm[-3:])
                ops.append("restartat %d" % st)
            if all(b >= st for b in orphans):
                segs = [sg for sg in segs if sg[0] not in gone and sg[0] not in orphans]
                last = segs[-1][1] if segs else -1
                nxt = last + 1 if last >= st else st
            else:
                segs, nxt = [], st
            del tail[:]
            marks = [m for m in marks if m <= nxt]
            if nxt not in marks:
                marks.append(nxt)
            x = r.below(4)
            if x == 0:
                tail.append(add_batch())
            elif x == 1:
                add_seg()
            reads()
            if rnd == 0:
                add_seg()
    return ops


def orphan_ops(ck, ncases):
    """Half-uploaded flush / lost index of a committed segment, then a restart (seeded changes C02-r3-1 and C04-r3-1).
    Two kinds of case alternate:
    (tail)      2-4 committed segments; the index object of the LAST one or two is deleted / corrupted (= a flush whose segment
                upload succeeded and whose index upload did not, or a crash between the two uploads) and the log restarts at the
                base of the first lost segment or at an older store offset, while older valid segments exist.  RestoreFromS3 must
                skip the orphans AND restart the offsets at the end of the last VALID segment: the appends after the restart (their
                flush overwrites the orphan object, same key) must continue there.  Then a plain restart and more appends.
    (committed) 1-3 segments, one of them with 3-5 batches whose index object is lost, and a restart at a store offset ABOVE
                that segment's base (the segment holds committed offsets).  The unchanged code refuses the partition (`err`); the
                reads that follow - every batch of that segment, limits below / at / above the distance from the segment start,
                cached and uncached - are judged whenever the implementation's restore succeeded."""
    ops = []
    for c in range(ncases):
        r = ck.rng.fork()
        g = Gen(r.fork(), malformed=False)
        tailcase = c % 2 == 0
        iv = r.choice([1, 2, 100, 100])
        start = r.choice([0, 0, 0, 7, 2 ** 33])
        ops.append("new %d %d %d" % (iv, (c // 2) % 2, start))
        st8 = {"nxt": start}
        segs = []            # (base, last, [(first, last, bytes) per batch]) of every segment object ever written

        def add_seg(nb):
            lay = []
            for _ in range(nb):
                hx = g.batch_hex(0, False)
                b = bytes.fromhex(hx)
                lod = struct.unpack(">i", b[23:27])[0]
                lay.append((st8["nxt"], st8["nxt"] + lod, len(b)))
                st8["nxt"] += lod + 1
                ops.append("append " + hx)
            ops.append("flush")
            segs.append((lay[0][0], st8["nxt"] - 1, lay))
            return segs[-1]

        def reads(which, deep):
            sizes = sorted(set(ln for sg in segs for (_, _, ln) in sg[2]))
            for (base, last, lay) in which:
                dist = 0
                for (a, z, ln) in lay:
                    ms = [1, 61, ln, max(1, dist - 1), max(1, dist), dist + 1, dist + ln, 70, r.choice(sizes), 1 << 20]
                    ms = sorted(set(ms)) if deep else sorted(set([r.choice(ms), r.choice([61, 70, 1 << 20])]))
                    for o in sorted(set([a, z])):
                        for m in ms:
                            if deep and not r.chance(2, 3):
                                continue
                            ops.append("read %d %d" % (o, m))
                    dist += ln
                if not deep:
                    ops.append("read %d %d" % (r.choice([base - 1, last + 1]), r.choice([61, 1 << 20])))
            ops.append("read %d %d" % (st8["nxt"] - 1, 70))
            ops.append("read %d 61" % st8["nxt"])

        if tailcase:
            n = r.range(2, 4)
            for _ in range(n):
                add_seg(r.range(1, 3))
            k = n if r.chance(1, 10) else min(r.choice([1, 1, 1, 2]), n - 1)
            lost = segs[n - k:]
            for sg in lost:
                ops.append("%s %d" % (r.choice(["delindex", "delindex", "delindex", "badindex"]), sg[0]))
            marks = [start] + [sg[0] for sg in segs[:n - k + 1]]
            st = marks[-1] if r.chance(2, 3) else r.choice(marks)
            ops.append("restartat %d" % st)
            st8["nxt"] = max(st, segs[n - k - 1][1] + 1) if k < n else st
            if r.chance(1, 2):
                reads(segs[-2:], False)
            for _ in range(r.range(1, 2)):        # the first flush overwrites the (first) orphan object
                add_seg(r.range(1, 2))
            reads(segs[max(0, n - k - 1):], False)
            ops.append("dropcache")
            ops.append("restart")                  # may fail: an orphan that was not overwritten is now below the store offset
            add_seg(1)
            reads(segs[-3:], False)
        else:
            n = r.range(1, 3)
            v = r.below(n)
            for j in range(n):
                add_seg(r.range(3, 5) if j == v else r.range(1, 2))
            ops.append("%s %d" % ("badindex" if r.chance(1, 6) else "delindex", segs[v][0]))
            above = [sg[0] for sg in segs[v + 1:]] + [st8["nxt"]]
            if r.chance(1, 2):
                ops.append("restart")
            else:
                ops.append("restartat %d" % r.choice(above))
            reads([segs[v]], True)
            ops.append("dropcache")
            reads([segs[v]] + [sg for j, sg in enumerate(segs) if j != v][:1], True)
            add_seg(1)
            reads([segs[v]], False)
    return ops


# ----------------------------------------------------------------------------- reference log + monitors
def split_line(line):
    """'<result> | <dump>' -> (result words, dump dict)"""
    if " | " not in line:
        return line.split(), {}
    res, dump = line.split(" | ", 1)
    return res.split(), dict(x.split("=", 1) for x in dump.split() if "=" in x)


def opk(op):
    f = op.split()
    if f[0].startswith("@"):
        return int(f[0][1:]), f[1:]
    return 0, f


class Ref:
    """Reference log of one partition, built from the implementation's acknowledgements."""

    def __init__(self, start):
        self.start = start
        self.batches = []      # dict(base,last,bytes,durable[,seg,gone])
        self.noidx = set()     # bases of S3 segment objects whose index object is lost / corrupt
        self.dirty = False     # a segment object of the running log was deleted: reads are judged again after the restart
        self.hw = start        # the published watermark as last reported (store offset of a plain `restart`)
        self.floor = start     # the store offset of the last restart: a restored log never continues below it

    def end(self):
        """where the next acknowledged batch must start: one past the last retained batch, or the store offset of the last
        restart when that is larger (everything above the retained log was lost with its objects)"""
        return max(self.batches[-1]["last"] + 1 if self.batches else self.start, self.floor)

    def holder(self, o):
        """index of the batch holding o, or of the first batch after o; None if o is past the end"""
        for i, b in enumerate(self.batches):
            if b["last"] >= o:
                return i
        return None

    def concat_from(self, i):
        return b"".join(b["bytes"] for b in self.batches[i:])


def frames(data):
    """Walk record batch frames the way a consumer does: (pos, base, lod, count, framelen)."""
    out, pos = [], 0
    while pos + 61 <= len(data):
        base = struct.unpack(">q", data[pos:pos + 8])[0]
        blen = struct.unpack(">i", data[pos + 8:pos + 12])[0]
        if blen + 12 < 61 or pos + 12 + blen > len(data):
            break
        lod = struct.unpack(">i", data[pos + 23:pos + 27])[0]
        cnt = struct.unpack(">i", data[pos + 57:pos + 61])[0]
        out.append((pos, base, lod, cnt, blen + 12))
        pos += 12 + blen
    return out


def undeclared_stop(ref, h, x):
    """index j < h of a stored batch with an undeclared (zero) length field at which the answer x starts, else None"""
    for j in range(h):
        bj = ref.batches[j]["bytes"]
        n = min(len(x), len(bj))
        if n > 0 and x[:n] == bj[:n] and bj[8:12] == b"\0\0\0\0":
            return j
    return None


def monitor(ops, out, which, ignore=()):
    """Evaluate property `which` (C02|C03|C04) on the implementation's result lines.
    Returns (op index, fingerprint, what) for the first violation whose fingerprint is not in `ignore`,
    else None.  Independent of the model."""
    for v in _monitor(ops, out, which):
        if v[1] not in ignore:
            return v
    return None


def _monitor(ops, out, which):
    refs = {}
    for i, (op, line) in enumerate(zip(ops, out)):
        k, f = opk(op)
        res, d = split_line(line)
        if not res:
            continue
        if res[0] in ("bad-op", "busy"):
            continue
        if res[0] in ("panic", "stuck"):
            yield i, "go-panic-or-hang", "operation %r ended with %s" % (op[:60], res[0])
        if res[0] == "handout-changed":
            if which in ("C03", "C04"):
                yield i, "returned-bytes-changed-later", ("the byte slice an earlier Read returned (op line %s) had different contents after "
                                                          "%r: the record set handed to one fetch is overwritten by later activity on the partition"
                                                          % (res[1] if len(res) > 1 else "?", " ".join(f)[:60]))
            continue
        if f[0] == "new":
            if k == 0:
                refs = {}
            refs[k] = Ref(int(f[3]))
            continue
        ref = refs.get(k)
        if ref is None:
            continue
        if f[0] == "append":
            if res[0] == "ok":
                base, last = int(res[1]), int(res[2])
                data = bytes.fromhex(f[1]) if f[1] != "-" else b""
                if which == "C02":
                    if base != ref.end():
                        yield i, "base-not-contiguous", "append acknowledged base %d, previous batch ended at %d" % (base, ref.end() - 1)
                    if last < base:
                        yield i, "last-before-base", "append acknowledged offsets %d..%d" % (base, last)
                    stored = d.get("buf", "-").split(",")[-1].split(":")
                    if d.get("buf", "-") == "-" or int(stored[0]) != base or int(stored[4]) != base:
                        yield i, "stored-base-differs", "acknowledged base %d, stored batch %s" % (base, d.get("buf"))
                    if int(d["n"]) != last + 1:
                        yield i, "next-offset-wrong", "after acknowledging %d..%d nextOffset is %s" % (base, last, d["n"])
                stored_bytes = struct.pack(">q", base) + data[8:]
                if which == "C02":
                    fr = frames(stored_bytes)
                    if len(fr) > 1 or (fr and (fr[0][1] != base or fr[0][1] + fr[0][2] != last or fr[0][4] != len(stored_bytes))):
                        yield i, "stored-frames-differ", ("acknowledged one batch %d..%d but the stored bytes decode as frames %s"
                                                            % (base, last, [(x[1], x[1] + x[2]) for x in fr]))
                ref.batches.append({"base": base, "last": last, "bytes": stored_bytes, "durable": False})
            elif which == "C02" and int(d["n"]) != ref.end():
                yield i, "rejected-append-moved-offset", "rejected append changed nextOffset to %s (log ends at %d)" % (d["n"], ref.end() - 1)
            continue
        if f[0] in ("flush", "gate", "release") and res[0] in ("flushed", "gated", "released", "nogate"):
            fresh = []
            for b in ref.batches:
                if res[0] == "gated":                 # drained now, durable when the upload is released
                    b["inflight"] = not b["durable"]
                elif res[0] == "released":
                    if b.get("inflight"):
                        b["durable"], b["inflight"] = True, False
                        fresh.append(b)
                else:
                    if not b["durable"]:
                        fresh.append(b)
                    b["durable"] = True
            for b in fresh:                           # one flush = one segment object (.kfs + .index) under the first base
                b["seg"] = fresh[0]["base"]
            if fresh:
                ref.noidx.discard(fresh[0]["base"])
            if which == "C02" and int(d["n"]) != ref.end():
                yield i, "flush-moved-offset", "flush changed nextOffset to %s" % d["n"]
            ref.hw = int(d.get("hw", ref.hw))
            continue
        if f[0] in ("delindex", "badindex", "delseg") and res[0] == "lost":
            base = int(f[1])
            if f[0] == "delseg":
                for b in ref.batches:
                    if b.get("seg") == base:
                        b["gone"] = True
                        ref.dirty = True
                ref.noidx.discard(base)
            elif any(b.get("seg") == base and not b.get("gone") for b in ref.batches):
                ref.noidx.add(base)
            continue
        if f[0] in ("restart", "restartat") and res[0] == "err":
            refs[k] = None        # the restore failed (a segment below the store offset has no usable index): nothing to serve
            continue
        if f[0] in ("restart", "restartat") and res[0] == "restarted":
            st = int(f[1]) if f[0] == "restartat" else ref.hw
            # durable batches survive, except those whose segment object is gone and those of a segment without a
            # usable index at or beyond the store offset (RestoreFromS3 skips it as orphaned)
            ref.batches = [b for b in ref.batches if b["durable"] and not b.get("gone")
                           and not (b.get("seg") in ref.noidx and b["seg"] >= st)]
            ref.dirty = False
            ref.floor = max(ref.start, st)
            if which == "C02" and int(d["n"]) != ref.end():
                yield i, "restart-next-offset", ("after the restart at store offset %d nextOffset is %s; the last segment that survived the "
                                                  "restore ends at %d, so the next batch must get offset %d"
                                                  % (st, d["n"], ref.batches[-1]["last"] if ref.batches else -1, ref.end()))
            want_last = ref.batches[-1]["last"] if ref.batches else -1
            if which == "C02" and len(res) > 1 and int(res[1]) != want_last:
                yield i, "restart-last-offset", ("RestoreFromS3 reported last offset %s (what the broker writes to the metadata store); the last "
                                                  "segment that survived the restore ends at %d" % (res[1], want_last))
            ref.hw = int(d.get("hw", ref.hw))
            continue
        if f[0] == "read2" and res[0] == "read2" and len(res) >= 3 and not ref.dirty:
            for (o, m, r) in ((int(f[1]), int(f[2]), res[1]), (int(f[3]), int(f[4]), res[2])):
                kind, x = ("data", bytes.fromhex(r[2:]) if r[2:] != "-" else b"") if r.startswith("d:") else (r, b"")
                if kind == "panic":
                    yield i, "go-panic-or-hang", "concurrent read(%d,%d) panicked" % (o, m)
                for v in judge_read(i, which, ref, o, m, kind, x):
                    yield v
            continue
        if f[0] == "read" and not ref.dirty:
            x = (bytes.fromhex(res[1]) if res[1] != "-" else b"") if res[0] == "data" else b""
            for v in judge_read(i, which, ref, int(f[1]), int(f[2]), res[0], x):
                yield v


def judge_read(i, which, ref, o, m, kind, x):
    """one answer of PartitionLog.Read (kind = data|oor|err, x = the returned bytes) against the reference log"""
    h = ref.holder(o)
    if kind == "data":
        if which == "C03":
            if h is None:
                yield i, "read-past-end-returns-bytes", "read at %d past the log end %d returned %d bytes" % (o, ref.end(), len(x))
            ok = h is not None and any(ref.concat_from(j).startswith(x) for j in range(h, -1, -1)) and len(x) > 0
            if not ok and h is not None:
                yield i, "bytes-not-a-run-of-the-log", ("read(%d,%d) returned %d bytes that are not a contiguous run of the "
                                                          "acknowledged batches starting at or before the batch holding the offset" % (o, m, len(x)))
        if which == "C04" and m > 0 and h is not None:
            want = ref.batches[h]["bytes"]
            n = min(len(x), len(want))
            if n == 0 or x[:n] != want[:n]:
                got = frames(x)
                # known residual: the frame walk of the fixed read path cannot cross a stored batch whose
                # length field is not declared (accepted for the repo's own zero-length-field fixtures)
                for j in range(h):
                    bj = ref.batches[j]["bytes"]
                    if x[:min(len(x), len(bj))] == bj[:min(len(x), len(bj))] and len(x) > 0 and bj[8:12] == b"\0\0\0\0":
                        yield i, KNOWN_UNDECLARED, ("read(%d,%d) stops at the stored batch with base %d whose length field is not declared "
                                                     "(zero) and does not reach the batch holding the offset (base %d)"
                                                     % (o, m, ref.batches[j]["base"], ref.batches[h]["base"]))
                        return
                yield i, "no-progress", ("read(%d,%d) does not start at the batch holding the offset (base %d); returned batches %s"
                                           % (o, m, ref.batches[h]["base"], [(g[1], g[1] + g[2]) for g in got][:4]))
        if which == "C02":
            for (pos, base, lod, cnt, flen) in frames(x):
                hit = [b for b in ref.batches if b["base"] == base]
                if not hit or hit[0]["last"] != base + lod:
                    yield i, "fetched-frame-not-an-assigned-batch", ("fetched batch with offsets %d..%d was never assigned"
                                                                       % (base, base + lod))
    elif kind == "oor":
        if which == "C04" and h is not None:
            yield i, "no-progress-oor", "read(%d,%d) below the log end %d answered offset-out-of-range" % (o, m, ref.end())
    elif kind == "err":
        if which in ("C03", "C04") and h is not None:
            yield i, "read-error", "read(%d,%d) failed" % (o, m)


# ----------------------------------------------------------------------------- broker level
def bhistory(rng, nops):
    """One broker-level history: bnew, then produce (acks -1/1/0, valid and lying record sets) / fetch / brestart
    on two partitions."""
    r = rng
    g = Gen(r.fork())
    foa = 0 if r.chance(1, 3) else 1
    ops = ["bnew %d" % foa]
    nxt = {0: 0, 1: 0}
    sizes = {0: [], 1: []}
    pfx = lambda k: "" if k == 0 else "@%d " % k
    for _ in range(nops):
        k = 1 if r.chance(1, 5) else 0
        x = r.below(100)
        if x < 45:
            lied = r.chance(1, 5)
            hx = g.batch_hex(k, lied)
            acks = r.choice([-1, -1, 1, 1, 0])
            ops.append(pfx(k) + "produce %d %s" % (acks, hx))
            if not lied:
                b = bytes.fromhex(hx)
                nxt[k] += struct.unpack(">i", b[23:27])[0] + 1
                sizes[k].append(len(b))
        elif x < 50:
            ops.append("brestart")
        else:
            o = r.choice([r.range(-1, nxt[k] + 1), r.range(0, max(0, nxt[k] - 1)), nxt[k] - 1, nxt[k], 0])
            if sizes[k] and r.chance(1, 2):
                i = r.below(len(sizes[k]))
                m = max(1, sum(sizes[k][i:i + r.range(1, 3)]) + r.choice([-1, 0, 1]))
            else:
                m = r.choice(MAXBYTES)
            ops.append(pfx(k) + "fetch %d %d" % (o, m))
    return ops


def bmonitor(ops, out, which, ignore=()):
    for v in _bmonitor(ops, out, which):
        if v[1] not in ignore:
            return v
    return None


def _bmonitor(ops, out, which):
    """Properties C02/C03/C04 on the lines of the broker harness (handleProduce / handleFetch)."""
    refs, nprev, foa = {}, {}, True
    for i, (op, line) in enumerate(zip(ops, out)):
        k, f = opk(op)
        res, d = split_line(line)
        if not res or res[0] == "bad-op":
            continue
        if res[0] in ("panic", "handler-err", "bad-response"):
            yield i, "handler-failed", "operation %r ended with %s" % (op[:60], res[0])
            continue
        if f[0] == "bnew":
            refs = {0: Ref(0), 1: Ref(0)}
            nprev = {0: 0, 1: 0}
            foa = f[1] == "1"
            continue
        if f[0] == "brestart":
            for kk, ref in refs.items():
                ref.batches = [b for b in ref.batches if b["durable"]]
            if which == "C02" and "n" in d and int(d["n"]) != refs[0].end():
                yield i, "restart-next-offset", "after the broker restart nextOffset is %s, the durable log ends at %d" % (d["n"], refs[0].end() - 1)
            nprev = {kk: refs[kk].end() for kk in refs}
            if "n" in d:
                nprev[0] = int(d["n"])
            continue
        ref = refs.get(k)
        if ref is None or "n" not in d:
            continue
        n, hw = int(d["n"]), int(d["hw"])
        if f[0] == "produce":
            data = bytes.fromhex(f[2]) if f[2] != "-" else b""
            acks = int(f[1])
            accepted = None
            if res[0] == "ok":
                accepted = int(res[1])
                if which == "C02" and accepted != ref.end():
                    yield i, "base-not-contiguous", "produce acknowledged base %d, previous batch ended at %d" % (accepted, ref.end() - 1)
            elif res[0] == "noresp" and n != nprev[k]:
                accepted = nprev[k]
            elif res[0] == "rej" and which == "C02" and n != nprev[k]:
                yield i, "rejected-append-moved-offset", "rejected produce (code %s) changed nextOffset %d -> %d" % (res[1], nprev[k], n)
            if accepted is not None and len(data) >= 61:
                lod = struct.unpack(">i", data[23:27])[0]
                last = accepted + lod
                stored = struct.pack(">q", accepted) + data[8:]
                if which == "C02":
                    if last < accepted:
                        yield i, "last-before-base", "produce acknowledged offsets %d..%d" % (accepted, last)
                    if n != last + 1:
                        yield i, "next-offset-wrong", "after acknowledging %d..%d nextOffset is %d" % (accepted, last, n)
                    fr = frames(stored)
                    if len(fr) > 1 or (fr and (fr[0][1] != accepted or fr[0][4] != len(stored))):
                        yield i, "stored-frames-differ", ("acknowledged one batch %d..%d but the stored bytes decode as frames %s"
                                                           % (accepted, last, [(x[1], x[1] + x[2]) for x in fr]))
                    if acks != 0 and foa and hw != n:
                        yield i, "ack-without-watermark", "acknowledged produce left the published watermark at %d (nextOffset %d)" % (hw, n)
                ref.batches.append({"base": accepted, "last": last, "bytes": stored, "durable": False})
            for b in ref.batches:
                if b["last"] < hw:
                    b["durable"] = True
            nprev[k] = n
            continue
        if f[0] == "fetch":
            o, m = int(f[1]), int(f[2])
            kv = dict(x.split("=", 1) for x in res if "=" in x)
            rhw = int(kv.get("hw", "0"))
            h = ref.holder(o)
            if res[0] == "data":
                x = bytes.fromhex(res[1]) if res[1] != "-" else b""
                if which == "C03" and x:
                    if h is None or not any(ref.concat_from(j).startswith(x) for j in range(h, -1, -1)):
                        yield i, "bytes-not-a-run-of-the-log", ("fetch(%d,%d) returned %d bytes that are not a contiguous run of the acknowledged "
                                                                 "batches starting at or before the batch holding the offset" % (o, m, len(x)))
                if which == "C04" and m > 0 and o < rhw and h is not None:
                    want = ref.batches[h]["bytes"]
                    nn = min(len(x), len(want))
                    if nn == 0 or x[:nn] != want[:nn]:
                        j = undeclared_stop(ref, h, x)
                        if j is not None:
                            yield i, KNOWN_UNDECLARED, ("fetch(%d,%d) stops at the stored batch with base %d whose length field is not declared "
                                                         "(zero) and does not reach the batch holding the offset (base %d)"
                                                         % (o, m, ref.batches[j]["base"], ref.batches[h]["base"]))
                            continue
                        yield i, "no-progress", ("fetch(%d,%d) below the high watermark %d does not start at the batch holding the offset (base %d); "
                                                 "returned batches %s" % (o, m, rhw, ref.batches[h]["base"], [(g[1], g[1] + g[2]) for g in frames(x)][:4]))
                if which == "C02":
                    for (pos, base, lod, cnt, flen) in frames(x):
                        hit = [b for b in ref.batches if b["base"] == base]
                        if not hit or hit[0]["last"] != base + lod:
                            yield i, "fetched-frame-not-an-assigned-batch", "fetched batch with offsets %d..%d was never assigned" % (base, base + lod)
            elif res[0] == "err" and which == "C04" and 0 <= o < rhw and h is not None:
                yield i, "no-progress-error", "fetch(%d,%d) below the high watermark %d answered error code %s" % (o, m, rhw, res[1])


def broker_ops(ck, ncases, nops):
    ops = []
    for _ in range(ncases):
        ops += bhistory(ck.rng.fork(), nops)
    return ops


# ----------------------------------------------------------------------------- running
def write_ops(ck, ops, tag):
    fn = ck.path("ops_%s.txt" % tag)
    open(fn, "w").write("\n".join(ops) + "\n")
    return fn


def run_impl(ck, binary, ops, tag="x", env=None):
    fn = write_ops(ck, ops, tag)
    rc, out, err = ck.run_bin(binary, stdin_path=fn, env=env, timeout=900)
    lines = out.split("\n")[:-1]
    if rc != 0 or len(lines) != len(ops):
        return lines, "impl-crash rc=%s lines=%d/%d %s" % (rc, len(lines), len(ops), err[-800:])
    return lines, None


def case_slices(ops):
    """indices where a fresh world starts (`new` on log 0)"""
    starts = [i for i, op in enumerate(ops) if op.startswith("new ")]
    return [(a, b) for a, b in zip(starts, starts[1:] + [len(ops)])]


def shrink(ck, binary, ops, upto, fp, which, env=None, harness="st"):
    """delta-debug the ops of one case (keeping the `new` lines) so that the monitor still reports fp"""
    head = [op for op in ops[:upto + 1] if opk(op)[1][0] in ("new", "bnew")]
    rest = [op for op in ops[:upto + 1] if opk(op)[1][0] not in ("new", "bnew")]

    def fails(cand):
        lines, crash = run_impl(ck, binary, head + cand, "dd", env)
        if crash:
            return False
        return any(v[1] == fp for v in MONITORS_ALL[harness](head + cand, lines, which))
    if not fails(rest):
        return ops[:upto + 1]
    return head + lib.ddmin(rest, fails)


def nontrivial(ops, lines):
    """stated rule: at least one flush committed a segment with >= 2 batches and at least one read
    returned data for an offset that is not the first offset of its segment"""
    seg2, deep = False, False
    for op, line in zip(ops, lines):
        k, f = opk(op)
        res, d = split_line(line)
        if f[0] == "read" and res and res[0] == "data":
            o = int(f[1])
            for s in d.get("segs", "-").split(";"):
                if s == "-":
                    continue
                hd = s.split("[")[0].split(":")
                if int(hd[0]) < o <= int(hd[1]):
                    deep = True
        if "segs" in d and d["segs"] != "-":
            seg2 = True
    return seg2 and deep


def report_monitor(ck, binary, ops, io, which, env=None, harness="st"):
    """Run monitor `which` on one case; report every violation class found (shrunk).  Violations that match a
    listed known finding are reported as such and the search continues.  True iff a new violation was found."""
    ign = ()
    while True:
        mon = MONITORS[harness](ops, io, which, ign)
        if mon is None:
            return False
        i, fp, what = mon
        if fp in [v["fingerprint"] for v in ck.violations]:
            return True                      # this class is already reported with a shrunk replay
        small = shrink(ck, binary, ops, i, fp, which, env, harness)
        if ck.violation(fp, what, {"ops": small, "harness": harness, "env": env,
                                   "expected": "property monitor %s true on every line" % which, "actual": what}):
            return True
        ign += (fp,)


def storage_ops(ck, ncases, nops, gen_kw=None):
    all_ops = []
    for i in range(ncases):
        g = Gen(ck.rng.fork(), **(gen_kw or {}))
        if i < 6 and ncases >= 12:   # fixed corner configurations first
            iv, cache = [(100, 1), (100, 0), (1, 1), (3, 0), (100, 1), (2, 1)][i]
            all_ops += g.history(nops, iv=iv, cache=cache, start=0 if i < 4 else None)
        else:
            all_ops += g.history(nops)
    return all_ops


def prefetch_ops(ck, ncases, nops):
    ops = []
    for _ in range(ncases):
        g = Gen(ck.rng.fork(), gates=False)
        h = g.history(nops, cache=1)
        h[0] = h[0] + " 2"          # ReadAheadSegments = 2 for log 0
        ops += h
    return ops


def run_streams(ck, bins, which, driver, streams):
    """streams: [(name, harness, ops)].  Every stream goes through the real code (its harness binary) and, all
    together in one interpreter run, through the Lean model; per case (a fresh world: `new` on log 0 / `bnew`)
    the property monitor runs on the implementation's lines and the lines are diffed against the model.
    Returns False when something broke."""
    streams = [(st + (True,))[:4] for st in streams]     # (name, harness, ops, compare with the model?)
    impls = []
    for name, harness, ops, _ in streams:
        env = {"VERIF_HARNESS": "C02"} if harness == "br" else None
        impl, crash = run_impl(ck, bins[harness], ops, name, env)
        if crash:
            ck.broke("implementation harness (%s) did not answer every op of stream %s" % (harness, name), crash)
            return False
        impls.append(impl)
    allops = [op for _, _, ops, cmp in streams if cmp for op in ops]
    model = ck.lean_run(driver, write_ops(ck, allops, "model"))
    if len(model) != len(allops):
        ck.broke("Lean driver did not answer every op", "%d lines for %d ops" % (len(model), len(allops)))
        return False
    ok, pos = True, 0
    for (name, harness, ops, cmp), impl in zip(streams, impls):
        mo_all = model[pos:pos + len(ops)] if cmp else impl      # monitor-only stream: nothing to diff
        pos += len(ops) if cmp else 0
        env = {"VERIF_HARNESS": "C02"} if harness == "br" else None
        starts = [i for i, op in enumerate(ops) if op.startswith("new ") or op.startswith("bnew ")]
        for (a, b) in zip(starts, starts[1:] + [len(ops)]):
            o, io, mo = ops[a:b], impl[a:b], mo_all[a:b]
            for op, line in zip(o, io):
                f = opk(op)[1]
                res = split_line(line)[0]
                ck.count("%s:%s:%s" % (name, f[0], res[0] if res else "?"))
            if harness == "br":
                nt = any(l.startswith("data 0") for l in io) and any(l.startswith("rej") for l in io)
            else:
                nt = nontrivial(o, io)
            ck.case(tuple(o), nontrivial=nt, sample={"stream": name, "ops": [x[:100] for x in o[:5]], "impl": [x[:160] for x in io[:5]]})
            ck.cov["traces_validated_against_impl"] += 1
            d = lib.first_diff(io, mo)
            if report_monitor(ck, bins[harness], o, io, which, env, harness):
                ok = False
            elif d is not None:
                ck.cov["disagreements_checked"] += 1
                ck.broke("correspondence model/implementation (stream %s, harness %s)" % (name, harness),
                         "op %r\nimpl : %s\nmodel: %s" % (o[d][:300] if d < len(o) else None,
                                                          io[d][:1500] if d < len(io) else None, mo[d][:1500] if d < len(mo) else None))
                ok = False
    return ok


def hunt(ck, binary, which, rounds, nops, env=None):
    """after a break: monitor-only search on the implementation with fresh seeds"""
    for i in range(rounds):
        g = Gen(ck.rng.fork())
        ops = g.history(nops)
        lines, crash = run_impl(ck, binary, ops, "hunt", env)
        ck.cov["evaluations"] += 1
        if crash:
            continue
        if report_monitor(ck, binary, ops, lines, which, env):
            return True
    return False


def corpus(ck, bins, which):
    """replays/<which>-*.json: the minimal failing cases of the defects found so far (fixed by the fix: patches);
    replayed first on every run so that a regression of a repaired defect is reported with its own replay file."""
    import glob
    import os
    ok = True
    for path in sorted(glob.glob(os.path.join(lib.REPLAYS, "%s-*.json" % which))):
        rep = json.load(open(path))
        ops, harness = rep["ops"], rep.get("harness", "st")
        env = {"VERIF_HARNESS": "C02"} if harness == "br" else None
        lines, crash = run_impl(ck, bins[harness], ops, "corpus", env)
        ck.count("corpus-replays")
        ck.cov["evaluations"] += 1
        if crash:
            ck.broke("corpus replay %s crashed the harness" % os.path.basename(path), crash)
            ok = False
            continue
        for v in MONITORS_ALL[harness](ops, lines, which):
            if ck.violation(v[1], v[2] + " (corpus: %s)" % rep.get("what", ""), {"ops": ops, "harness": harness, "env": env, "actual": v[2]}):
                ok = False
    return ok


def replay_generic(ck, path, which):
    rep = json.load(open(path))
    bins = ck.build_all()
    if bins is None:
        return
    ops = rep.get("ops")
    if not ops:
        print("replay file has no op list (a theorem or the correspondence no longer checks):")
        for b in rep.get("no_longer_checks", []):
            print("  -", b["what"])
        return
    binary = bins[rep.get("harness", "st")]
    lines, crash = run_impl(ck, binary, ops, "replay", rep.get("env"))
    for o, r in zip(ops, lines):
        print("  %-60s -> %s" % (o[:60], r[:200]))
    ck.case(tuple(ops), sample={"ops": [o[:100] for o in ops[:8]]})
    ck.cov["distinct_nontrivial"] = max(ck.cov["distinct_nontrivial"], 2)
    if crash:
        ck.broke("replay: harness crashed", crash)
        return
    for v in MONITORS_ALL[rep.get("harness", "st")](ops, lines, which):
        ck.violation(v[1], v[2], {"ops": ops, "harness": rep.get("harness", "st"), "env": rep.get("env"), "actual": v[2]})


MONITORS = {"st": monitor, "br": bmonitor}
MONITORS_ALL = {"st": _monitor, "br": _bmonitor}


# ----------------------------------------------------------------------------- fetch through the proxy
def proxy_fetch_ops(ck, ncases):
    """Multi-topic fetches through cmd/proxy (C27's harness: real proxy, scripted backends whose reply entries carry a record
    payload naming (topic, partition, send)): topics addressed by NAME (v11, v12) and by TOPIC ID only (v13), 2-4 topics per
    request, partitions spread over three backends, now and then a NOT_LEADER answer (retry + merge of a second reply)."""
    ops = []
    for c in range(ncases):
        r = ck.rng.fork()
        route = ",".join("%d:%d=%d" % (t, p, r.below(3)) for t in range(4) for p in range(4) if not r.chance(1, 8))
        ops.append("setup route=%s known=0,1,2 unres=- down=-" % (route or "-"))
        for _ in range(2):
            v = r.choice([13, 13, 12, 11])
            topics = []
            while len(topics) < r.choice([2, 2, 3, 4]):
                t = r.below(4)
                if t not in topics:
                    topics.append(t)
            entries = [(t, sorted(set(r.below(4) for _ in range(r.range(1, 3))))) for t in topics]
            codes = []
            if r.chance(1, 4):
                t, ps = r.choice(entries)
                codes.append("%d:%d:0=6" % (t, r.choice(ps)))
            ops.append("F v=%d req=%s code=%s fault=-" % (v, ";".join("%d:%s" % (t, "+".join(map(str, ps))) for t, ps in entries),
                                                       ",".join(codes) or "-"))
    return ops


def run_proxy_stream(ck, binary, ops):
    from checks import C27
    fn, impl, crash = C27.run_impl(ck, binary, ops, "proxy")
    if crash:
        ck.broke("proxy harness (C27) did not answer every op of the proxy fetch stream", crash)
        return False
    ok = True
    for i, (o, line) in enumerate(zip(ops, impl)):
        if o.startswith("setup"):
            continue
        ctx = C27.context_ops(ops, i)
        ck.count("proxy:fetch:v" + C27.kv(o, "v"))
        ck.case(tuple(ctx), nontrivial=len(C27.parse_recv(C27.kv(line, "recv"))) >= 2 if line.startswith("reply=") else False,
                sample={"stream": "proxy", "ops": ctx, "impl": line[:300]})
        mon = C27.monitor(o, line)
        if mon is None and "anomaly=" in line:
            mon = ("anomaly", C27.kv(line, "anomaly"))
        if mon and ck.violation("proxy-fetch-" + mon[0], "fetch through the proxy: %s" % mon[1],
                                {"ops": ctx, "harness": "px", "actual": line,
                                 "expected": "one entry per requested topic-partition, each carrying the records of its own topic-partition"}):
            ok = False
    return ok


# ----------------------------------------------------------------------------- C03 itself
def run(ck):
    ck.partial = ("read_run_reachable covers every reachable log whose accepted record sets declare their batch length (all real clients) with "
                  "offsets inside int64 and segments < 2 GiB; for record sets with a zero length field (accepted for the repo's fixtures) only "
                  "the buffer/flush-window theorems apply - the segment path is then covered by the correspondence run and the monitor only; "
                  "object loss: read_run_after_loss(_run) cover ONE loss+restart after any fault-free history and every later state up to the next "
                  "restart (read_run_gapped: any log satisfying the gapped invariant); a SECOND loss+restart round (orphans left in S3 by the first) "
                  "is exercised by the holes stream (correspondence + monitor), not proved")
    bins = ck.build_all()
    if bins is None:
        return
    ck.cov["rule"] = ("hand-out stability: every slice returned by Read is re-compared with a private copy after every later op (also two concurrent readers, read2); "
                      "holes stream: 3-5 segments, index object of a (mostly middle) segment deleted/corrupted or segment deleted, restart at a stale store offset, "
                      "reads at every segment/batch boundary in and around the hole; "
                      "histories of new/append/flush/gate/release/restart/dropcache/read over up to three partition logs sharing S3 and cache, "
                      "index interval in {1,2,3,5,100,0,-2}, cache on/off, generated from VERIF_SEED; a case is non-trivial when a segment was "
                      "committed and a read returned data for an offset that is not the first offset of its segment; distinct = distinct op files; broker stream (handleProduce/handleFetch/brestart, acks in {-1,1,0}, flush-on-ack on/off): "
                      "non-trivial = a fetch returned data and a produce was rejected")
    ncases, nops = (36, 70) if ck.quick() else (300, 110)
    corpus(ck, bins, "C03")
    px, log = ck.go_build(*BUILDS_C03["px"], name="h_px")
    if px is None:
        ck.broke("correspondence harness build px (cmd/proxy, overlay C27)", log)
    else:
        run_proxy_stream(ck, px, proxy_fetch_ops(ck, 40 if ck.quick() else 400))
    # lower seam: the real awsS3Client (DownloadSegment / DownloadIndex) and PartitionLog.Read over it, on a fake of the S3 API
    # whose GetObject bodies arrive in several Reads / are cut mid-transfer / over-announce Content-Length (checks/S3chunks.py)
    ck.assumptions.append(S3C.ASSUMPTION)
    s3c, log = ck.go_build(*BUILDS_C03["s3c"], name="h_s3c")
    if s3c is None:
        ck.broke("correspondence harness build s3c (cmd/verif_c03s3, overlay C03s3)", log)
    else:
        S3C.run_root(ck, s3c, "C03")
    ok = run_streams(ck, bins, "C03", DRIVER, [
        ("histories", "st", storage_ops(ck, ncases, nops)),
        ("xpartition", "st", xpart_ops(ck, 8 if ck.quick() else 80)),
        ("holes", "st", holes_ops(ck, 7 if ck.quick() else 60)),
        ("orphans", "st", orphan_ops(ck, 6 if ck.quick() else 60)),
        ("broker", "br", broker_ops(ck, 6 if ck.quick() else 60, 60)),
        # prefetch goroutines on (cache contents and therefore the path are scheduling dependent): monitor only
        ("prefetch", "st", prefetch_ops(ck, 6 if ck.quick() else 60, 60), False),
    ])
    if not ok and not ck.violations:
        hunt(ck, bins["st"], "C03", 40 if ck.quick() else 400, 90)


def replay(ck, path):
    rep = json.load(open(path))
    if rep.get("harness") == "px":
        px, log = ck.go_build(*BUILDS_C03["px"], name="h_px")
        if px is None:
            ck.broke("correspondence harness build px (cmd/proxy, overlay C27)", log)
            return
        run_proxy_stream(ck, px, rep["ops"])
        ck.cov["distinct_nontrivial"] = max(ck.cov["distinct_nontrivial"], 2)
        return
    if rep.get("harness") == "s3c":
        s3c, log = ck.go_build(*BUILDS_C03["s3c"], name="h_s3c")
        if s3c is None:
            ck.broke("correspondence harness build s3c (cmd/verif_c03s3, overlay C03s3)", log)
            return
        S3C.replay_root(ck, s3c, rep, "C03")
        return
    replay_generic(ck, path, "C03")
