"""C12 — a completed rebalance assigns each partition to exactly one subscriber."""
from checks import C12_common as G

PROPERTY = "C12"
LEAN_MODULES = ["KafVerif.Props.C12"]
OBLIGATIONS = [
    "KafVerif.C12.assign_exact",
    "KafVerif.C12.no_foreign_topic",
    "KafVerif.C12.assign_only_members",
    "KafVerif.C12.sync_reply_is_assignment",
    "KafVerif.C12.stable_assignment_valid",
    "KafVerif.C12.joinOld_violates",
]
BUILDS = G.BUILDS
ASSUMPTIONS = G.COMMON_ASSUMPTIONS + [
    "the partition ids of a topic in the metadata store are pairwise distinct (hypothesis of assign_exact)",
    "the coordinator assigns server side (as coded); client-side assignors are not involved",
]
LEVEL_TEXT = ("Lean 4 theorems about the executable model of GroupCoordinator (assignPartitions: every partition of every "
              "subscribed topic goes to exactly one subscribing member, for all member maps and partition lists; "
              "invariant over all reachable states: the assignment of a Stable group only names current members and "
              "topics they subscribe to; a sync reply is the stored assignment). Tied to the current source by running "
              "generated join/sync/leave/expiry/failover histories through the real coordinator and the model and "
              "diffing replies and full state dumps, plus a direct monitor of the property on the real replies.")
TECHNIQUE = "Lean 4 proof over a hand-written model + Go/Lean differential correspondence + property monitor on the implementation trace"

PROFILE = G.profile(etcd_quick=3, etcd_thorough=30, weights={"resub": 6, "converge": 5, "sync": 12, "meta": 3, "commit": 1, "fetch": 0, "hb": 4, "fail": 1},
                    resub=35, stale_gen=8)
RULE = ("membership histories (join/sync/heartbeat/leave/tick+cleanup/failover/metadata change/store fault) for 1-2 groups of "
        "1-4 clients over 4 topics with 0-5 partitions, generated from VERIF_SEED; non-trivial = some group reached Stable; "
        "distinct = distinct implementation traces")


def expected_parts(meta, t, metafail):
    if metafail:
        return ["0"]
    ps = meta.get(t)
    if not ps:
        return ["0"]
    return sorted(ps, key=int)


def monitor(tr):
    """Returns [(op index, fingerprint, what)]."""
    out = []
    given = {}      # (group, generation) -> {member: assignment}
    for i, st in enumerate(tr.steps):
        if st["f"][0] == "reset":
            given = {}
        # a group that is gone (no member left: deleted from memory and store) starts over at generation 1
        for key in [k for k in given if k[0] not in st["post"]["G"] and k[0] not in st["post"]["P"]]:
            del given[key]
        reply = st["reply"]
        if st["f"][0] == "race" and reply.get("kind") == "race":
            continue
        if st["f"][0] != "sync" or reply.get("kind") != "sync" or reply["code"] != 0:
            continue
        g, m = st["f"][1], st["member"]
        grp = st["post"]["G"].get(g)
        if grp is None:
            continue
        asg = reply["asg"]
        if m not in grp["mem"]:
            out.append((i, "assignment-to-non-member", "sync answered NONE to %s which is not a member of group %s" % (m, g)))
            continue
        subs = set(grp["mem"][m]["topics"])
        for t in asg:
            if t not in subs:
                out.append((i, "assigned-unsubscribed-topic",
                            "member %s of group %s received partitions of topic %s but subscribes to %s" % (m, g, t, sorted(subs))))
        key = (g, grp["gen"])
        seen = given.setdefault(key, {})
        if m in seen and seen[m] != asg:
            out.append((i, "assignment-changed-within-generation",
                        "member %s got %s and later %s in generation %d" % (m, seen[m], asg, grp["gen"])))
        seen[m] = asg
        owners = {}
        for mm, a in seen.items():
            for t, ps in a.items():
                for p in ps:
                    owners.setdefault((t, p), set()).add(mm)
        for (t, p), ms in owners.items():
            if len(ms) > 1:
                out.append((i, "partition-assigned-twice", "partition %s/%s given to %s in generation %d" % (t, p, sorted(ms), grp["gen"])))
        # the moment the leader's sync computed the assignment: completeness against the metadata
        pre = G.effective_group(st["pre"], g)
        if pre is not None and pre["ph"] == "completing" and grp["ph"] == "stable":
            metafail = False
            topics = set(t for mm in grp["mem"].values() for t in mm["topics"])
            if 5 in st["everfault"]:
                topics = set()     # a metadata-call fault may have been pending: the partition lists are not known here
            for t in topics:
                for p in expected_parts(st["meta"], t, metafail):
                    own = [mm for mm, a in grp["asg"].items() if p in a.get(t, [])]
                    if len(own) != 1:
                        out.append((i, "partition-not-assigned-exactly-once",
                                    "partition %s/%s of a subscribed topic has owners %s after the rebalance" % (t, p, own)))
                    elif t not in grp["mem"].get(own[0], {"topics": []})["topics"]:
                        out.append((i, "assigned-unsubscribed-topic", "partition %s/%s went to %s which does not subscribe" % (t, p, own[0])))
            for mm in grp["asg"]:
                if mm not in grp["mem"]:
                    out.append((i, "assignment-to-non-member", "assignment map names %s, not a member" % mm))
        if grp["asg"].get(m, {}) != asg:
            out.append((i, "sync-reply-differs-from-stored-assignment", "reply %s, stored %s" % (asg, grp["asg"].get(m))))
    return out


def run(ck):
    G.run_property(ck, PROFILE, monitor, n_quick=200, n_thorough=2000, nops=45, rule=RULE)


def replay(ck, path):
    G.replay(ck, path, monitor)
