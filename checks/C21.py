"""C21 — acknowledged topic creations and partition growth are never lost."""
import glob
import json
import os

from checks import lib

PROPERTY = "C21"
LEAN_MODULES = ["KafVerif.Props.C21"]
OBLIGATIONS = [
    "KafVerif.C21.acked_persist",
    "KafVerif.C21.ack_survives",
    "KafVerif.C21.refreshed_view",
    "KafVerif.C21.lost_update_old",
    "KafVerif.C21.watch_race_old",
    "KafVerif.C21.operator_shrinks_old",
    "KafVerif.C21.late_notification_seeded",
]
BUILDS = {"h": ("root", "./cmd/verif_c21", ["C21"])}
TECHNIQUE = ("Lean 4 invariant proof over the interleaved transition system (brokers' read-modify-write, watch refresh, operator "
             "get/merge/txn, retries) + correspondence of three real EtcdStores and the real operator publish on embedded etcd with "
             "an interposed KV (other calls injected between a call's read and its write) + direct monitor of acknowledged topics")
LEVEL_TEXT = "acked_persist / ack_survives proved for every number of brokers, every initial local snapshot and every interleaving of etcd-operation steps"
LEVEL_NOTE = ("a failed txn and the next attempt's read are one model step (sound: a failed txn has no effect); the operator's own "
              "get/txn gap is in the model but the harness cannot interpose the operator's private etcd client, so only broker-side "
              "conflicts are provoked on the real code")
ASSUMPTIONS = [
    "etcd: linearizable KV, txn atomic, mod revision strictly increases with every write of the key",
    "snapshots carry distinct topic names (CreateTopic checks; CRD names are unique)",
    "brokers that exhaust their 5 attempts report an error (no acknowledgement)",
    "etcd watch: notifications arrive in revision order, arbitrarily late (the harness interposes clientv3.Watcher, holds every notification and hands them to the real watchSnapshot goroutine on schedule, also inside a call between its read and its write-back)",
]
NB = 3
TOPICS = [1, 2, 3, 4, 5]
COUNTS = [1, 1, 2, 3, 5, 8, 2, 0, -1]


def gen_call(rng, broker=None, allow_op=False):
    if allow_op and rng.chance(1, 4):
        return "op " + gen_crd(rng)
    b = rng.below(NB) if broker is None else broker
    t = rng.choice(TOPICS)
    k = rng.below(10)
    if k < 4:
        return "%d create %d %d" % (b, t, rng.choice(COUNTS))
    if k < 8:
        # counts >= 1 only: for n <= 0 the answer depends on whether the C17 argument-check fix is applied
        # (invalid before any refresh) or not (refresh, then unknown/invalid); C17 owns that case
        return "%d grow %d %d" % (b, t, rng.choice([1, 2, 3, 4, 5, 6, 8]))
    return "%d delete %d" % (b, t)


def gen_crd(rng):
    ts = [t for t in TOPICS + [6, 7] if rng.chance(1, 3)]
    return ",".join("%d:%d" % (t, rng.choice([1, 1, 2, 3])) for t in ts) or "-"


def gen_case(rng, n, first=False, nstress=2):
    ops = ["reset"]
    if first:
        ops.append("live")
        # truly concurrent calls on stores with running watchers (scheduler-chosen interleavings; direct monitor only)
        ops += ["stress %d %d" % (rng.below(1000000), 25) for _ in range(nstress)]
        ops.append("reset")
    for _ in range(n):
        k = rng.below(20)
        if k < 11:
            outer_b = rng.below(NB)
            line = "call " + gen_call(rng, broker=outer_b)
            if rng.chance(1, 2):
                for _ in range(rng.range(1, 3)):
                    if rng.chance(1, 3):
                        # an outdated watch notification reaches some broker (often the caller itself) mid-call
                        inj = "late %d" % (outer_b if rng.chance(2, 3) else rng.below(NB))
                    else:
                        ib = rng.choice([b for b in range(NB) if b != outer_b])
                        inj = gen_call(rng, broker=ib, allow_op=True)
                    line += " with " + inj
            ops.append(line)
        elif k < 14:
            ops.append("watch %d" % rng.below(NB))
        elif k < 16:
            ops.append("late %d" % rng.below(NB))
        else:
            ops.append("publish " + gen_crd(rng))
    return ops


def parse_dump(s):
    if s in ("-", "none", "err", "corrupt"):
        return None if s != "-" else {}
    d = {}
    for e in s.split(","):
        t, n = e.split(":")
        d[t] = int(n.rstrip("!")) if not n.endswith("!") else -1
    return d


def kv(line):
    return dict(x.split("=", 1) for x in line.split() if "=" in x)


def split_calls(op):
    groups, cur = [], []
    for w in op.split()[1:]:
        if w == "with":
            groups.append(cur); cur = []
        else:
            cur.append(w)
    groups.append(cur)
    return groups


def monitor(ops, out):
    """The property on the implementation's lines: every acknowledged (topic, n), not explicitly deleted
    since, is in the etcd snapshot with >= n partitions after every later operation; a refreshed broker
    sees exactly the etcd snapshot.  Returns (index, fingerprint, what) or None."""
    acked = {}

    def apply(group, res):
        if group[0] in ("op", "late") or res != "ok":
            return
        if group[1] in ("create", "grow"):
            t, n = group[2], int(group[3])
            acked[t] = max(acked.get(t, 0), n)
        elif group[1] == "delete":
            acked.pop(group[2], None)

    for i, (op, o) in enumerate(zip(ops, out)):
        f = op.split()
        if o.startswith("panic") or o == "bad-op":
            return i, "harness-panic", "operation %r answered %r" % (op, o)
        d = kv(o)
        if f[0] == "reset":
            acked = {}
            continue
        if f[0] == "live":
            if o != "live ok":
                return i, "watch-does-not-propagate", "a topic created on one broker never reached another broker's Metadata(): %s" % o
            continue
        if f[0] == "stress":
            if o != "stress ok":
                return i, "concurrent-acknowledged-topic-lost", "concurrent create/grow calls on 3 brokers + operator publishes (%s): %s" % (op, o)
            continue
        if f[0] == "call":
            groups = split_calls(op)
            inj = [] if d["inj"] == "-" else d["inj"].split(",")
            for g, r in zip(groups[1:], inj):
                apply(g, r)
            apply(groups[0], d["res"])
        etcd = parse_dump(d["etcd"])
        for t, n in sorted(acked.items()):
            have = (etcd or {}).get(t)
            if have is None:
                return i, "acknowledged-topic-lost", "topic %s (acknowledged with %d partitions, never deleted) is missing from the etcd snapshot after %r" % (t, n, op)
            if have < n:
                return i, "acknowledged-partitions-shrunk", "topic %s acknowledged with %d partitions has %d in the etcd snapshot after %r" % (t, n, have, op)
        if f[0] == "watch" and etcd is not None:
            if d["b" + f[1]] != d["etcd"]:
                return i, "refreshed-broker-view-differs", "after a refresh broker %s sees %s, etcd holds %s" % (f[1], d["b" + f[1]], d["etcd"])
    return None


def run_impl(ck, binary, ops, tag):
    fn = ck.path("ops_%s.txt" % tag)
    open(fn, "w").write("\n".join(ops) + "\n")
    rc, out, err = ck.run_bin(binary, stdin_path=fn, timeout=300)
    impl = out.split("\n")[:-1]
    if rc != 0 or len(impl) != len(ops):
        return fn, impl, "impl rc=%s lines=%d/%d %s" % (rc, len(impl), len(ops), err[-800:])
    return fn, impl, None


def shrink(ck, binary, ops, fp, budget=14):
    """Cheap one-pass minimisation on the implementation (each try restarts embedded etcd)."""
    cur = list(ops)
    j = len(cur) - 1
    while j >= 1 and budget > 0:
        cand = cur[:j] + cur[j + 1:]
        budget -= 1
        _, o, crash = run_impl(ck, binary, cand, "dd")
        if not crash:
            m = monitor(cand, o)
            if m is not None and m[1] == fp:
                cur = cand[:m[0] + 1]
                j = min(j, len(cur)) - 1
                continue
        j -= 1
    return cur


def handle_case(ck, binary, ops, io, mo):
    mon = monitor(ops, io)
    if mon is not None:
        i, fp, what = mon
        small = shrink(ck, binary, ops[:i + 1], fp)
        ck.violation(fp, what, {"ops": small, "expected": "acknowledged topics/partitions stay in the etcd snapshot", "actual": what})
        return True
    if mo is not None:
        d = lib.first_diff(io, mo)
        if d is not None:
            ck.cov["disagreements_checked"] += 1
            ck.broke("correspondence model/implementation (shared metadata snapshot protocol)",
                     "op %r\nimpl : %s\nmodel: %s\n(case: %s)" % (ops[d] if d < len(ops) else None, io[d] if d < len(io) else None,
                                                                  mo[d] if d < len(mo) else None, " ; ".join(ops[:d + 1])))
            return True
    return False


def corpus():
    cases = []
    for fn in sorted(glob.glob(os.path.join(lib.REPLAYS, "C21", "*.json"))):
        cases.append(json.load(open(fn))["ops"])
    return cases


def run(ck):
    bins = ck.build_all()
    if bins is None:
        return
    binary = bins["h"]
    ck.cov["rule"] = ("a case = reset + a generated sequence of calls (create/grow/delete on one of 3 brokers, 40% with 1-2 other "
                      "brokers' calls or an operator publish injected between the call's read and its write), watch refreshes and operator "
                      "publishes; non-trivial = at least one acknowledged create or grow and one later write by another party; "
                      "distinct = distinct op sequences")
    ncases = 12 if ck.quick() else 120
    nops = 24 if ck.quick() else 40
    cases = corpus()
    for i in range(ncases):
        cases.append(gen_case(ck.rng.fork(), nops, first=(i == 0), nstress=(2 if ck.quick() else 12)))
    all_ops, bounds = [], []
    for c in cases:
        bounds.append((len(all_ops), len(all_ops) + len(c)))
        all_ops += c
    fn, impl, crash = run_impl(ck, binary, all_ops, "all")
    if crash:
        ck.broke("implementation harness did not answer every op", crash)
        return
    model = ck.lean_run("C21", fn)
    bad = False
    for (a, b) in bounds:
        ops, io, mo = all_ops[a:b], impl[a:b], model[a:b]
        acks = sum(1 for o in io if o.startswith("call res=ok") or "inj=ok" in o or ",ok" in o)
        writers = len({op.split()[1] for op, o in zip(ops, io) if op.startswith("call") and "res=ok" in o} |
                      ({"op"} if any(o.startswith("publish res=ok") for o in io) else set()))
        for op, o in zip(ops, io):
            f = op.split()
            ck.count(f[0] + (":" + f[2] if f[0] == "call" else ""))
            if f[0] == "call":
                d = kv(o)
                ck.count("res:" + d.get("res", "?"))
                if " with " in op and d.get("inj", "-") != "-":
                    ck.count("calls_with_injected_writes")
        ck.case(tuple(ops), nontrivial=(acks > 0 and writers > 1), sample={"ops": ops[:6], "impl": io[:6]})
        ck.cov["traces_validated_against_impl"] += 1
        if not bad and handle_case(ck, binary, ops, io, mo):
            bad = True
    if bad and not ck.violations:
        hunt(ck, binary)


def hunt(ck, binary):
    cases = [gen_case(ck.rng.fork(), 40) for _ in range(40)]
    all_ops, bounds = [], []
    for c in cases:
        bounds.append((len(all_ops), len(all_ops) + len(c)))
        all_ops += c
    _, impl, crash = run_impl(ck, binary, all_ops, "hunt")
    if crash:
        return
    for (a, b) in bounds:
        ck.cov["evaluations"] += 1
        mon = monitor(all_ops[a:b], impl[a:b])
        if mon is not None:
            i, fp, what = mon
            small = shrink(ck, binary, all_ops[a:b][:i + 1], fp)
            ck.violation(fp, what, {"ops": small, "actual": what})
            return


def replay(ck, path):
    rep = json.load(open(path))
    bins = ck.build_all()
    if bins is None:
        return
    ops = rep["ops"]
    fn, impl, crash = run_impl(ck, bins["h"], ops, "replay")
    if crash:
        ck.broke("implementation harness did not answer every op", crash)
        return
    model = ck.lean_run("C21", fn)
    for o, r, m in zip(ops, impl, model):
        print("  %-50s -> %s%s" % (o[:50], r, "" if r == m else "   [model: %s]" % m))
    ck.case(tuple(ops), sample={"ops": ops})
    ck.cov["distinct_nontrivial"] = max(2, ck.cov["distinct_nontrivial"])
    mon = monitor(ops, impl)
    if mon:
        ck.violation(mon[1], mon[2], {"ops": ops, "actual": mon[2]})
    elif lib.first_diff(impl, model) is not None:
        d = lib.first_diff(impl, model)
        ck.broke("correspondence model/implementation on the replay", "op %r\nimpl : %s\nmodel: %s" % (ops[d], impl[d], model[d]))
