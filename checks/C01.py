"""C01 — acknowledged produce is durable in S3 (flush protocol of pkg/storage/log.go + handleProduce ack rule)."""
from checks import lib
from checks import C01_common as K

PROPERTY = "C01"
LEAN_MODULES = ["KafVerif.Props.C01", "KafVerif.Props.C06"]
OBLIGATIONS = [
    "KafVerif.C01.ack_durable",
    "KafVerif.C01.ack_offsets_durable",
    "KafVerif.C01.ack_readable",
    "KafVerif.C01.ack_step_durable",
    "KafVerif.C01.old_violates",
    "KafVerif.C01.fixed_same_schedule",
    "KafVerif.C06.one_log_per_partition",
    "KafVerif.C01.put_ok_implies_stored",
    "KafVerif.C01.put_err_keeps_or_stores",
    "KafVerif.C01.put_other_keys_untouched",
    "KafVerif.C01.put_shadow_violates",
    "KafVerif.C01.download_ok_is_stored",
    "KafVerif.C01.ensure_ok_bucket_exists",
    "KafVerif.C01.flush_uploads_ok_implies_both_stored",
]
TECHNIQUE = ("Lean 4 proof (inductive invariant of a transition system over all interleavings, S3 fault sequences, crashes) over a hand-written model of the PartitionLog flush protocol + schedule x fault enumeration on the real broker code through gated S3/store fakes, diffed against the model + direct monitor")
LEVEL_TEXT = ("Lean 4 theorems for EVERY reachable state (any number of producers, any interleaving of critical sections, any outcome of every segment/index upload and store update, crashes and restarts anywhere, any flush thresholds): every acknowledged batch is contained in an S3 segment object whose index object exists (ack_durable), stays so, and is served by a registered segment while the broker is up; the pre-fix code is refuted by a concrete schedule (old_violates). Lower seam: for the real AWS S3 client's putObject (first PUT, EnsureBucket, one retry) and every outcome of every API call, a nil result implies the object is stored with exactly the bytes (put_ok_implies_stored, flush_uploads_ok_implies_both_stored; the shadowed-error rewrite is refuted by put_shadow_violates). Model tied to the current source by replaying all small schedules and random larger ones on the real handleProduce/PartitionLog and diffing every step.")
LEVEL_NOTE = ("Trusted: Lean kernel; the hand-written model `StorageLogS3` of pkg/storage/s3_aws.go (tied by an exhaustive oracle sweep over the real client on a fake S3 API) and its API assumption (PutObject success = body stored); the hand-written transition system `StorageLog` (one step = one l.mu critical section / one S3 or store call / one condvar wake-up; sync.Mutex, sync.Cond, errgroup and S3 put semantics assumed); the Go harness, its quiescence detection and its schedule generators (the tie sees only the schedules it runs: all schedules of 2-3 producers with bounded faults/crashes + random ones). Not covered: acks=0 / flush-off mode, int64 overflow, header lies (C02), two broker incarnations at once (C18/C19), EtcdStore.UpdateOffsets under concurrent writers (only its sequential behaviour is pinned by the repo tests).")
BUILDS = dict(K.BUILDS, s3=("root", "./cmd/verif_c01s3", ["C01"]))
ASSUMPTIONS = K.ASSUMPTIONS + [
    "lower seam (real awsS3Client, pkg/storage/s3_aws.go, over a fake of its `api` interface with an outcome oracle per API call): the S3 API's "
    "PutObject returns nil only when the object is stored with the request body (whole-object atomic put) and GetObject returns the stored bytes; "
    "under that assumption `put_ok_implies_stored` discharges, for every oracle outcome of the first PUT / HeadBucket / CreateBucket / retried PUT, "
    "the fact the transition system uses for its `seg t ok` / `idx t ok` events (upload returned nil ==> object stored); validated by the oracle sweep "
    "(all scripts of length 4 over {natural, NoSuchBucket, NotFound, SlowDown, BucketAlreadyOwnedByYou}) on the real client",
]
TRUSTED = K.TRUSTED
WHICH = {"C01"}


def plans(quick):
    P = K.Plan
    enum = [
        ("2 split producers, <=2 upload faults, all schedules", P([("append", 1), ("append", 2)], faults=2), 3000),
        ("handler producer + split producer, size-triggered flush in AppendBatch (MaxBatches=2), <=2 faults",
         P([("produce", 1), ("append", 1)], kb=2, faults=2), 3000),
        ("split + handler producer, MaxBatches=1 (every append flushes), <=1 fault", P([("append", 2), ("produce", 1)], kb=1, faults=1), 3000),
    ]
    if not quick:
        enum.append(("3 split producers, <=1 fault", P([("append", 1), ("append", 1), ("append", 2)], faults=1), 12000))
        enum.append(("3 producers, MaxMessages=3, <=1 fault", P([("produce", 2), ("append", 1), ("produce", 1)], km=3, faults=1), 6000))
    rnd = [
        P([("append", 1), ("produce", 2), ("append", 1)], faults=2),
        P([("produce", 1), ("produce", 1), ("append", 3)], kb=2, faults=2),
        P([("append", 2), ("append", 1), ("append", 1), ("produce", 1)], km=3, faults=3),
        P([("produce", 1), ("append", 1), ("produce", 2), ("append", 1)], kb=3, faults=3, pubfail=True),
    ]
    return enum, rnd


# ----------------------------------------------------------------------------- lower seam: awsS3Client over a fake S3 API
S3_TOKENS = [".", "nsb", "nf", "slow", "owned"]
S3_KEYS = ["p/0/segment-00000000000000000000", "p/0/segment-00000000000000000007", "p/1/segment-00000000000000000000",
           "p/10/segment-00000000000000000000", "p/10/segment-00000000000000000042"]


def s3_ops(ck):
    """op lines for harness/C01/root/cmd/verif_c01s3 (see its header): (a) the oracle sweep over putObject: every script of
    length 4 over S3_TOKENS, bucket present and missing; (b) Flush of a real PartitionLog over the client with natural /
    failing PUTs per object; (c) random worlds of put/get/del/list/ensure with random scripts."""
    import itertools
    r = ck.rng.fork()
    ops = []
    n = 0
    for bucket in (0, 1):
        for sc in itertools.product(S3_TOKENS, repeat=4):
            if n % 25 == 0:
                ops.append("reset %d" % bucket)
            n += 1
            kind = "seg" if n % 2 else "idx"
            ops.append("put %s %s%s %02x%02x %s" % (kind, S3_KEYS[n % 3], ".kfs" if kind == "seg" else ".index", n & 0xFF, n >> 8, ",".join(sc)))
            if r.chance(1, 5):
                ops.append("reset %d" % bucket)
    for bucket in (0, 1):
        for nb in (1, 3):
            for s1 in ("-", "slow", "slow,slow", ".,slow"):
                for s2 in ("-", "slow", "slow,slow"):
                    ops += ["reset %d" % bucket, "flush %d %s %s" % (nb, s1, s2)]
    toks = [".", ".", ".", "nsb", "nf", "slow", "owned", "exists", "h404", "nokey", "badbody"]
    for w in range(40 if ck.quick() else 400):
        ops.append("reset %d" % r.below(2))
        for _ in range(r.range(8, 20)):
            key = r.choice(S3_KEYS)
            sc = "-" if r.chance(1, 2) else ",".join(r.choice(toks) for _ in range(r.range(1, 5)))
            x = r.below(10)
            if x < 4:
                kind = r.choice(["seg", "idx"])
                body = bytes(r.below(256) for _ in range(r.choice([0, 1, 2, 5, 17]))).hex() or "-"
                ops.append("put %s %s%s %s %s" % (kind, key, ".kfs" if kind == "seg" else ".index", body, sc))
            elif x < 7:
                kind = r.choice(["seg", "idx"])
                rng = "-" if kind == "idx" or r.chance(1, 2) else "%d:%d" % (r.choice([0, 1, 2, 5, 16, 17, 40]), r.choice([0, 1, 4, 16, 17, 100]))
                ops.append("get %s %s%s %s %s" % (kind, key, r.choice([".kfs", ".index"]), rng, sc))
            elif x < 8:
                ops.append("del %s %s%s %s" % (r.choice(["seg", "idx"]), key, r.choice([".kfs", ".index"]), sc))
            elif x < 9:
                ops.append("list %s %s" % (r.choice(["p/0/", "p/1/", "p/1", "p/", "q/"]), sc))
            else:
                ops.append("ensure %s" % sc)
    return ops


def s3_kv(line):
    return dict(x.split("=", 1) for x in line.split()[1:] if "=" in x)


def s3_monitor(ops, lines):
    """acknowledged ==> durable at the S3 client: independent of the model.  Yields (index, fingerprint, what)."""
    objs = {}
    for i, (op, line) in enumerate(zip(ops, lines)):
        f = op.split()
        d = s3_kv(line)
        if line.endswith(" panic") or line == "bad-op":
            yield i, "s3-client-panic", "%r -> %s" % (op[:80], line)
            continue
        natural = f[-1] == "-" or all(t == "." for t in f[-1].split(","))
        if f[0] == "reset":
            objs = {}
        elif f[0] == "put":
            body = "-" if f[3] == "-" else f[3]
            prev = objs.get(f[2], "none")
            if d["ret"] == "nil" and d["obj"] != body:
                yield i, "upload-ok-but-object-not-stored", ("%s of %s returned nil but the bucket holds %s for the key (API calls: %s)"
                                                             % ("UploadSegment" if f[1] == "seg" else "UploadIndex", f[2], d["obj"], d["calls"]))
            if d["ret"] != "nil" and d["obj"] not in (prev, body):
                yield i, "failed-upload-left-other-bytes", "failed upload of %s left %s" % (f[2], d["obj"])
            if d["obj"] == "none":
                objs.pop(f[2], None)
            else:
                objs[f[2]] = d["obj"]
        elif f[0] == "get":
            have = objs.get(f[2])
            if d["ret"] == "nil":
                want = None
                if have is not None:
                    raw = b"" if have == "-" else bytes.fromhex(have)
                    if f[3] != "-":
                        a, b = map(int, f[3].split(":"))
                        raw = raw[a:b + 1]
                    want = raw.hex() or "-"
                if d["data"] != want:
                    yield i, "download-returns-other-bytes", "%s returned %s, the bucket holds %s" % (op[:80], d["data"], have)
            elif natural and have is not None and f[3] == "-":
                yield i, "download-of-stored-object-failed", "%s failed although the object is stored" % op[:80]
            if have is None and natural and f[1] == "idx" and d["ret"] != "notfound" and d["calls"] != "GET:nsb":
                yield i, "missing-index-not-reported-as-not-found", "%s -> %s" % (op[:80], line)
        elif f[0] == "del":
            if d["ret"] == "nil" and d["obj"] != "none":
                yield i, "delete-ok-but-object-present", "%s -> %s" % (op[:80], line)
            if d["obj"] == "none":
                objs.pop(f[2], None)
        elif f[0] == "list":
            if d["ret"] == "nil" and natural:
                want = ",".join("%s:%d" % (k, 0 if v == "-" else len(v) // 2) for k, v in sorted(objs.items()) if k.startswith(f[1])) or "-"
                if d["keys"] != want:
                    yield i, "listing-incomplete", "ListSegments(%s) returned %s, the bucket holds %s" % (f[1], d["keys"], want)
        elif f[0] == "flush":
            if d["ret"] == "nil" and (d["seg"] != "ok" or d["idx"] != "ok"):
                yield i, "flush-ok-but-object-not-stored", ("Flush returned nil (the produce is acknowledged) but segment object: %s, index object: %s "
                                                            "(%s)" % (d["seg"], d["idx"], op))


def run_s3_seam(ck, binary, ops=None):
    """Drive the real awsS3Client over the fake API; monitor + diff against the Lean model (Driver/C01S3)."""
    ops = ops or s3_ops(ck)
    fn = ck.path("ops_s3.txt")
    open(fn, "w").write("\n".join(ops) + "\n")
    rc, out, err = ck.run_bin(binary, stdin_path=fn, timeout=300)
    lines = out.split("\n")[:-1]
    if rc != 0 or len(lines) != len(ops):
        ck.broke("S3-client harness did not answer every op", "rc=%s lines=%d/%d %s" % (rc, len(lines), len(ops), err[-800:]))
        return False
    starts = [i for i, o in enumerate(ops) if o.startswith("reset")] or [0]
    world = {}
    for a, b in zip(starts, starts[1:] + [len(ops)]):
        for i in range(a, b):
            world[i] = a
        o, l = ops[a:b], lines[a:b]
        faulty = any(("nsb" in x or "slow" in x or "nf" in x) for x in o)
        ck.case(tuple(o), nontrivial=faulty and len(o) > 1, sample={"stream": "s3-seam", "ops": o[:4], "impl": l[:4]})
        for x, y in zip(o, l):
            ck.count("s3:%s:%s" % (x.split()[0], s3_kv(y).get("ret", "-")))
    ok = True
    for (i, fp, what) in s3_monitor(ops, lines):
        a = world.get(i, 0)
        if ck.violation(fp, what, {"harness": "s3", "ops": ops[a:i + 1], "actual": lines[i],
                                   "expected": "a nil result of the S3 client means the object is stored with exactly the bytes"}):
            ok = False
    model = ck.lean_run("C01S3", fn)
    ck.cov["traces_validated_against_impl"] += len(starts)
    d = lib.first_diff(lines, model)
    if d is not None and ok:
        ck.cov["disagreements_checked"] += 1
        ck.broke("correspondence model/implementation (awsS3Client over the fake S3 API)",
                 "ops %r\nimpl : %s\nmodel: %s" % (ops[world.get(d, 0):d + 1][-6:], lines[d] if d < len(lines) else None,
                                                     model[d] if d < len(model) else None))
        ok = False
    return ok


def run(ck):
    bins = ck.build_all()
    if bins is None:
        return
    binary = bins["h"]
    run_s3_seam(ck, bins["s3"])
    ck.cov["rule"] = ("schedules (which gated goroutine proceeds, with which S3 outcome) generated against the real broker from VERIF_SEED; "
                      "non-trivial = >=2 producers and (an upload fault or a Flush waiter or a crash); distinct = distinct command lists")
    enum, rnd = plans(ck.quick())
    # the model has ONE log per broker incarnation: check that premise on concurrent first requests
    # (getPartitionLog registry scenario of checks/C06.py, light version, C01 monitor)
    from checks import C06 as R
    if not R.run_registry(ck, binary, which=WHICH, light=True):
        return
    if not K.corpus(ck, binary, PROPERTY, WHICH):
        enum = []
    im = K.Impl(ck, binary)
    try:
        exhaustive = True
        for what, plan, limit in enum:
            scheds = []
            info = None
            for ops, lines, info in K.enumerate_schedules(im, plan, limit):
                if ops is not None:
                    scheds.append((ops, lines))
            exhaustive = exhaustive and info["exhausted"]
            ck.log("%s: %d schedules%s" % (what, len(scheds), "" if info["exhausted"] else " (limit reached)"))
            ck.count("enumerated:" + what, len(scheds))
            if not K.check_schedules(ck, binary, scheds, WHICH, what):
                break
        else:
            n = 250 if ck.quick() else 3000
            scheds = [K.random_schedule(im, rnd[i % len(rnd)], ck.rng.fork()) for i in range(n)]
            K.check_schedules(ck, binary, scheds, WHICH, "random 3-4 producers")
        ck.cov["exhaustive"] = exhaustive
    finally:
        im.close()
    if ck.broken and not ck.violations:
        K.hunt(ck, binary, WHICH, rnd, 300 if ck.quick() else 3000)


def replay(ck, path):
    import json
    rep = json.load(open(path))
    if rep.get("harness") == "s3":
        bins = ck.build_all()
        if bins is not None:
            run_s3_seam(ck, bins["s3"], rep["ops"])
            ck.cov["distinct_nontrivial"] = max(ck.cov["distinct_nontrivial"], 2)
        return
    from checks import C06 as R
    K.replay(ck, path, WHICH, mon_fn=lambda o, l: R.reg_monitor(o, l, WHICH))
