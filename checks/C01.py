"""C01 — acknowledged produce is durable in S3 (flush protocol of pkg/storage/log.go + handleProduce ack rule)."""
from checks import lib
from checks import C01_common as K

PROPERTY = "C01"
LEAN_MODULES = ["KafVerif.Props.C01", "KafVerif.Props.C06"]
OBLIGATIONS = [
    "KafVerif.C01.ack_durable",
    "KafVerif.C01.ack_offsets_durable",
    "KafVerif.C01.ack_readable",
    "KafVerif.C01.ack_step_durable",
    "KafVerif.C01.old_violates",
    "KafVerif.C01.fixed_same_schedule",
    "KafVerif.C06.one_log_per_partition",
]
TECHNIQUE = ("Lean 4 proof (inductive invariant of a transition system over all interleavings, S3 fault sequences, crashes) over a hand-written model of the PartitionLog flush protocol + schedule x fault enumeration on the real broker code through gated S3/store fakes, diffed against the model + direct monitor")
LEVEL_TEXT = ("Lean 4 theorems for EVERY reachable state (any number of producers, any interleaving of critical sections, any outcome of every segment/index upload and store update, crashes and restarts anywhere, any flush thresholds): every acknowledged batch is contained in an S3 segment object whose index object exists (ack_durable), stays so, and is served by a registered segment while the broker is up; the pre-fix code is refuted by a concrete schedule (old_violates). Model tied to the current source by replaying all small schedules and random larger ones on the real handleProduce/PartitionLog and diffing every step.")
LEVEL_NOTE = ("Trusted: Lean kernel; the hand-written transition system `StorageLog` (one step = one l.mu critical section / one S3 or store call / one condvar wake-up; sync.Mutex, sync.Cond, errgroup and S3 put semantics assumed); the Go harness, its quiescence detection and its schedule generators (the tie sees only the schedules it runs: all schedules of 2-3 producers with bounded faults/crashes + random ones). Not covered: acks=0 / flush-off mode, int64 overflow, header lies (C02), two broker incarnations at once (C18/C19), EtcdStore.UpdateOffsets under concurrent writers (only its sequential behaviour is pinned by the repo tests).")
BUILDS = K.BUILDS
ASSUMPTIONS = K.ASSUMPTIONS
TRUSTED = K.TRUSTED
WHICH = {"C01"}


def plans(quick):
    P = K.Plan
    enum = [
        ("2 split producers, <=2 upload faults, all schedules", P([("append", 1), ("append", 2)], faults=2), 3000),
        ("handler producer + split producer, size-triggered flush in AppendBatch (MaxBatches=2), <=2 faults",
         P([("produce", 1), ("append", 1)], kb=2, faults=2), 3000),
        ("split + handler producer, MaxBatches=1 (every append flushes), <=1 fault", P([("append", 2), ("produce", 1)], kb=1, faults=1), 3000),
    ]
    if not quick:
        enum.append(("3 split producers, <=1 fault", P([("append", 1), ("append", 1), ("append", 2)], faults=1), 12000))
        enum.append(("3 producers, MaxMessages=3, <=1 fault", P([("produce", 2), ("append", 1), ("produce", 1)], km=3, faults=1), 6000))
    rnd = [
        P([("append", 1), ("produce", 2), ("append", 1)], faults=2),
        P([("produce", 1), ("produce", 1), ("append", 3)], kb=2, faults=2),
        P([("append", 2), ("append", 1), ("append", 1), ("produce", 1)], km=3, faults=3),
        P([("produce", 1), ("append", 1), ("produce", 2), ("append", 1)], kb=3, faults=3, pubfail=True),
    ]
    return enum, rnd


def run(ck):
    bins = ck.build_all()
    if bins is None:
        return
    binary = bins["h"]
    ck.cov["rule"] = ("schedules (which gated goroutine proceeds, with which S3 outcome) generated against the real broker from VERIF_SEED; "
                      "non-trivial = >=2 producers and (an upload fault or a Flush waiter or a crash); distinct = distinct command lists")
    enum, rnd = plans(ck.quick())
    # the model has ONE log per broker incarnation: check that premise on concurrent first requests
    # (getPartitionLog registry scenario of checks/C06.py, light version, C01 monitor)
    from checks import C06 as R
    if not R.run_registry(ck, binary, which=WHICH, light=True):
        return
    if not K.corpus(ck, binary, PROPERTY, WHICH):
        enum = []
    im = K.Impl(ck, binary)
    try:
        exhaustive = True
        for what, plan, limit in enum:
            scheds = []
            info = None
            for ops, lines, info in K.enumerate_schedules(im, plan, limit):
                if ops is not None:
                    scheds.append((ops, lines))
            exhaustive = exhaustive and info["exhausted"]
            ck.log("%s: %d schedules%s" % (what, len(scheds), "" if info["exhausted"] else " (limit reached)"))
            ck.count("enumerated:" + what, len(scheds))
            if not K.check_schedules(ck, binary, scheds, WHICH, what):
                break
        else:
            n = 250 if ck.quick() else 3000
            scheds = [K.random_schedule(im, rnd[i % len(rnd)], ck.rng.fork()) for i in range(n)]
            K.check_schedules(ck, binary, scheds, WHICH, "random 3-4 producers")
        ck.cov["exhaustive"] = exhaustive
    finally:
        im.close()
    if ck.broken and not ck.violations:
        K.hunt(ck, binary, WHICH, rnd, 300 if ck.quick() else 3000)


def replay(ck, path):
    from checks import C06 as R
    K.replay(ck, path, WHICH, mon_fn=lambda o, l: R.reg_monitor(o, l, WHICH))
