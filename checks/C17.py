"""C17 — the in-memory and the etcd metadata store behave the same."""
import glob
import json
import os

from checks import lib

PROPERTY = "C17"
LEAN_MODULES = ["KafVerif.Props.C17", "KafVerif.Props.C17Limits"]
OBLIGATIONS = [
    "KafVerif.C17.stores_bisimilar",
    "KafVerif.C17.same_results",
    "KafVerif.C17.config_default_differs",
    "KafVerif.C17.negative_offsets_diverge",
    "KafVerif.C17.empty_group_commit_unlisted",
    "KafVerif.C17.delete_keeps_commits_old",
    "KafVerif.C17.grow_error_order_old",
    # etcd's resource limits as parameters (Props/C17Limits.lean)
    "KafVerif.C17.limited_step_eq",
    "KafVerif.C17.same_results_limited",
    "KafVerif.C17.onetxn_same_results",
    "KafVerif.C17.snapshot_too_large_diverges",
    "KafVerif.C17.onetxn_delete_fails_over_limit",
    "KafVerif.C17.onetxn_diverges",
]
BUILDS = {"h": ("root", "./cmd/verif_c17", ["C17"])}
TECHNIQUE = ("Lean 4 bisimulation proof between the models of InMemoryStore and EtcdStore (every Store operation, induction over "
             "histories) + four-way differential: real InMemoryStore, real EtcdStore on embedded etcd, and the two models, on "
             "generated histories + direct monitor 'in-memory result = etcd result' on every operation")
LEVEL_TEXT = ("stores_bisimilar / same_results proved for every history of Store operations whose UpdateOffsets arguments are >= -1; "
              "FetchTopicConfig results are masked (not in the statement's operation list; their defaults differ by code, mirrored "
              "and compared model-vs-implementation per store); same_results_limited: the same with etcd's request-size and "
              "txn-operation limits as parameters, for every history whose snapshot fits one request (no bound on commits per topic)")
LEVEL_NOTE = ("names are abstract ids (separator-carrying names are C16/C22); etcd unavailability is not driven; metadata strings and "
              "group payloads are ASCII (json.Marshal would replace invalid UTF-8 in commit metadata in the etcd store only)")
ASSUMPTIONS = [
    "etcd: linearizable single-writer history (one EtcdStore, its own watcher refreshes content it wrote itself)",
    "key constructors are injective on the generated (legal) names: C22 / C16",
    "UpdateOffsets is called with lastOffset >= -1 (with the C05 monotone fix the stores differ below that: theorem negative_offsets_diverge)",
    "the tree under test carries the C05 monotone-UpdateOffsets, C15 clone, C16 key and C21/C22/C17 fixes (the model mirrors the fixed code)",
    "the metadata snapshot (every topic with every partition, ~126 bytes per partition) fits one etcd request (1.5 MiB, i.e. < ~12 000 "
    "partitions in total): beyond that CreateTopic / CreatePartitions succeed in memory and fail on etcd (theorem snapshot_too_large_diverges; "
    "driven in the `limits` stream, model-vs-implementation only); single values (commit metadata, group payload) likewise < 1.5 MiB",
]

TOPICS = [1, 1, 2, 11, 11, 3, 0, 100]   # names t1 / t11: one is a string prefix of the other
GROUPS = [1, 2, 3, 0]
# partition indexes: in range, just beyond the largest topic (counts go up to 8), negative — for EVERY op that takes one
PARTS = [0, 0, 1, 2, 3, 5, 8, 9, -1]
# small pools so that equal offsets / equal metadata recur (re-commit of the same offset with other metadata, etc.)
COFFS = [0, 5, 5, 42, -1]
MDS = [0, 1, 2]
LASTS = [-1, 0, 5, 5, 41, 100]


class Gen:
    """Generator with memory: remembers what the history touched so that it can come back to the same keys
    (same commit key with the same offset and other metadata, offsets of partitions a topic does not have,
    delete-then-recreate with another partition count) and so that the read-back covers every touched key."""

    def __init__(self, rng, admissible=True):
        self.rng, self.adm = rng, admissible
        self.commits = []          # (g, t, p, off, md)
        self.ckeys = set()         # (g, t, p)
        self.topics = set()        # topic ids mentioned

    def commit(self, g, t, p, off, md):
        self.commits.append((g, t, p, off, md))
        self.ckeys.add((g, t, p))
        return "co %d %d %d %d %d" % (g, t, p, off, md)

    def op(self):
        rng = self.rng
        t = rng.choice(TOPICS)
        self.topics.add(t)
        k = rng.below(100)
        if k < 12:
            return ["ct %d %d %d" % (t, rng.choice([1, 1, 2, 3, 5, 8, 0, -1]), rng.choice([1, 1, 0, 2, 3, -1]))]
        if k < 16:
            return ["dt %d" % t]
        if k < 20:
            # delete, re-create with another partition count, read the whole partition range back
            n = rng.choice([1, 2, 4, 6, 8])
            return ["dt %d" % t, "ct %d %d 1" % (t, n)] + ["no %d %d" % (t, p) for p in range(-1, 10)]
        if k < 28:
            return ["cp %d %d" % (t, rng.choice([1, 2, 3, 4, 6, 8, 0, -2]))]
        if k < 33:
            return ["md " + (",".join(str(rng.choice(TOPICS + [9])) for _ in range(rng.range(1, 3))) if rng.chance(1, 2) else "-")]
        if k < 42:
            return ["no %d %d" % (t, rng.choice(PARTS))]
        if k < 53:
            # any partition index, whether or not the topic (currently) has it: UpdateOffsets does not validate it
            return ["uo %d %d %d" % (t, rng.choice(PARTS), rng.choice(LASTS + ([] if self.adm else [-2, -50])))]
        if k < 65:
            if self.commits and rng.chance(1, 2):
                # come back to an earlier key: same offset with other metadata, or other offset with the same metadata
                g, tt, p, off, md = rng.choice(self.commits)
                if rng.chance(2, 3):
                    md = rng.choice([m for m in MDS + [9] if m != md])
                else:
                    off = rng.choice(COFFS)
                return [self.commit(g, tt, p, off, md)]
            # Admissible (theorem hypothesis): non-empty group id and a legal topic name for commits
            g = rng.choice([1, 2, 3]) if self.adm else rng.choice(GROUPS)
            tt = rng.choice([1, 2, 3, 11]) if self.adm else t
            return [self.commit(g, tt, rng.choice(PARTS), rng.choice(COFFS), rng.choice(MDS))]
        if k < 72:
            if self.commits and rng.chance(2, 3):
                g, tt, p, _, _ = rng.choice(self.commits)
                return ["fo %d %d %d" % (g, tt, p)]
            return ["fo %d %d %d" % (rng.choice(GROUPS), t, rng.choice(PARTS))]
        if k < 75:
            return ["lo"]
        if k < 81:
            return ["pg %d %d" % (rng.choice(GROUPS), rng.choice([1, 2, 3, 4, 5, 6, 10, 15]))]
        if k < 86:
            return ["fg %d" % rng.choice(GROUPS)]
        if k < 89:
            return ["lg"]
        if k < 92:
            return ["dg %d" % rng.choice(GROUPS)]
        if k < 96:
            return ["fc %d" % t]
        return ["uc %d %d %d" % (t, rng.choice([0, 1, 3, 8]), rng.choice([1, 2, 3]))]

    def probe(self):
        """Full observation of the visible state: every (topic, partition -1..9), every commit key the history
        touched (offset AND metadata come back in `fo`), listings, groups."""
        ops = ["md -", "lo", "lg"]
        for t in (1, 11, 2, 3):
            ops += ["no %d %d" % (t, p) for p in range(-1, 10)]
        ops += ["fo %d %d %d" % k for k in sorted(self.ckeys)]
        ops += ["fo 1 1 0", "fo 2 11 9", "fg 1", "fg 2", "fg 3"]
        return ops


def layout(n, kind):
    """n distinct (group, partition) pairs: `wide` = many groups x one partition, `deep` = one group x many
    partitions, `grid` = groups x 33 partitions (the shape of 4 consumer groups on a 33-partition topic)."""
    if kind == "wide":
        return [(1 + i, 0) for i in range(n)]
    if kind == "deep":
        return [(1, i) for i in range(n)]
    return [(1 + i // 33, i % 33) for i in range(n)]


def boundary_case(n1, n2, kind1="grid", kind2="grid", regrow=40):
    """Size boundaries of the etcd store (etcd rejects a transaction with more than 128 operations): topic 1 gets n1
    committed (group, partition) offsets, topic 2 gets n2, topic 11 one; then DeleteTopic of each with a full
    read-back of everything in between (listing, EVERY commit key, next offsets, metadata), re-create, read back."""
    g = Gen(None)
    ops = ["new 1", "ct 1 40 1", "ct 2 40 1", "ct 11 3 1", "uo 1 0 41", "uo 1 39 6", "uo 2 0 7", "uo 11 0 3", "pg 1 3"]
    for (grp, p) in layout(n1, kind1):
        ops.append(g.commit(grp, 1, p, 5 + p, 1))
    for (grp, p) in layout(n2, kind2):
        ops.append(g.commit(grp, 2, p, 7 + p, 2))
    ops.append(g.commit(1, 11, 0, 9, 2))
    keys = sorted(g.ckeys)

    def readback(topic=None):
        r = ["md -", "lo", "no 1 0", "no 1 39", "no 2 0", "no 11 0"]
        # every commit key of the topic just deleted; the first and last key of every topic otherwise
        for t in (1, 2, 11):
            ks = [k for k in keys if k[1] == t]
            r += ["fo %d %d %d" % k for k in (ks if t == topic else ks[:1] + ks[-1:])]
        return r
    ops += ["lo", "dt 1"] + readback(1)
    ops += ["ct 1 %d 1" % regrow] + readback()
    ops += ["dt 2"] + readback(2)
    ops += ["dt 11", "ct 2 3 1", "ct 11 3 1"] + readback()
    return ops


def limits_case(small=1000, big=13000, grow=14000):
    """OUTSIDE the hypotheses of same_results_limited (`FitsFrom`): the snapshot of a topic table with more than ~12 000
    partitions exceeds etcd's request size, so CreateTopic / CreatePartitions fail on the etcd store only.  Model
    (stepEL etcdDefaults) vs implementation per store; no store-vs-store monitor.  `cp 9 5` (unknown topic) after every
    failing operation reloads the snapshot, so that nothing is read from the un-persisted local copy."""
    return ["new 1", "ct 2 3 1", "ct 1 %d 1" % small, "no 1 %d" % (small - 1), "uo 1 %d 5" % (small - 1), "co 1 1 %d 5 1" % (small - 1),
            "ct 3 %d 1" % big, "cp 9 5", "md 1,2,3", "no 3 0", "uo 3 0 8", "no 3 0",
            "cp 1 %d" % grow, "cp 9 5", "md 1,2,3", "no 1 %d" % (small - 1), "no 1 %d" % small,
            "dt 3", "dt 1", "md -", "fo 1 1 %d" % (small - 1), "lo"]


PREAMBLE = ["ct 1 3 1", "ct 11 3 1", "ct 2 2 1", "uo 1 0 41", "uo 11 0 17", "uo 11 1 5", "uo 2 1 8",
            "uo 1 5 41", "uo 2 9 5", "uo 11 -1 7",              # partitions the topic does not have
            "pg 1 3", "pg 2 4"]


def gen_case(rng, n, admissible=True):
    g = Gen(rng, admissible)
    ops = ["new %d" % rng.choice([1, 2, 2, 3])]
    if rng.chance(2, 3):
        ops += PREAMBLE
        ops += [g.commit(1, 1, 0, 5, 1), g.commit(1, 11, 0, 9, 2), g.commit(2, 2, 1, 3, 0),
                g.commit(1, 1, 0, 5, 2)]                       # same key, same offset, other metadata
    while len(ops) < n:
        ops += g.op()
    ops += g.probe()
    # delete every topic and re-create it larger: whatever an operation left behind under a partition index the
    # topic did not have at the time becomes readable now; then observe everything again
    for t in (1, 11, 2):
        ops += ["dt %d" % t, "ct %d %d 1" % (t, rng.choice([6, 8, 10]))]
    ops += g.probe()
    return ops


def split(line):
    if not line.startswith("M="):
        return None, None
    m, e = line[2:].split(" E=", 1)
    return m, e


def monitor(ops, out):
    """The property on the implementation's lines: both stores answer every listed operation alike."""
    for i, (op, o) in enumerate(zip(ops, out)):
        if op.startswith("new"):
            continue
        m, e = split(o)
        if m is None:
            return i, "harness-bad-line", "operation %r answered %r" % (op, o)
        if "panic" in (m, e):
            return i, "store-panics", "operation %r: in-memory=%s etcd=%s" % (op, m, e)
        if op.startswith("fc "):
            continue
        if m != e:
            kind = {"ct": "create-topic", "dt": "delete-topic", "cp": "create-partitions", "md": "metadata", "no": "next-offset",
                    "uo": "update-offsets", "co": "commit-offset", "fo": "fetch-offset", "lo": "list-offsets", "pg": "put-group",
                    "fg": "fetch-group", "lg": "list-groups", "dg": "delete-group", "uc": "update-config"}.get(op.split()[0], "op")
            return i, "stores-differ-on-" + kind, "after %d operations %r returns %s from the in-memory store and %s from the etcd store" % (i, op, m, e)
    return None


def run_both(ck, binary, ops, tag):
    fn = ck.path("ops_%s.txt" % tag)
    open(fn, "w").write("\n".join(ops) + "\n")
    rc, out, err = ck.run_bin(binary, stdin_path=fn, timeout=900)
    impl = out.split("\n")[:-1]
    if rc != 0 or len(impl) != len(ops):
        return fn, impl, "impl rc=%s lines=%d/%d %s" % (rc, len(impl), len(ops), err[-800:])
    return fn, impl, None


def fails(ck, binary, ops, fp):
    _, o, crash = run_both(ck, binary, ops, "dd")
    if crash:
        return False
    m = monitor(ops, o)
    return m is not None and m[1] == fp


def shrink(ck, binary, ops, fp, budget=12):
    """Chunked delta-debugging with a small budget (each probe restarts the harness): drop blocks of half, a quarter, …
    of the history (never the first op `new` nor the last, failing one) while the same fingerprint is reproduced."""
    cur = list(ops)
    size = max(1, (len(cur) - 2) // 2)
    while size >= 1 and budget > 0:
        j = len(cur) - 1 - size
        while j >= 1 and budget > 0:
            cand = cur[:j] + cur[j + size:]
            budget -= 1
            if fails(ck, binary, cand, fp):
                cur = cand
            j -= size
        size //= 2
    return cur


def corpus():
    return [json.load(open(fn))["ops"] for fn in sorted(glob.glob(os.path.join(lib.REPLAYS, "C17", "*.json")))]


def run(ck):
    bins = ck.build_all()
    if bins is None:
        return
    binary = bins["h"]
    ck.cov["rule"] = ("a case = `new <brokers>` + a generated history of Store operations (15 kinds) over 5 topic ids (incl. the empty and "
                      "an illegal name), 4 group ids, partition indexes in and out of the topic's range for every op that takes one, small "
                      "offset/metadata pools with deliberate re-commits of an earlier key, delete-then-recreate with another partition "
                      "count, followed by a full read-back (every topic x partition -1..9, every touched commit key), a delete/re-create "
                      "sweep and a second full read-back; plus size-boundary histories (129..300 committed (group, partition) offsets on one "
                      "topic, 127..129 on another, then DeleteTopic + read-back of every key) and, outside the hypotheses, histories whose "
                      "snapshot exceeds one etcd request (model-vs-implementation only); non-trivial = the history contains a successful topic "
                      "create, a delete or growth, and at least one read that returns stored data; distinct = distinct histories")
    ncases = 24 if ck.quick() else 250
    nops = 55 if ck.quick() else 120
    cases = corpus() + [gen_case(ck.rng.fork(), nops) for _ in range(ncases)]
    # size boundaries (etcd: at most 128 operations per transaction): one deterministic history in every run (129 commits
    # on one topic, exactly 128 on another — also in the corpus), one drawn from the seed; more in the thorough tier
    cases.append(boundary_case(129, 128))
    r = ck.rng.fork()
    for _ in range(1 if ck.quick() else 6):
        cases.append(boundary_case(r.choice([129, 130, 132, 160, 200, 257, 300]), r.choice([1, 127, 128, 129]),
                                   r.choice(["grid", "wide", "deep"]), r.choice(["grid", "wide", "deep"]), r.choice([40, 41, 64])))
    nadm = len(cases)
    # outside the theorem's hypotheses (empty group ids, illegal topics in commits, offsets < -1): the two stores may
    # legitimately differ there (mirrored in the models), so only model-vs-implementation is compared
    cases += [gen_case(ck.rng.fork(), nops, admissible=False) for _ in range(max(3, ncases // 8))]
    # outside `FitsFrom`: snapshot larger than one etcd request (sizes far from the 1.5 MiB boundary on either side)
    cases.append(limits_case())
    if not ck.quick():
        cases += [limits_case(r.choice([500, 5000]), r.choice([14000, 20000]), r.choice([15000, 30000])) for _ in range(2)]
    all_ops, bounds = [], []
    for c in cases:
        bounds.append((len(all_ops), len(all_ops) + len(c)))
        all_ops += c
    fn, impl, crash = run_both(ck, binary, all_ops, "all")
    if crash:
        ck.broke("implementation harness did not answer every op", crash)
        return
    model = ck.lean_run("C17", fn)
    done = False
    for ci, (a, b) in enumerate(bounds):
        ops, io, mo = all_ops[a:b], impl[a:b], model[a:b]
        created = any(op.startswith("ct") and o.startswith("M=ok") for op, o in zip(ops, io))
        changed = any(op[:2] in ("dt", "cp") and o.startswith("M=ok") for op, o in zip(ops, io))
        reads = any(o.startswith(("M=O:", "M=C:", "M=G:", "M=L:", "M=GS:")) and not o.startswith(("M=O:0 ", "M=C:0/0", "M=G:none", "M=L:- ", "M=GS:- "))
                    for o in io)
        for op, o in zip(ops, io):
            ck.count(op.split()[0])
            m, _ = split(o)
            if m in ("ok", "exists", "invalid", "unknown", "err"):
                ck.count("res:" + m)
        ck.case(tuple(ops), nontrivial=(created and changed and reads), sample={"ops": ops[:8], "impl": io[:8]})
        ck.cov["traces_validated_against_impl"] += 1
        if done:
            continue
        mon = monitor(ops, io) if ci < nadm else None
        ck.count("admissible_cases" if ci < nadm else "outside_hypotheses_cases")
        if mon is not None:
            i, fp, what = mon
            small = shrink(ck, binary, ops[:i + 1], fp)
            ck.violation(fp, what, {"ops": small, "expected": "same result from both stores", "actual": what})
            done = True
            continue
        d = lib.first_diff(io, mo)
        if d is not None:
            ck.cov["disagreements_checked"] += 1
            ck.broke("correspondence model/implementation (metadata stores)",
                     "op %r\nimpl : %s\nmodel: %s\n(history: %s)" % (ops[d], io[d] if d < len(io) else None, mo[d] if d < len(mo) else None,
                                                                     " ; ".join(ops[:d + 1])))
            done = True
    if ck.broken and not ck.violations:
        hunt(ck, binary)


def hunt(ck, binary):
    cases = [gen_case(ck.rng.fork(), 120) for _ in range(60)]
    all_ops, bounds = [], []
    for c in cases:
        bounds.append((len(all_ops), len(all_ops) + len(c)))
        all_ops += c
    _, impl, crash = run_both(ck, binary, all_ops, "hunt")
    if crash:
        return
    for (a, b) in bounds:
        ck.cov["evaluations"] += 1
        mon = monitor(all_ops[a:b], impl[a:b])
        if mon is not None:
            i, fp, what = mon
            small = shrink(ck, binary, all_ops[a:b][:i + 1], fp)
            ck.violation(fp, what, {"ops": small, "actual": what})
            return


def replay(ck, path):
    rep = json.load(open(path))
    bins = ck.build_all()
    if bins is None:
        return
    ops = rep["ops"]
    fn, impl, crash = run_both(ck, bins["h"], ops, "replay")
    if crash:
        ck.broke("implementation harness did not answer every op", crash)
        return
    model = ck.lean_run("C17", fn)
    for o, r, m in zip(ops, impl, model):
        print("  %-28s -> %s%s" % (o[:28], r, "" if r == m else "   [model: %s]" % m))
    ck.case(tuple(ops), sample={"ops": ops})
    ck.cov["distinct_nontrivial"] = max(2, ck.cov["distinct_nontrivial"])
    mon = monitor(ops, impl)
    if mon:
        ck.violation(mon[1], mon[2], {"ops": ops, "actual": mon[2]})
    elif lib.first_diff(impl, model) is not None:
        d = lib.first_diff(impl, model)
        ck.broke("correspondence model/implementation on the replay", "op %r\nimpl : %s\nmodel: %s" % (ops[d], impl[d], model[d]))
