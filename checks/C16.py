"""C16 — committed offsets read back exactly; never-committed reads -1."""
from checks import C12_common as G

PROPERTY = "C16"
LEAN_MODULES = ["KafVerif.Props.C16"]
OBLIGATIONS = [
    "KafVerif.C16.fetch_last_commit",
    "KafVerif.C16.no_interference",
    "KafVerif.C16.never_committed_minus_one",
    "KafVerif.C16.consumerKeyOld_aliases",
    "KafVerif.C16.etcdOffsetKey_aliases",
    "KafVerif.C16.fetchOld_violates",
]
BUILDS = G.BUILDS
ASSUMPTIONS = G.COMMON_ASSUMPTIONS + [
    "names are abstract ids in the model (the fixed in-memory store keys its maps by the (group, topic, partition) struct); the harness maps ids to names that contain ':', '/', spaces and non-ASCII characters, including pairs that collide under the old \"%s:%s:%d\" key",
    "the etcd store (embedded etcd, offline) runs a share of the histories with names that do not contain '/'; its key \"/kafscale/consumers/<group>/offsets/<topic>/<partition>\" is modelled in Props/C16 and shown to alias for names containing '/' — reproduced on the real EtcdStore by a fixed probe history and proposed as a known finding (notes/C16.md); the probe is reported through known_findings.json only once the entry is registered",
]
LEVEL_TEXT = ("Lean 4 theorems about the executable model of OffsetCommit/OffsetFetch over the store's offset map, for every "
              "history: an offset fetch returns for every key the offset and metadata of the last successful commit to that "
              "key and -1 when there is none; a commit to one key leaves every other key unchanged. The old string key "
              "\"group:topic:partition\" is modelled and shown to alias two different keys (witness), and the pre-fix "
              "OffsetFetch to answer 0 for a never-committed partition (witness). Tied to the source by the differential "
              "run over names with separators and a monitor holding the specification map.")
TECHNIQUE = "Lean 4 proof (refinement of a key-value specification) + Go/Lean differential correspondence + property monitor"

PROFILE = G.profile(etcd_quick=10, etcd_thorough=60, weights={"xcommit": 14, "xfetch": 14, "commit": 8, "fetch": 6, "join": 4, "hb": 1, "sync": 2, "tick": 1, "fail": 2,
                             "failover": 1, "leave": 1, "meta": 0, "converge": 4},
                    stale_gen=6, fail_kinds=[3, 4], start_converged=90, clients=[1, 1, 2],
                    # group names (harness table): 3 "a:b", 4 "a", 5 "a/offsets/b", 6 "a:t", 7 "grp é x", 8 "a/b"
                    group_sets=[[3, 4], [4, 6], [3, 4, 6], [5, 8, 4], [1, 7], [4, 3]])
RULE = ("commit/fetch histories over 8 group names and 11 topic names containing ':', '/', space, non-ASCII (with pairs that "
        "collide under the old string key), partitions incl. -1, offsets incl. 0, -1, 2^40, with injected commit/fetch store "
        "faults, generated from VERIF_SEED; non-trivial = a commit was accepted; distinct = distinct implementation traces")


def monitor(tr):
    out = []
    spec = {}      # "g:t:p" -> "off/md" of the last successful commit
    for i, st in enumerate(tr.steps):
        f, reply, pre, post = st["f"], st["reply"], st["pre"], st["post"]
        kind = f[0]
        if kind == "reset":
            spec = {}
        entries, rows, g = [], [], None
        if kind == "commit" and reply.get("kind") == "commit":
            g, entries, rows = f[1], f[4].split(","), reply["rows"]
        elif kind == "race" and reply.get("kind") == "race" and reply["commit"].get("kind") == "commit":
            g, entries, rows = f[1], f[4].split(","), reply["commit"]["rows"]
        if kind == "par" and reply.get("kind") == "par":
            # commits inside a two-request op (histories of the shared corpus): applied in the order the harness reports
            for side in (("a", "b") if reply.get("order") == "seq" else ("b", "a")):
                w, o = st[side + "_f"], reply[side]
                if w and w[0] == "commit" and o.get("kind") == "commit" and len(w) > 4 and len(o["rows"]) == len(w[4].split(",")):
                    for e, (k, code) in zip(w[4].split(","), o["rows"]):
                        t, p, off, md = e.split(":")
                        if code == 0 and k == "%s:%s" % (t, p):
                            spec["%s:%s:%s" % (w[1], t, p)] = "%s/%s" % (off, md)
        if len(rows) != len(entries):
            if entries:
                out.append((i, "commit-reply-shape", "commit of %d partitions answered %d rows" % (len(entries), len(rows))))
        else:
            for e, (k, code) in zip(entries, rows):
                t, p, off, md = e.split(":")
                if k != "%s:%s" % (t, p):
                    out.append((i, "commit-reply-shape", "commit row %s for entry %s" % (k, e)))
                if code == 0:
                    spec["%s:%s:%s" % (g, t, p)] = "%s/%s" % (off, md)
        if kind == "fetch" and reply.get("kind") == "fetch":
            g = f[1]
            want_keys = f[2].split(",")
            if [k for k, _, _, _ in reply["rows"]] != want_keys:
                out.append((i, "fetch-reply-shape", "fetch %s answered rows %s" % (want_keys, [r[0] for r in reply["rows"]])))
            for (k, off, md, code) in reply["rows"]:
                if code != 0:
                    continue
                key = "%s:%s" % (g, k)
                if key in spec:
                    if "%s/%s" % (off, md) != spec[key]:
                        other = [kk for kk, v in spec.items() if v == "%s/%s" % (off, md) and kk != key]
                        out.append((i, "commit-visible-under-other-key" if other else "fetch-not-last-commit",
                                    "fetch of %s returned %s/%s, last successful commit was %s%s" % (key, off, md, spec[key],
                                                                                                      " (that is the value of %s)" % other[0] if other else "")))
                elif off != "-1" or md != "0":
                    other = [kk for kk, v in spec.items() if v == "%s/%s" % (off, md)]
                    out.append((i, "commit-visible-under-other-key" if (other and off != "0") else "never-committed-not-minus-one",
                                "fetch of never-committed %s returned offset %s metadata %s%s" % (key, off, md,
                                                                                                  " (the value committed to %s)" % other[0] if other else "")))
        # non-interference / durability, on the store itself: every key ever touched holds its last successful commit
        for key, val in post["O"].items():
            want = spec.get(key, "0/0")
            if val != want:
                other = [kk for kk, v in spec.items() if v == val and kk != key]
                out.append((i, "commit-visible-under-other-key" if other else "stored-offset-differs",
                            "store holds %s for %s, last successful commit was %s%s" % (val, key, want, " (value of %s)" % other[0] if other else "")))
                break
    return out


ETCD_FP = "etcd-offset-key-slash-aliasing"
# group 5 = "a/offsets/b", topic 5 = "c";  group 4 = "a", topic 6 = "b/offsets/c": one etcd key
ETCD_PROBE = ["reset etcd", "meta 0=0", "join 5 c1 30000 30000 1 1 0", "sync 5 c1 @", "commit 5 c1 @ 5:0:41:1", "fetch 4 6:0"]


def etcd_probe(ck):
    """The etcd store's key "/kafscale/consumers/<group>/offsets/<topic>/<partition>" aliases for names with '/'.
    Proposed known finding (notes/C16.md): reported through ck.violation only when known_findings.json lists it."""
    bins = ck.build_all()
    if bins is None:
        return
    io = G.run_impl(ck, bins["h"], ETCD_PROBE, "etcdprobe")
    if io is None:
        return
    hits = [x for x in monitor(G.Trace(ETCD_PROBE, io)) if x[1] in ("commit-visible-under-other-key", "never-committed-not-minus-one")]
    ck.count("etcd_slash_alias_probe_reproduced", 1 if hits else 0)
    if not hits:
        return
    what = "EtcdStore: commit to group \"a/offsets/b\" topic \"c\" is read back as group \"a\" topic \"b/offsets/c\" (%s)" % hits[0][2]
    registered = any(k.get("property") == "C16" and k.get("fingerprint") == ETCD_FP and k.get("status", "open") == "open" for k in ck.known)
    if registered:
        ck.violation(ETCD_FP, what, {"ops": ETCD_PROBE, "actual": what})
    else:
        ck.notes.append("known finding proposed, not registered in known_findings.json: " + what)


def recommit_history(reset):
    """the same position committed again with other / empty metadata, offset 0 and -1 included, on exotic names"""
    h = [reset, "meta 0=0", "join 6 c1 30000 30000 1 1 0", "sync 6 c1 @"]
    for (t, p) in ((0, 0), (7, 1), (9, -1)):
        for off in (42, 0, -1):
            for md in (1, 2, 0, 3):
                h.append("commit 6 c1 @ %d:%d:%d:%d" % (t, p, off, md))
                h.append("fetch 6 %d:%d" % (t, p))
    return h


def run(ck):
    G.run_property(ck, PROFILE, monitor, n_quick=200, n_thorough=2000, nops=45, rule=RULE,
                   extra_histories=[recommit_history("reset"), recommit_history("reset etcd")])
    etcd_probe(ck)


def replay(ck, path):
    G.replay(ck, path, monitor)
