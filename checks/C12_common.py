"""Shared machinery of the six group-coordinator checks (C12 C13 C14 C15 C43 C16).

One Lean model (KafVerif.Model.Group.Coordinator), one Lean driver (lean/Driver/C12.lean), one
Go harness (harness/C12: overlay in pkg/broker + pkg/metadata, cmd/verif_c12).  A *history* is a
list of op lines starting with `reset`; all histories of a run are concatenated and piped once
through the real code and once through the model.  Member ids are random in the real code
(`group-<rand.Int63>`): the harness prints the id it got (`new=<id>`), the check turns the ids of
a history into ranks (Go string order) and hands them to the model as the `newKey` input.

Every property module supplies a generator profile and a monitor (the property itself, evaluated
on the implementation's lines); this module does generation, the two runs, the diff,
minimisation, replay and evidence.
"""
import json
import re

from checks import lib

LEAN_MODEL = "KafVerif.Model.Group.Coordinator"
BUILDS = {"h": ("root", "./cmd/verif_c12", ["C12"])}

NGROUP_NAMES = 8      # harness/C12 groupNames[1..8]
NTOPIC_NAMES = 11     # harness/C12 topicNames[0..10]
SUB_TOPICS = [0, 1, 2, 3]   # topics used in subscriptions (name order = index order); 3 is never in the metadata
TIMEOUTS = [10000, 20000, 30000]
SLASH_GROUPS = {5, 8}          # harness group names containing '/'
SLASH_TOPICS = {6, 10}         # harness topic names containing '/'

COMMON_ASSUMPTIONS = [
    "sync.Mutex gives mutual exclusion: every coordinator request is one atomic step of the model (the commit race of C13 is the one place where two requests are interleaved, through a gate inside the store)",
    "member ids drawn by newMemberID are fresh (a collision of two rand.Int63 values is ignored); the model takes the id as an input and the theorems hold for every fresh choice",
    "time: the harness shifts stored timestamps backwards (lastHeartbeat, rebalanceDeadline, persisted HeartbeatAt) instead of waiting; ticks are chosen so that no comparison sits within 1 s of its boundary",
    "stores under test: the real InMemoryStore (all histories but a few) and the real EtcdStore on an embedded etcd (a few histories per run; names without '/'); kmsg encodes subscriptions / decodes assignments (real client wire format)",
    "a history in which a single op took more than 250 ms of real time (starved machine) is discarded, not compared: virtual time cannot be kept exact across it (count in evidence: histories_discarded_slow_machine)",
]


# ----------------------------------------------------------------------------- generation

class Gen:
    """Offline generator of one history.  Clients (c<i>) remember the member id of their last join reply,
    exactly like real consumers; `@` is the generation of that reply."""

    def __init__(self, rng, profile, etcd=False):
        self.r = rng
        self.p = profile
        self.etcd = etcd          # this history runs on the etcd store: names without '/' (see notes/C16.md)
        self.ops = []
        self.clock = 0
        self.residues = {0}
        self.nticks = 0
        if "group_sets" in profile:
            sets = [gs for gs in profile["group_sets"] if not (etcd and set(gs) & SLASH_GROUPS)] or [[1, 2]]
            self.gids = list(rng.choice(sets))
        else:
            self.gids = [1] if rng.chance(3, 4) else [1, 2]
        self.ngroups = len(self.gids)
        self.clients = {}     # group -> [client index]
        n = 0
        for g in self.gids:
            k = rng.choice(profile.get("clients", [1, 2, 2, 3, 3, 4]))
            self.clients[g] = list(range(n + 1, n + k + 1))
            n += k
        self.subs = {}        # client -> current subscription
        self.meta = {}
        self.committed = []   # recent commit entries (topic, partition, offset, metadata)

    def emit(self, s):
        self.ops.append(s)
        self.residues.add((self.clock // 1000) % 10)

    # --- pieces
    def topics(self):
        r = self.r
        k = r.choice([0, 1, 1, 2, 2, 3])
        ts = [r.choice(SUB_TOPICS if r.chance(1, 6) else SUB_TOPICS[:3]) for _ in range(k)]
        if r.chance(1, 10) and ts:
            ts.append(ts[0])      # duplicate entry
        return ts

    def timeout(self):
        r = self.r
        if r.chance(1, 8):
            return r.choice([0, -1, 40000])   # multiples of 10 s only (see tick)
        return r.choice(self.p.get("timeouts", TIMEOUTS))

    def set_meta(self):
        r = self.r
        parts = []
        for t in SUB_TOPICS[:3]:
            if r.chance(1, 10):
                continue          # unknown topic
            n = r.choice([0, 1, 2, 3, 4, 5])
            ps = list(range(n))
            if n >= 2 and r.chance(1, 6):
                ps = ps[::-1]     # unsorted in the store
            if n >= 2 and r.chance(1, 8):
                ps = [p * 2 for p in ps]   # gaps
            parts.append("%d=%s" % (t, ",".join(map(str, ps)) if ps else "-"))
        self.emit("meta " + " ".join(parts))

    def member_tok(self, g, stale_ok=True):
        r = self.r
        cs = self.clients[g]
        if stale_ok and r.chance(1, 12):
            return r.choice(["-", "x7", "m1", "m2", "m3"])
        if stale_ok and self.ngroups > 1 and r.chance(1, 20):
            other = [c for gg, l in self.clients.items() if gg != g for c in l]
            return "c%d" % r.choice(other)
        return "c%d" % r.choice(cs)

    def gen_tok(self):
        r = self.r
        x = r.below(100)
        if x < self.p.get("stale_gen", 12):
            return r.choice(["@-1", "@+1", "0", "1", "2", "7", "-1", "-1", "1000000"])
        return "@"

    def fence_probe(self, g):
        """a commit / heartbeat / sync from somebody who is (most likely) not in the current generation: empty
        member id, never-issued ids, ids of earlier (possibly removed) members, other groups' clients, with
        generations -1 ("no generation"), 0, gen-1, gen, gen+1, huge — issued in whatever phase the group is in"""
        r = self.r
        everybody = [c for l in self.clients.values() for c in l]
        mem = r.choice(["-", "-", "-", "x7", "x9", "m1", "m2", "m3", "m4", "m5"] + ["c%d" % c for c in everybody])
        gen = r.choice(["-1", "-1", "0", "@-1", "@", "@+1", "1000000"])
        kind = r.choice(["commit", "commit", "hb", "sync"])
        if kind == "commit":
            parts = self.commit_parts(False)
            self.emit("commit %d %s %s %s" % (g, mem, gen, ",".join("%d:%d:%d:%d" % x for x in parts)))
        else:
            self.emit("%s %d %s %s" % (kind, g, mem, gen))

    def small_tick(self):
        """2-4 s: a heartbeat cadence well below every session timeout (and below any write-coalescing interval)"""
        r = self.r
        if self.nticks >= 9:
            return 0
        for d in sorted([2, 3, 4], key=lambda _: r.below(100)):
            if ((self.clock // 1000) + d) % 10 not in self.residues:
                self.clock += d * 1000
                self.nticks += 1
                self.emit("tick %d" % (d * 1000))
                return d
        return 0

    def cadence(self, g):
        """members with a 10 s session heartbeat every 2-4 s for longer than the session, then the coordinator
        fails over, the group is loaded (explicitly or by the first member's heartbeat), cleanup runs, and the
        others heartbeat again: nobody may be expired"""
        r = self.r
        cs = list(self.clients[g])
        for _ in range(2):
            for c in cs:
                ts = self.subs.get(c) or self.topics()
                self.subs[c] = ts
                self.emit("join %d c%d 10000 30000 1 1 %s" % (g, c, ",".join(map(str, ts)) if ts else "-"))
        for _ in range(2):
            for c in cs:
                self.emit("sync %d c%d @" % (g, c))
        total = 0
        while total < 11:
            d = self.small_tick()
            if d == 0:
                break
            total += d
            for c in cs:
                self.emit("hb %d c%d @" % (g, c))
        if r.chance(1, 6):
            return            # sometimes no failover: plain long-lived stable group
        self.emit("failover")
        if r.chance(1, 2):
            self.emit("load %d" % g)
        else:
            self.emit("hb %d c%d @" % (g, cs[0]))
        self.emit("cleanup")
        for c in cs:
            self.emit("hb %d c%d @" % (g, c))

    def join(self, g, c=None, change=False):
        r = self.r
        tok = self.member_tok(g) if c is None else "c%d" % c
        ci = int(tok[1:]) if tok.startswith("c") else None
        if ci is not None and ci in self.subs and not change and not r.chance(self.p.get("resub", 15), 100):
            ts = self.subs[ci]
        else:
            ts = self.topics()
        if ci is not None:
            self.subs[ci] = ts
        proto = "none" if r.chance(1, 25) else str(r.choice([1, 1, 1, 2, 0]))
        self.emit("join %d %s %d %d %d %s %s" % (g, tok, self.timeout(), self.timeout(), r.choice([1, 1, 0, 2]), proto,
                                               ",".join(map(str, ts)) if ts else "-"))

    def converge(self, g):
        """every client joins (twice), then everybody syncs (twice): usually ends Stable"""
        cs = list(self.clients[g])
        for _ in range(2):
            order = cs[:]
            for i in range(len(order) - 1, 0, -1):
                j = self.r.below(i + 1)
                order[i], order[j] = order[j], order[i]
            for c in order:
                self.join(g, c)
        for _ in range(2):
            for c in cs:
                self.emit("sync %d c%d @" % (g, c))

    def xtopic(self):
        while True:
            t = self.r.below(NTOPIC_NAMES)
            if not (self.etcd and t in SLASH_TOPICS):
                return t

    def xgroup(self):
        while True:
            g = self.r.range(1, NGROUP_NAMES)
            if not (self.etcd and g in SLASH_GROUPS):
                return g

    def commit_parts(self, exotic):
        r = self.r
        n = r.choice([1, 1, 1, 2, 3])
        out = []
        for _ in range(n):
            if self.committed and r.chance(1, 3):
                # commit the same position again, with other (or no) metadata: the last commit must still win
                t, p, off, md = r.choice(self.committed)
                out.append((t, p, off, r.choice([m for m in (0, 1, 2, 3, 4) if m != md])))
                continue
            t = self.xtopic() if exotic else r.choice(SUB_TOPICS)
            p = r.choice([0, 0, 1, 2, 5, 10, -1]) if exotic else r.choice([0, 1, 2])
            off = r.choice([0, 1, 5, 41, 42, 100, 2 ** 40, -1])
            out.append((t, p, off, r.choice([0, 0, 1, 2, 3, 4])))
        self.committed = (self.committed + out)[-6:]
        return out

    def commit(self, g=None, exotic=False):
        r = self.r
        if g is None:
            g = r.choice(self.gids)
        parts = self.commit_parts(exotic)
        self.emit("commit %d %s %s %s" % (g, self.member_tok(g), self.gen_tok(), ",".join("%d:%d:%d:%d" % x for x in parts)))

    def fetch(self, g=None, exotic=False):
        r = self.r
        if g is None:
            g = self.xgroup() if (exotic and r.chance(1, 3)) else r.choice(self.gids)
        n = r.choice([1, 2, 3])
        parts = []
        for _ in range(n):
            t = self.xtopic() if exotic else r.choice(SUB_TOPICS)
            p = r.choice([0, 0, 1, 2, 5, 10, -1]) if exotic else r.choice([0, 1, 2])
            parts.append("%d:%d" % (t, p))
        self.emit("fetch %d %s" % (g, ",".join(parts)))

    def tick(self, then_cleanup=True):
        """advance the clock so that no earlier op time is a whole multiple of 10 s away"""
        r = self.r
        if self.nticks >= 9:
            return
        for _ in range(20):
            d = r.choice(self.p.get("tick_base", [10, 10, 10, 20, 30])) + r.choice([-4, -3, -2, -1, 1, 2, 3, 4])
            if d <= 0:
                continue
            if ((self.clock // 1000) + d) % 10 not in self.residues:
                self.clock += d * 1000
                self.nticks += 1
                self.emit("tick %d" % (d * 1000))
                if then_cleanup:
                    self.emit("cleanup")
                return

    def failover(self, load=True):
        self.emit("failover")
        if load:
            for g in self.gids:
                if self.r.chance(4, 5):
                    self.emit("load %d" % g)

    def race(self, g):
        r = self.r
        c = r.choice(self.clients[g])
        parts = self.commit_parts(False)[:1]
        kind = r.below(4)
        if kind == 0:
            other = "leave %d c%d" % (g, c)
        elif kind == 1:
            c2 = r.choice(self.clients[g])
            other = "join %d c%d 30000 30000 1 1 %s" % (g, c2, ",".join(map(str, self.topics())) or "-")
        elif kind == 2:
            other = "cleanup"
        else:
            other = "hb %d c%d @" % (g, c)
        self.emit("race %d c%d %s %s | %s" % (g, c, self.gen_tok(), ",".join("%d:%d:%d:%d" % x for x in parts), other))

    # --- one history
    def history(self, nops):
        r, p = self.r, self.p
        self.emit("reset etcd" if self.etcd else "reset")
        self.set_meta()
        w = p["weights"]
        kinds = [k for k, n in w.items() for _ in range(n)]
        if r.chance(p.get("cadence", 6), 100):
            self.cadence(r.choice(self.gids))
        elif r.chance(p.get("start_converged", 70), 100):
            for g in self.gids:
                self.converge(g)
        guard = 0
        while len(self.ops) < nops and guard < 40 * nops:
            guard += 1
            k = r.choice(kinds)
            g = r.choice(self.gids)
            if k == "join":
                self.join(g)
            elif k == "resub":
                self.join(g, r.choice(self.clients[g]), change=True)
            elif k == "converge":
                self.converge(g)
            elif k == "fence":
                self.fence_probe(g)
            elif k == "sync":
                self.emit("sync %d %s %s" % (g, self.member_tok(g), self.gen_tok()))
            elif k == "hb":
                self.emit("hb %d %s %s" % (g, self.member_tok(g), self.gen_tok()))
            elif k == "hball":
                for c in self.clients[g]:
                    if r.chance(4, 5):
                        self.emit("hb %d c%d @" % (g, c))
            elif k == "leave":
                self.emit("leave %d %s" % (g, self.member_tok(g)))
            elif k == "commit":
                self.commit(g)
            elif k == "xcommit":
                self.commit(g, True)
            elif k == "fetch":
                self.fetch(g)
            elif k == "xfetch":
                self.fetch(None, True)
            elif k == "tick":
                self.tick(True)
            elif k == "tickonly":
                self.tick(False)
            elif k == "cleanup":
                self.emit("cleanup")
            elif k == "failover":
                self.failover(True)
            elif k == "failover_lazy":
                self.failover(False)
            elif k == "fail":
                fk = p.get("fail_kinds", [0, 1, 2, 3, 4, 5])
                if self.ngroups > 1:
                    # cleanupGroups walks a Go map: with two groups the one-shot put/delete fault would hit
                    # whichever group comes first — not a difference the model can (or should) predict
                    fk = [k2 for k2 in fk if k2 not in (0, 1)] or [3]
                self.emit("fail %d" % r.choice(fk))
            elif k == "meta":
                self.set_meta()
            elif k == "race":
                self.race(g)
        return self.ops


BASE_WEIGHTS = {"fence": 3, "join": 8, "resub": 2, "converge": 3, "sync": 8, "hb": 8, "hball": 2, "leave": 3, "commit": 5, "fetch": 3,
                "tick": 6, "tickonly": 1, "cleanup": 2, "failover": 2, "failover_lazy": 1, "fail": 1, "meta": 1}


def profile(**over):
    w = dict(BASE_WEIGHTS)
    w.update(over.pop("weights", {}))
    p = {"weights": {k: v for k, v in w.items() if v > 0}}
    p.update(over)
    return p


# ----------------------------------------------------------------------------- running

NEW_RE = re.compile(r" new=(\S+)")


def split_histories(ops):
    bounds, start = [], None
    for i, o in enumerate(ops):
        if o.split()[0] == "reset":
            if start is not None:
                bounds.append((start, i))
            start = i
    if start is not None:
        bounds.append((start, len(ops)))
    return bounds


def lean_ops(ops, impl):
    """Append the newKey input (rank of the id the implementation drew) to every join line."""
    out = list(ops)
    for (a, b) in split_histories(ops):
        ids = []
        for i in range(a, b):
            if i < len(impl):
                ids += NEW_RE.findall(impl[i])
        rank = {x: n + 1 for n, x in enumerate(sorted(set(ids), key=bytes.fromhex))}
        for i in range(a, b):
            f = ops[i].split()
            if f[0] not in ("join", "race") or i >= len(impl):
                continue
            m = NEW_RE.findall(impl[i])
            nk = rank[m[0]] if m else 900000 + i
            if f[0] == "join":
                out[i] = ops[i] + " %d" % nk
            else:
                out[i] = ops[i] + " %d" % nk if " join " in ops[i] else ops[i]
    return out


def strip_new(line):
    return NEW_RE.sub("", line)


def run_both(ck, binary, ops, tag, variant=""):
    """Returns (impl lines with new= stripped, model lines, error string|None)."""
    fn = ck.path("ops_%s.txt" % tag)
    open(fn, "w").write("\n".join(ops) + "\n")
    rc, out, err = ck.run_bin(binary, stdin_path=fn, timeout=900)
    impl = out.split("\n")[:-1]
    if rc != 0 or len(impl) != len(ops):
        return impl, None, "implementation harness rc=%s answered %d of %d ops: %s" % (rc, len(impl), len(ops), err[-800:])
    lops = lean_ops(ops, impl)
    if variant:
        lops = [(o + " " + variant) if o.split()[0] == "reset" else o for o in lops]
    fl = ck.path("lops_%s.txt" % tag)
    open(fl, "w").write("\n".join(lops) + "\n")
    model = ck.lean_run("C12", fl)
    return [strip_new(l) for l in impl], model, None


def run_impl(ck, binary, ops, tag="x"):
    fn = ck.path("iops_%s.txt" % tag)
    open(fn, "w").write("\n".join(ops) + "\n")
    rc, out, err = ck.run_bin(binary, stdin_path=fn, timeout=300)
    impl = [strip_new(l) for l in out.split("\n")[:-1]]
    if any(l.startswith("SLOW ") for l in impl):
        return None
    return impl if (rc == 0 and len(impl) == len(ops)) else None


# ----------------------------------------------------------------------------- parsing result lines

GROUP_RE = re.compile(r"\bG(\S+?)\{(.*?)\}")
PGROUP_RE = re.compile(r"\bP(\S+?)\{(.*?)\}")
MEM_RE = re.compile(r"^(\S+?)\(t=(\S+) s=(-?\d+) age=(\S+) jg=(-?\d+)\)$")
PMEM_RE = re.compile(r"^(\S+?)\(t=(\S+) s=(-?\d+) age=(\S+) asg=(\S+)\)$")


def kvs(s):
    return dict(x.split("=", 1) for x in s.split(" ") if "=" in x and not x.startswith("mem=") and not x.startswith("asg="))


def parse_asg(s):
    """'0=0,1/2=3' -> {0: [0,1], 2: [3]};  'nil' -> {}"""
    if s in ("nil", "", "[]"):
        return {}
    out = {}
    for e in s.split("/"):
        t, ps = e.split("=", 1)
        out[t] = [] if ps == "-" else ps.split(",")
    return out


def parse_topics(s):
    return [] if s == "-" else s.split(",")


def bracket(body, key):
    i = body.find(key + "=[")
    if i < 0:
        return ""
    j = body.find("]", i)
    return body[i + len(key) + 2:j]


def parse_dump(d):
    groups, pers = {}, {}
    for gid, body in GROUP_RE.findall(d):
        kv = kvs(body.split(" mem=[")[0])
        mem = {}
        for m in filter(None, bracket(body, "mem").split(";")):
            mo = MEM_RE.match(m)
            if mo:
                mem[mo.group(1)] = {"topics": parse_topics(mo.group(2)), "s": int(mo.group(3)), "age": mo.group(4), "jg": int(mo.group(5))}
        asg = {}
        for a in filter(None, bracket(body, "asg").split(";")):
            mid, rest = a.split(":", 1)
            asg[mid] = parse_asg(rest)
        groups[gid] = {"ph": kv.get("ph"), "gen": int(kv.get("gen", 0)), "ld": kv.get("ld"), "rt": int(kv.get("rt", 0)),
                       "dl": kv.get("dl"), "pn": kv.get("pn"), "pt": kv.get("pt"), "mem": mem, "asg": asg}
    for gid, body in PGROUP_RE.findall(d):
        kv = kvs(body.split(" mem=[")[0])
        mem = {}
        for m in filter(None, bracket(body, "mem").split(";")):
            mo = PMEM_RE.match(m)
            if mo:
                mem[mo.group(1)] = {"topics": parse_topics(mo.group(2)), "s": int(mo.group(3)), "age": mo.group(4), "asg": parse_asg(mo.group(5))}
        pers[gid] = {"ph": kv.get("st"), "gen": int(kv.get("gen", 0)), "ld": kv.get("ld"), "rt": int(kv.get("rt", 0)),
                     "pn": kv.get("pn"), "pt": kv.get("pt"), "mem": mem}
    offs = {}
    i = d.find("O[")
    if i >= 0:
        for e in filter(None, d[i + 2:d.find("]", i)].split(",")):
            k, val = e.split("=", 1)
            offs[k] = val
    return {"G": groups, "P": pers, "O": offs}


def parse_reply(r):
    r = r.strip()
    if r.startswith("join "):
        kv = kvs(r[5:].split(" mem=[")[0])
        mem = {}
        for m in filter(None, bracket(r, "mem").split(";")):
            mid, ts = m.split(":", 1)
            mem[mid] = parse_topics(ts)
        return {"kind": "join", "code": int(kv["code"]), "gen": int(kv["gen"]), "ld": kv["ld"], "me": kv["me"], "mem": mem}
    if r.startswith("sync "):
        kv = kvs(r[5:])
        return {"kind": "sync", "code": int(kv["code"]), "asg": parse_asg(r.split(" asg=", 1)[1])}
    if r.startswith("code="):
        return {"kind": "code", "code": int(r[5:])}
    if r.startswith("commit"):
        rows = []
        for e in filter(None, r[6:].strip().split(",")):
            k, c = e.rsplit("=", 1)
            rows.append((k, int(c)))
        return {"kind": "commit", "rows": rows}
    if r.startswith("fetch"):
        rows = []
        for e in filter(None, r[5:].strip().split(",")):
            k, v = e.split("=", 1)
            off, md, code = v.rsplit("/", 2)
            rows.append((k, off, md, int(code)))
        return {"kind": "fetch", "rows": rows}
    if r.startswith("race "):
        m = re.match(r"race order=(\S+) (.*?) ; (.*)$", r)
        if m:
            return {"kind": "race", "order": m.group(1), "commit": parse_reply(m.group(2)), "other": parse_reply(m.group(3))}
    return {"kind": r.split(" ")[0] if r else ""}


def parse_line(line):
    if " || " in line:
        r, d = line.split(" || ", 1)
        return parse_reply(r), parse_dump(d)
    return {"kind": line.strip()}, {"G": {}, "P": {}, "O": {}}


class Trace:
    """One history on the implementation, with the client-side bookkeeping a monitor needs."""

    def __init__(self, ops, lines):
        self.ops = ops
        self.lines = lines
        self.steps = []
        client, lastgen = {}, {}
        pre = {"G": {}, "P": {}, "O": {}}
        clock = 0
        meta = {}
        faults = set()
        everfault = set()
        for op, line in zip(ops, lines):
            f = op.split()
            reply, post = parse_line(line)
            st = {"op": op, "f": f, "reply": reply, "pre": pre, "post": post, "clock": clock, "meta": dict(meta),
                  "faults": set(faults), "everfault": set(everfault)}
            kind = f[0]
            if kind == "reset":
                client, lastgen, clock, meta, faults, everfault = {}, {}, 0, {}, set(), set()
            elif kind == "meta":
                meta = {}
                for w in f[1:]:
                    t, ps = w.split("=", 1)
                    meta[t] = [] if ps == "-" else ps.split(",")
            elif kind == "tick":
                clock += int(f[1])
            elif kind == "fail":
                faults.add(int(f[1]))
                everfault.add(int(f[1]))
            if kind in ("join", "sync", "hb", "leave", "commit"):
                st["member"] = self.resolve(f[2], client)
                if kind in ("sync", "hb", "commit"):
                    st["gen"] = self.gen(f[3], lastgen.get(st["member"], 0))
            if kind == "race":
                st["member"] = self.resolve(f[2], client)
                st["gen"] = self.gen(f[3], lastgen.get(st["member"], 0))
                bar = f.index("|")
                st["other_f"] = f[bar + 1:]
                if len(st["other_f"]) > 2 and st["other_f"][0] in ("join", "sync", "hb", "leave", "commit"):
                    st["other_member"] = self.resolve(st["other_f"][2], client)
            # client bookkeeping from join replies
            jr = None
            if kind == "join" and reply.get("kind") == "join":
                jr, tok = reply, f[2]
            elif kind == "race" and reply.get("kind") == "race" and reply["other"].get("kind") == "join":
                jr, tok = reply["other"], st["other_f"][2]
            if jr is not None:
                if tok.startswith("c"):
                    client[tok] = jr["me"]
                lastgen[jr["me"]] = jr["gen"]
            # a fault is consumed by the next matching store call; the monitors only need "was any fault pending/ever set"
            if kind not in ("fail",) and faults:
                faults = self.consume(faults, kind, reply)
            st["clock_after"] = clock
            self.steps.append(st)
            pre = post

    @staticmethod
    def resolve(tok, client):
        if tok == "-":
            return "-"
        if tok.startswith("c"):
            return client.get(tok, "-")
        if tok.startswith("m"):
            return tok
        return "?" + tok

    @staticmethod
    def gen(tok, base):
        if tok == "@":
            return base
        if tok == "@+1":
            return base + 1
        if tok == "@-1":
            return max(0, base - 1)
        try:
            return int(tok)
        except ValueError:
            return 0

    @staticmethod
    def consume(faults, kind, reply):
        # conservative: keep faults pending until an op that may touch the store has run
        if kind in ("tick", "meta", "failover", "reset"):
            return faults
        return set()


def effective_group(dump, g):
    """The group state the next request on g will see: the loaded one, else the persisted one (restored)."""
    if g in dump["G"]:
        return dump["G"][g]
    if g in dump["P"]:
        p = dump["P"][g]
        return {"ph": p["ph"], "gen": p["gen"], "ld": p["ld"], "rt": p["rt"], "mem": p["mem"],
                "asg": {m: v["asg"] for m, v in p["mem"].items() if v["asg"]}, "restored": True}
    return None


# ----------------------------------------------------------------------------- the check skeleton

def run_property(ck, prof, monitor, n_quick, n_thorough, nops, rule, variant="", extra_histories=()):
    bins = ck.build_all()
    if bins is None:
        return
    binary = bins["h"]
    n = n_quick if ck.quick() else n_thorough
    ck.cov["rule"] = rule
    hist = [list(h) for h in extra_histories]
    n_etcd = prof.get("etcd_quick", 0) if ck.quick() else prof.get("etcd_thorough", 0)
    for i in range(n):
        hist.append(Gen(ck.rng.fork(), prof, etcd=(i < n_etcd)).history(nops if ck.quick() else nops + 20))
    ck.count("histories_on_etcd_store", min(n, n_etcd))
    all_ops = [o for h in hist for o in h]
    impl, model, crash = run_both(ck, binary, all_ops, "all", variant)
    if crash:
        ck.broke("implementation harness did not answer every op", crash)
        return
    bounds = split_histories(all_ops)
    broke = False
    seen_fp = set()
    for (a, b) in bounds:
        ops, io, mo = all_ops[a:b], impl[a:b], model[a:b]
        if any(l.startswith("SLOW ") for l in io):
            ck.count("histories_discarded_slow_machine")
            continue
        tr = Trace(ops, io)
        stats = monitor_stats(tr)
        for k, v in stats.items():
            ck.count(k, v)
        ck.case(tuple(io), nontrivial=stats.get("stable_reached", 0) > 0 or stats.get("commit_ok", 0) > 0,
                sample={"ops": ops[:6], "impl": [l[:160] for l in io[:6]]})
        ck.cov["traces_validated_against_impl"] += 1
        found = monitor(tr)
        for (i, fp, what) in found:
            if fp in seen_fp or len(seen_fp) >= 6:
                continue
            seen_fp.add(fp)
            small = minimise(ck, binary, ops, i, fp, monitor)
            ck.violation(fp, what, {"ops": small, "expected": "property monitor true on every line", "actual": what})
        d = lib.first_diff(io, mo)
        if d is not None and not found and not broke:
            broke = True
            ck.cov["disagreements_checked"] += 1
            ck.broke("correspondence model/implementation (GroupCoordinator)",
                     "history %d op %d %r\nimpl : %s\nmodel: %s\nhistory so far:\n%s" % (
                         bounds.index((a, b)), d, ops[d] if d < len(ops) else None, io[d] if d < len(io) else None,
                         mo[d] if d < len(mo) else None, "\n".join(ops[:d + 1])))
    if broke and not ck.violations:
        hunt(ck, binary, prof, monitor, nops)


def monitor_stats(tr):
    s = {"ops": len(tr.ops)}
    for st in tr.steps:
        k = st["f"][0]
        s["op_" + k] = s.get("op_" + k, 0) + 1
        r = st["reply"]
        if r.get("kind") in ("join", "sync", "code"):
            key = "%s_code_%s" % (k, r.get("code"))
            s[key] = s.get(key, 0) + 1
        if r.get("kind") == "commit" and any(c == 0 for _, c in r["rows"]):
            s["commit_ok"] = s.get("commit_ok", 0) + 1
        if any(g["ph"] == "stable" for g in st["post"]["G"].values()):
            s["stable_reached"] = 1
        n = max([len(g["mem"]) for g in st["post"]["G"].values()] + [0])
        s["max_members"] = max(s.get("max_members", 0), n)
    return s


def minimise(ck, binary, ops, upto, fp, monitor):
    head = ops[:2] if len(ops) > 1 and ops[1].startswith("meta") else ops[:1]
    body = ops[len(head):upto + 1]

    import time
    budget = getattr(ck, "_dd_budget", 60.0)            # seconds of minimisation per run (etcd histories restart etcd)
    deadline = time.time() + min(20.0, budget)
    t_start = time.time()

    def fails(cand):
        if time.time() > deadline:
            return False
        o = head + cand
        io = run_impl(ck, binary, o, "dd")
        if io is None:
            return False
        return any(x[1] == fp for x in monitor(Trace(o, io)))
    try:
        if len(body) > 60 or budget <= 0:
            return head + body
        return head + lib.ddmin(body, fails)
    except Exception:
        return head + body
    finally:
        ck._dd_budget = budget - (time.time() - t_start)


def hunt(ck, binary, prof, monitor, nops, rounds=6, per=25):
    """Correspondence broke without a monitor hit: search more histories with the monitor alone."""
    for _ in range(rounds):
        hist = [Gen(ck.rng.fork(), prof).history(nops + 10) for _ in range(per)]
        all_ops = [o for h in hist for o in h]
        io = run_impl(ck, binary, all_ops, "hunt")
        if io is None:
            return
        for (a, b) in split_histories(all_ops):
            ck.cov["evaluations"] += 1
            tr = Trace(all_ops[a:b], io[a:b])
            found = monitor(tr)
            if found:
                i, fp, what = found[0]
                small = minimise(ck, binary, all_ops[a:b], i, fp, monitor)
                ck.violation(fp, what, {"ops": small, "actual": what})
                return


def replay(ck, path, monitor):
    rep = json.load(open(path))
    bins = ck.build_all()
    if bins is None:
        return
    ops = rep.get("ops")
    if not ops:
        print("replay file has no ops (a broken obligation/correspondence): see its 'no_longer_checks' entry")
        return
    io = run_impl(ck, bins["h"], ops, "replay")
    if io is None:
        ck.broke("implementation harness failed on the replay", "")
        return
    for o, r in zip(ops, io):
        print("  %-60s -> %s" % (o[:60], r[:400]))
    ck.case(tuple(ops), sample={"ops": ops})
    ck.cov["evaluations"] = max(ck.cov["evaluations"], 1)
    ck.cov["distinct_nontrivial"] = 2
    for (i, fp, what) in monitor(Trace(ops, io)):
        ck.violation(fp, what, {"ops": ops, "actual": what})
