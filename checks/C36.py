"""C36 — SQL results equal direct filtering of the topic's records."""
import json

from checks import lib

PROPERTY = "C36"
LEAN_MODULES = ["KafVerif.Props.C36"]
OBLIGATIONS = [
    "KafVerif.C36.skip_sound",
    "KafVerif.C36.select_eq_direct",
    "KafVerif.C36.discovery_offsets_sound",
    "KafVerif.C36.scan_sound",
    "KafVerif.C36.overlap_unsound",
    "KafVerif.C36.listing_sound",
    "KafVerif.C36.select_over_listing",
]
BUILDS = {"h": ("sql", "./cmd/verif_c36", ["C36"])}
TECHNIQUE = ("Lean 4 refinement proof (record loop of handleSelect = direct filtering) + differential correspondence through "
             "the real Server.handleSelect and the real s3Lister/TimeIndexBuilder on an in-process S3 + spec monitor")
LEVEL_TEXT = ("proof: select_eq_direct — for every segment list whose present statistics are sound (each of min/max offset and "
              "min/max timestamp independently present or absent) and every query (partition, offset and time bounds, LIMIT "
              "with early stop, TAIL ring, ORDER BY _ts ASC/DESC with cut) the rows sent by the modelled handleSelect equal "
              "the filters/limit/tail/order applied directly to all records of the topic's segments; skip_sound — a dropped "
              "segment holds no matching record; discovery_offsets_sound / scan_sound — MinOffset = base, MaxOffset = next "
              "base - 1 and the .kfst footer are sound for logs whose offsets lie in [base, next base); overlap_unsound — "
              "the cross-reference to C02; listing_sound / select_over_listing — for every well-formed S3 object set (distinct "
              "bases per partition, offsets in [base, any later base)) every reference the modelled ListCompleted returns "
              "(sort, next-segment lookup, footer enrichment, with or without the time index) has sound statistics, hence a "
              "SELECT over the real listing equals direct filtering. Tie: generated segment sets x queries through the real handleSelect (DataRow "
              "messages decoded) and, for S3 object sets, through the real s3Lister.ListCompleted, TimeIndexBuilder.Build and "
              "timeIndexReader over an in-process S3 endpoint; rows and listed statistics are diffed with the model and the "
              "rows are checked against the Lean `direct` specification.")
LEVEL_NOTE = ("sort.Slice is unstable: rows with "
              "equal _ts are compared as a multiset (the last tie group of a cut result by size). Aggregates, joins, LAST (wall "
              "clock) and the manifest lister are outside this check. buildRowValues is not modelled (a row is identified by "
              "segment, partition, offset, timestamp).")
ASSUMPTIONS = [
    "Decode returns records that carry the segment's partition (PartitionSound) — broker-written segments do",
    "statistics soundness for manifests / stale footers is an input hypothesis (StatsSound); for the S3 lister it is proved from offsets in [base, next base)",
    "DefaultLimit = 1000 > 0 (the code falls back to it for non-positive limits)",
]
DEFAULT_SEED = 36


def opt(v):
    return "-" if v is None else str(v)


def gen_partition(rng, nseg):
    """(base, [(off, ts)]) per segment: contiguous offsets, noisy timestamps."""
    segs, o, ts = [], (0 if rng.chance(3, 4) else rng.range(1, 50)), rng.range(0, 100)
    for _ in range(nseg):
        base = o
        n = rng.choice([0, 1, 2, 3, 4, 5]) if rng.chance(1, 5) else rng.range(1, 5)
        recs = []
        for _ in range(n):
            ts += rng.choice([0, 0, 1, 2, 5, -3])
            recs.append((o, max(ts, 0)))
            o += 1 if rng.chance(6, 7) else rng.range(2, 4)
        if n == 0:
            o += rng.range(1, 3)
        segs.append((base, recs))
    return segs


def gen_world_explicit(rng, sound=True):
    lines = ["reset"]
    info = []          # (topic, part, recs) per segment
    for topic in range(rng.range(1, 2)):
        for part in range(rng.range(1, 3)):
            for base, recs in gen_partition(rng, rng.range(1, 4)):
                offs = [r[0] for r in recs] or [base]
                tss = [r[1] for r in recs] or [0]
                lo, hi, tlo, thi = min(offs), max(offs), min(tss), max(tss)
                if not sound and rng.chance(1, 2):
                    lo, hi, tlo, thi = lo + rng.range(0, 2), hi - rng.range(0, 2), tlo + rng.range(0, 3), thi - rng.range(0, 3)
                st = [lo - rng.choice([0, 0, 1, 5]), hi + rng.choice([0, 0, 1, 5]), tlo - rng.choice([0, 0, 2]), thi + rng.choice([0, 0, 2])]
                st = [v if rng.chance(2, 3) else None for v in st]
                if rng.chance(1, 4):
                    st[2] = st[3] = None          # no timestamp statistics at all (time index not built yet)
                # upload time of the object: unrelated to the producer-supplied record timestamps — before, between,
                # after them, or the zero time
                lm = rng.choice([None, tlo - rng.range(1, 5), tlo, (tlo + thi) // 2, thi, thi + rng.range(1, 5)])
                lm = None if lm is None else max(lm, 1)
                lines.append("seg %d %d %s %s %s %s %s %s" % (topic, part, opt(st[0]), opt(st[1]), opt(st[2]), opt(st[3]), opt(lm),
                                                              ",".join("%d:%d" % r for r in recs) or "-"))
                info.append((topic, part, recs))
    if rng.chance(1, 3):   # interleave listing order a bit (the server does not rely on it)
        head, body = lines[:1], lines[1:]
        i, j = rng.below(len(body)), rng.below(len(body))
        body[i], body[j] = body[j], body[i]
        info[i], info[j] = info[j], info[i]
        lines = head + body
    return lines, info


def gen_world_objects(rng):
    lines = ["reset"]
    info = []
    for topic in range(rng.range(1, 2)):
        for part in range(rng.range(1, 3)):
            for base, recs in gen_partition(rng, rng.range(1, 4)):
                flags = "kim" if rng.chance(5, 6) else rng.choice(["ki", "km", "im", "k"])
                tss = [r[1] for r in recs] or [10]
                lm = rng.choice([None, min(tss) - 2, min(tss), (min(tss) + max(tss)) // 2, max(tss) + 3])
                lm = None if lm is None else max(lm, 1)
                lines.append("obj %d %d %d %s %s %s" % (topic, part, base, flags, opt(lm), ",".join("%d:%d" % r for r in recs) or "-"))
                if flags == "kim":
                    info.append((topic, part, recs))
    # the real lister stack of discovery.New: time index on/off, manifest lister on/off, listing cache TTL (0 = off)
    lines.append("list %d %d %d" % (1 if rng.chance(1, 2) else 0, 1 if rng.chance(1, 3) else 0, rng.choice([60, 60, 0])))
    return lines, info


def gen_queries(rng, info, n):
    out = []
    offs = sorted({r[0] for _, _, recs in info for r in recs}) or [0]
    tss = sorted({r[1] for _, _, recs in info for r in recs}) or [0]
    parts = sorted({p for _, p, _ in info}) or [0]

    def around(vals):
        v = rng.choice(vals)
        return v + rng.choice([-1, 0, 0, 1])
    for _ in range(n):
        topic = rng.choice([0, 0, 0, 1, 2])
        part = rng.choice(parts + [3]) if rng.chance(1, 3) else None
        omin = around(offs) if rng.chance(1, 3) else None
        omax = around(offs) if rng.chance(1, 3) else None
        tmin = around(tss) if rng.chance(1, 3) else None
        tmax = around(tss) if rng.chance(1, 3) else None
        if tmin is not None and tmax is not None and tmax < tmin:
            tmin, tmax = tmax, tmin          # "time window is invalid" otherwise
        mode = rng.below(4)
        limit = rng.choice([None, 1, 2, 3, 5, 0, -1, 1000]) if rng.chance(1, 2) else None
        tail, order = None, "-"
        if mode == 1:
            tail = rng.choice([1, 2, 3, 10, 0])
        elif mode == 2:
            order = rng.choice(["asc", "desc"])
        out.append("select %d part=%s omin=%s omax=%s tmin=%s tmax=%s limit=%s tail=%s order=%s" % (
            topic, opt(part), opt(omin), opt(omax), opt(tmin), opt(tmax), opt(limit), opt(tail), order))
        if rng.chance(1, 2):
            out.append(out[-1])            # the same query again: listing caches (cachedLister, manifest TTL) are hit
    return out


def rows_of(line):
    if not line.startswith("rows "):
        return None
    body = line[5:]
    return [] if body == "-" else [tuple(int(x) for x in r.split(":")) for r in body.split(",")]


def same_rows(sel_line, a, b):
    """Row lists equal; for ORDER BY, rows with equal _ts compare as a multiset (sort.Slice is unstable) and the
    last tie group of a cut result by its size."""
    if a is None or b is None:
        return a == b
    if "order=-" in sel_line:
        return a == b
    if len(a) != len(b) or [r[3] for r in a] != [r[3] for r in b]:
        return False
    last = a[-1][3] if a else None
    ga = sorted(r for r in a if r[3] != last)
    gb = sorted(r for r in b if r[3] != last)
    return ga == gb


def stats_sound(list_line, info_by_key):
    """Direct monitor on the real lister's output: the listed statistics bound the segment's records."""
    if list_line == "list -":
        return None
    for ent in list_line[5:].split(";"):
        t, p, base, mn, mx, tmn, tmx, _lm = ent.split("/")
        recs = info_by_key.get((int(t), int(p), int(base)), [])
        for off, ts in recs:
            if (mn != "-" and off < int(mn)) or (mx != "-" and off > int(mx)) or (tmn != "-" and ts < int(tmn)) or (tmx != "-" and ts > int(tmx)):
                return "segment %s/%s base %s listed with offsets [%s,%s] ts [%s,%s] holds record offset=%d ts=%d" % (t, p, base, mn, mx, tmn, tmx, off, ts)
    return None


def run_lines(ck, binary, lines, tag):
    fn = ck.path("ops_%s.txt" % tag)
    open(fn, "w").write("\n".join(lines) + "\n")
    rc, out, err = ck.run_bin(binary, stdin_path=fn, timeout=300)
    impl = out.split("\n")[:-1]
    if rc != 0 or len(impl) != len(lines):
        return None, "rc=%s lines=%d/%d %s" % (rc, len(impl), len(lines), err[-800:])
    return impl, None


CORPUS = [
    # boundary: omin equals a segment's MaxOffset, omax equals the next MinOffset; tie at the ORDER BY cut
    ["reset", "seg 0 0 0 2 10 12 - 0:10,1:12,2:11", "seg 0 0 3 - - - 20 3:12,4:13", "seg 0 1 - - - 50 - 0:50", "seg 1 0 0 - - - - 0:1",
     "select 0 part=- omin=2 omax=- tmin=- tmax=- limit=- tail=- order=-",
     "select 0 part=- omin=- omax=3 tmin=- tmax=- limit=- tail=- order=-",
     "select 0 part=0 omin=- omax=- tmin=12 tmax=12 limit=- tail=- order=-",
     "select 0 part=- omin=- omax=- tmin=- tmax=- limit=2 tail=- order=-",
     "select 0 part=- omin=- omax=- tmin=- tmax=- limit=- tail=2 order=-",
     "select 0 part=- omin=- omax=- tmin=- tmax=- limit=3 tail=- order=desc",
     "select 0 part=- omin=- omax=- tmin=- tmax=- limit=1 tail=- order=asc",
     "select 0 part=1 omin=- omax=- tmin=- tmax=50 limit=- tail=- order=-",
     "select 0 part=- omin=5 omax=- tmin=- tmax=- limit=- tail=- order=-"],
    # a segment without timestamp statistics, uploaded (LastModified 5) before its records' producer timestamps (10, 12):
    # a lower time bound between the two must not skip it
    ["reset", "seg 0 0 - - - - 5 0:10,1:12", "seg 0 0 2 - - - 11 2:12,3:30",
     "select 0 part=- omin=- omax=- tmin=11 tmax=- limit=- tail=- order=-",
     "select 0 part=- omin=- omax=- tmin=6 tmax=- limit=- tail=- order=-",
     "select 0 part=- omin=- omax=- tmin=13 tmax=40 limit=- tail=- order=-"],
    ["reset", "obj 0 0 0 kim 50 0:10,1:12,2:11", "obj 0 0 3 kim - 3:12,4:13", "obj 0 1 0 kim 5 0:50", "obj 1 0 0 ki - 0:1",
     "obj 1 0 5 km - 5:1", "obj 1 1 7 kim - -", "list 1 0 60",
     "select 0 part=- omin=2 omax=2 tmin=- tmax=- limit=- tail=- order=-",
     "select 0 part=- omin=4 omax=- tmin=- tmax=- limit=- tail=- order=-",
     "select 0 part=- omin=4 omax=- tmin=- tmax=- limit=- tail=- order=-",
     "select 0 part=- omin=- omax=- tmin=13 tmax=13 limit=- tail=- order=-",
     "select 0 part=- omin=- omax=- tmin=10 tmax=10 limit=- tail=- order=-"],
    # listing cache on, no time index: the second identical query is served from the cached (cloned) listing
    ["reset", "obj 0 0 0 kim 5 0:10,1:12,2:14,3:15", "obj 0 0 4 kim 7 4:16,5:17,6:18", "list 0 0 60",
     "select 0 part=- omin=2 omax=- tmin=- tmax=- limit=- tail=- order=-",
     "select 0 part=- omin=2 omax=- tmin=- tmax=- limit=- tail=- order=-",
     "select 0 part=- omin=- omax=- tmin=13 tmax=- limit=- tail=- order=-",
     "select 0 part=- omin=1 omax=2 tmin=- tmax=- limit=- tail=- order=-"],
    ["reset", "obj 0 0 0 kim 5 0:10,1:12,2:14,3:15", "obj 0 0 4 kim 7 4:16,5:17,6:18", "list 1 1 60",
     "select 0 part=- omin=2 omax=- tmin=- tmax=- limit=- tail=- order=-",
     "select 0 part=- omin=2 omax=- tmin=- tmax=- limit=- tail=- order=-",
     "select 0 part=- omin=5 omax=- tmin=17 tmax=- limit=- tail=- order=-"],
]


def run(ck):
    bins = ck.build_all()
    if bins is None:
        return
    binary = bins["h"]
    quick = ck.quick()
    ck.cov["rule"] = ("worlds = 1-2 topics x 1-3 partitions x 1-4 segments (contiguous offsets, gaps, empty segments, noisy "
                      "timestamps); statistics explicit (each of the four present/absent, tight or slack; a separate unsound "
                      "stream for correspondence only; segments without timestamp statistics carry a LastModified before / between / "
                      "after their record timestamps) or derived by the real discovery.New lister stack (s3Lister, time index, "
                      "manifest lister, cachedLister with TTL 60 s or off) over an in-process S3 endpoint from object sets with "
                      "incomplete segments; 12 queries per world, half of them issued twice so that listing caches are hit, with bounds at and next to every offset / timestamp, "
                      "LIMIT/TAIL/ORDER BY; non-trivial = at least one segment skipped or one row filtered and at least one row "
                      "returned; distinct = distinct (world, query) texts")
    worlds = []
    for c in CORPUS:
        worlds.append(("corpus", c, True))
    nw = 60 if quick else 600
    for i in range(nw):
        r = ck.rng.fork()
        k = i % 4
        if k in (0, 1):
            lines, info = gen_world_explicit(r, sound=True)
            worlds.append(("explicit", lines + gen_queries(r, info, 12), True))
        elif k == 2:
            lines, info = gen_world_explicit(r, sound=False)
            worlds.append(("unsound", lines + gen_queries(r, info, 12), False))
        else:
            lines, info = gen_world_objects(r)
            worlds.append(("objects", lines + gen_queries(r, info, 12), True))
    lines, spans = [], []
    for kind, ls, sound in worlds:
        spans.append((len(lines), len(lines) + len(ls), kind, sound))
        lines += ls
    ck.log("harness built, %d lines" % len(lines))
    impl, crash = run_lines(ck, binary, lines, "all")
    if crash:
        ck.broke("implementation harness did not answer every line", crash)
        return
    ck.log("implementation answered")
    # one interpreter run: every `select` line is followed by its `direct` (specification) twin
    mfn = ck.path("model_in.txt")
    both = []
    for l in lines:
        both.append(l)
        if l.startswith("select "):
            both.append("direct" + l[6:])
    open(mfn, "w").write("\n".join(both) + "\n")
    outb = ck.lean_run("C36", mfn)
    model, spec, it = [], [], iter(outb)
    for l in lines:
        m = next(it, None)
        model.append(m)
        spec.append(next(it, None) if l.startswith("select ") else m)
    ck.log("model and spec answered")
    if len(model) != len(lines) or len(spec) != len(lines):
        ck.broke("model driver did not answer every line", "%d %d / %d" % (len(model), len(spec), len(lines)))
        return
    for a, b, kind, sound in spans:
        world = [l for l in lines[a:b] if not l.startswith("select")]
        # object worlds: well-formed layout => the listed statistics must be sound (direct monitor on the real lister)
        objs = {}
        for l in world:
            f = l.split()
            if f[0] == "obj" and f[4] == "kim":
                objs[(int(f[1]), int(f[2]), int(f[3]))] = [tuple(int(x) for x in r.split(":")) for r in f[6].split(",")] if f[6] != "-" else []
        for i in range(a, b):
            l, io, mo, so = lines[i], impl[i], model[i], spec[i]
            if l.startswith("list "):
                ck.count("listings")
                bad = stats_sound(io, objs) if io.startswith("list") else "lister failed: " + io
                if bad:
                    ck.violation("listed-statistics-unsound", "the S3 lister's statistics do not bound the segment's records: " + bad,
                                 {"lines": world, "actual": io})
                if io != mo:
                    ck.cov["disagreements_checked"] += 1
                    ck.broke("correspondence model/implementation (s3Lister.ListCompleted + time index)",
                             "world:\n%s\nimpl : %s\nmodel: %s" % ("\n".join(world), io, mo))
                    return
                continue
            if not l.startswith("select "):
                if io != mo:
                    ck.broke("correspondence model/implementation (harness protocol)", "%s: %s vs %s" % (l, io, mo))
                    return
                continue
            ri, rm, rs = rows_of(io), rows_of(mo), rows_of(so)
            ck.count(kind + "_queries")
            ck.count("rows_returned", len(ri or []))
            total = sum(len(x.split()[-1].split(",")) for x in world if x.split()[0] in ("seg", "obj") and x.split()[-1] != "-")
            ck.case((tuple(world), l), nontrivial=bool(ri) and len(ri) < total, sample={"world": world[:6], "query": l, "impl": io[:160]})
            ck.cov["traces_validated_against_impl"] += 1
            if io == "panic":
                ck.violation("select-panics", "handleSelect panicked", {"lines": world + [l], "actual": io})
                continue
            if sound and not same_rows(l, ri, rs):
                ck.violation("select-differs-from-direct-filtering",
                             "rows differ from filtering the topic's records directly: %s" % l,
                             {"lines": world + [l], "expected": so, "actual": io})
                continue
            if not same_rows(l, ri, rm):
                ck.cov["disagreements_checked"] += 1
                ck.broke("correspondence model/implementation (Server.handleSelect)",
                         "world:\n%s\nquery: %s\nimpl : %s\nmodel: %s" % ("\n".join(world), l, io, mo))
                return


def replay(ck, path):
    rep = json.load(open(path))
    bins = ck.build_all()
    if bins is None:
        return
    lines = rep["lines"]
    impl, crash = run_lines(ck, bins["h"], lines, "replay")
    if crash:
        ck.broke("implementation harness did not answer", crash)
        return
    sfn = ck.path("spec_in.txt")
    open(sfn, "w").write("\n".join(("direct" + l[6:]) if l.startswith("select ") else l for l in lines) + "\n")
    spec = ck.lean_run("C36", sfn)
    objs = {}
    for l in lines:
        f = l.split()
        if f[0] == "obj" and f[4] == "kim":
            objs[(int(f[1]), int(f[2]), int(f[3]))] = [tuple(int(x) for x in r.split(":")) for r in f[6].split(",")] if f[6] != "-" else []
    for l, io, so in zip(lines, impl, spec):
        print("  %s -> %s" % (l[:90], io[:120]))
        if l.startswith("list "):
            bad = stats_sound(io, objs) if io.startswith("list") else "lister failed"
            if bad:
                ck.violation("listed-statistics-unsound", bad, {"lines": lines, "actual": io})
        if l.startswith("select "):
            ck.case((tuple(lines), l), sample={"query": l, "impl": io[:160]})
            if not same_rows(l, rows_of(io), rows_of(so)):
                ck.violation("select-differs-from-direct-filtering", "rows differ from direct filtering: %s" % l,
                             {"lines": lines, "expected": so, "actual": io})
    ck.cov["distinct_nontrivial"] = max(ck.cov["distinct_nontrivial"], 2)
