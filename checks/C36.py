"""C36 — SQL results equal direct filtering of the topic's records."""
import json

from checks import lib

PROPERTY = "C36"
LEAN_MODULES = ["KafVerif.Props.C36"]
OBLIGATIONS = [
    "KafVerif.C36.skip_sound",
    "KafVerif.C36.select_eq_direct",
    "KafVerif.C36.discovery_offsets_sound",
    "KafVerif.C36.scan_sound",
    "KafVerif.C36.overlap_unsound",
    "KafVerif.C36.listing_sound",
    "KafVerif.C36.select_over_listing",
    "KafVerif.C36.selectF_ok_eq_select",
    "KafVerif.C36.select_ok_eq_direct",
    "KafVerif.C36.selectF_clean",
    "KafVerif.C36.selectF_err_of_candidate_fault",
    "KafVerif.C36.cached_ok_eq_direct",
    "KafVerif.C36.select_ok_over_listing",
    "KafVerif.C36.listing_sound_faults",
    "KafVerif.C36.select_ok_over_faulted_listing",
]
BUILDS = {"h": ("sql", "./cmd/verif_c36", ["C36"])}
TECHNIQUE = ("Lean 4 refinement proof (record loop of handleSelect = direct filtering) + differential correspondence through "
             "the real Server.handleSelect and the real s3Lister/TimeIndexBuilder on an in-process S3 + spec monitor")
LEVEL_TEXT = ("proof: select_eq_direct — for every segment list whose present statistics are sound (each of min/max offset and "
              "min/max timestamp independently present or absent) and every query (partition, offset and time bounds, LIMIT "
              "with early stop, TAIL ring, ORDER BY _ts ASC/DESC with cut) the rows sent by the modelled handleSelect equal "
              "the filters/limit/tail/order applied directly to all records of the topic's segments; skip_sound — a dropped "
              "segment holds no matching record; discovery_offsets_sound / scan_sound — MinOffset = base, MaxOffset = next "
              "base - 1 and the .kfst footer are sound for logs whose offsets lie in [base, next base); overlap_unsound — "
              "the cross-reference to C02; listing_sound / select_over_listing — for every well-formed S3 object set (distinct "
              "bases per partition, offsets in [base, any later base)) every reference the modelled ListCompleted returns "
              "(sort, next-segment lookup, footer enrichment, with or without the time index) has sound statistics, hence a "
              "SELECT over the real listing equals direct filtering. Faults: select_ok_eq_direct — for EVERY fault oracle (the listing "
              "fails; the context is cancelled or Decode fails at any set of listing positions) a query that completes returns "
              "exactly the direct filtering of ALL the topic's records (a fault can only turn the answer into an error); "
              "selectF_clean — faults that hit no candidate segment do not fail the query; selectF_err_of_candidate_fault — an "
              "ORDER BY / TAIL query fails when any candidate segment faults; cached_ok_eq_direct — for every history of queries, "
              "each under its own fault oracle, through the modelled handleSelectWithCache (lookup by text, store only on "
              "success; any sound starting cache), every answer that completes, computed or cached, equals direct filtering; "
              "listing_sound_faults / select_ok_over_faulted_listing — the same over a listing taken while the .kfst read of "
              "any subset of the segments fails (enrich leaves those references without footer statistics). Tie: generated segment sets x queries through the real handleSelect (DataRow "
              "messages decoded) and, for S3 object sets, through the real s3Lister.ListCompleted, TimeIndexBuilder.Build and "
              "timeIndexReader over an in-process S3 endpoint; rows and listed statistics are diffed with the model and the "
              "rows are checked against the Lean `direct` specification. Every select runs through the real "
              "handleSelectWithCache of one Server per world (result cache on); a third of the queries carry a fault script "
              "(lister error, Decode error / context cancellation per listing position) that the scripted lister/decoder and "
              "the Lean driver both follow — ok/err and rows are diffed, and the monitor asserts `err (only under a fault) or "
              "exactly the direct result`, also for the un-faulted repeats that follow a faulted query. A further stream "
              "faults the S3 endpoint itself (ListObjectsV2, footer-magic probe, .kfst read, manifest read) under the real "
              "discovery.New stack: monitor only.")
LEVEL_NOTE = ("S3-level faults of the lister stack other than the .kfst read (ListObjectsV2, footer probe, manifest read; faults "
              "that come and go between queries) are checked by the monitor only (not modelled); a failed footer-magic probe makes "
              "the unchanged s3Lister drop the segment silently (reported as an observation / proposed finding, see notes). "
              "sort.Slice is unstable: rows with "
              "equal _ts are compared as a multiset (the last tie group of a cut result by size). Aggregates, joins, LAST (wall "
              "clock) and the manifest lister are outside this check. buildRowValues is not modelled (a row is identified by "
              "segment, partition, offset, timestamp).")
ASSUMPTIONS = [
    "Decode returns records that carry the segment's partition (PartitionSound) — broker-written segments do",
    "statistics soundness for manifests / stale footers is an input hypothesis (StatsSound); for the S3 lister it is proved from offsets in [base, next base)",
    "DefaultLimit = 1000 > 0 (the code falls back to it for non-positive limits)",
    "a fault of Decode / the context / the lister is an error return at that call (the fakes return an error and no data); backend write errors are not injected",
    "result cache: TTL and eviction only remove entries (the theorem holds from any sound cache); ResultCache.MaxRows truncation is not reached",
]
PROBE_FP = "footer-probe-error-drops-segment"
PROBE_WHAT = ("C36: s3Lister.ListCompleted treats an ERROR of the footer-magic probe (ranged GetObject bytes=-4 of a .kfs) like "
              "'not completed': the segment is dropped from the listing without an error, so a SELECT during the fault - and, "
              "with the discovery cache (default TTL) on, every SELECT until the cached listing expires - completes with "
              "`SELECT n` missing all rows of that segment")
DEFAULT_SEED = 36


def opt(v):
    return "-" if v is None else str(v)


def gen_partition(rng, nseg):
    """(base, [(off, ts)]) per segment: contiguous offsets, noisy timestamps."""
    segs, o, ts = [], (0 if rng.chance(3, 4) else rng.range(1, 50)), rng.range(0, 100)
    for _ in range(nseg):
        base = o
        n = rng.choice([0, 1, 2, 3, 4, 5]) if rng.chance(1, 5) else rng.range(1, 5)
        recs = []
        for _ in range(n):
            ts += rng.choice([0, 0, 1, 2, 5, -3])
            recs.append((o, max(ts, 0)))
            o += 1 if rng.chance(6, 7) else rng.range(2, 4)
        if n == 0:
            o += rng.range(1, 3)
        segs.append((base, recs))
    return segs


def gen_world_explicit(rng, sound=True):
    lines = ["reset"]
    info = []          # (topic, part, recs) per segment
    for topic in range(rng.range(1, 2)):
        for part in range(rng.range(1, 3)):
            for base, recs in gen_partition(rng, rng.range(1, 4)):
                offs = [r[0] for r in recs] or [base]
                tss = [r[1] for r in recs] or [0]
                lo, hi, tlo, thi = min(offs), max(offs), min(tss), max(tss)
                if not sound and rng.chance(1, 2):
                    lo, hi, tlo, thi = lo + rng.range(0, 2), hi - rng.range(0, 2), tlo + rng.range(0, 3), thi - rng.range(0, 3)
                st = [lo - rng.choice([0, 0, 1, 5]), hi + rng.choice([0, 0, 1, 5]), tlo - rng.choice([0, 0, 2]), thi + rng.choice([0, 0, 2])]
                st = [v if rng.chance(2, 3) else None for v in st]
                if rng.chance(1, 4):
                    st[2] = st[3] = None          # no timestamp statistics at all (time index not built yet)
                # upload time of the object: unrelated to the producer-supplied record timestamps — before, between,
                # after them, or the zero time
                lm = rng.choice([None, tlo - rng.range(1, 5), tlo, (tlo + thi) // 2, thi, thi + rng.range(1, 5)])
                lm = None if lm is None else max(lm, 1)
                lines.append("seg %d %d %s %s %s %s %s %s" % (topic, part, opt(st[0]), opt(st[1]), opt(st[2]), opt(st[3]), opt(lm),
                                                              ",".join("%d:%d" % r for r in recs) or "-"))
                info.append((topic, part, recs))
    if rng.chance(1, 3):   # interleave listing order a bit (the server does not rely on it)
        head, body = lines[:1], lines[1:]
        i, j = rng.below(len(body)), rng.below(len(body))
        body[i], body[j] = body[j], body[i]
        info[i], info[j] = info[j], info[i]
        lines = head + body
    return lines, info


def gen_world_objects(rng):
    lines = ["reset"]
    info = []
    for topic in range(rng.range(1, 2)):
        for part in range(rng.range(1, 3)):
            for base, recs in gen_partition(rng, rng.range(1, 4)):
                flags = "kim" if rng.chance(5, 6) else rng.choice(["ki", "km", "im", "k"])
                tss = [r[1] for r in recs] or [10]
                lm = rng.choice([None, min(tss) - 2, min(tss), (min(tss) + max(tss)) // 2, max(tss) + 3])
                lm = None if lm is None else max(lm, 1)
                lines.append("obj %d %d %d %s %s %s" % (topic, part, base, flags, opt(lm), ",".join("%d:%d" % r for r in recs) or "-"))
                if flags == "kim":
                    info.append((topic, part, recs))
    # the real lister stack of discovery.New: time index on/off, manifest lister on/off, listing cache TTL (0 = off)
    ti, man, ttl = (1 if rng.chance(1, 2) else 0), (1 if rng.chance(1, 3) else 0), rng.choice([60, 60, 0])
    lst = "list %d %d %d" % (ti, man, ttl)
    kim = [l.split() for l in lines[1:] if l.split()[4] == "kim"]
    if ti and not man and ttl and kim and rng.chance(1, 2):
        # the .kfst read of one or two segments fails while the listing cache is filled: those references stay without
        # footer statistics for every later query (modelled: listCompletedT)
        ks = ["t:t%s/%s/segment-%s.kfst" % tuple(rng.choice(kim)[1:4]) for _ in range(rng.range(1, 2))]
        lines += ["s3fault " + ",".join(sorted(set(ks))), lst, "s3fault -"]
    else:
        lines.append(lst)
    return lines, info


def gen_faults(rng, nseg):
    """fault script of one query: listing error, Decode error / cancellation at listing positions (one past the end:
    never manifests)"""
    items = []
    if rng.chance(1, 8):
        items.append("l")
        if rng.chance(1, 2):
            return "l"
    for _ in range(1 if rng.chance(2, 3) else 2):
        items.append(("c" if rng.chance(1, 6) else "d") + str(rng.below(nseg + 1)))
    return ".".join(items)


def gen_queries(rng, info, n, faults=True):
    out = []
    nseg = len(info)
    offs = sorted({r[0] for _, _, recs in info for r in recs}) or [0]
    tss = sorted({r[1] for _, _, recs in info for r in recs}) or [0]
    parts = sorted({p for _, p, _ in info}) or [0]

    def around(vals):
        v = rng.choice(vals)
        return v + rng.choice([-1, 0, 0, 1])
    for _ in range(n):
        topic = rng.choice([0, 0, 0, 1, 2])
        part = rng.choice(parts + [3]) if rng.chance(1, 3) else None
        omin = around(offs) if rng.chance(1, 3) else None
        omax = around(offs) if rng.chance(1, 3) else None
        tmin = around(tss) if rng.chance(1, 3) else None
        tmax = around(tss) if rng.chance(1, 3) else None
        mode = rng.below(4)
        window = rng.chance(1, 4)
        if window:                            # both time bounds, no TAIL: the result cache stores / serves it
            tmin = min(tss) - rng.choice([0, 1, 5]) if rng.chance(1, 2) else around(tss)
            tmax = max(tss) + rng.choice([0, 1, 5]) if rng.chance(1, 2) else around(tss)
            if mode == 1:
                mode = 0
        if tmin is not None and tmax is not None and tmax < tmin:
            tmin, tmax = tmax, tmin          # "time window is invalid" otherwise
        limit = rng.choice([None, 1, 2, 3, 5, 0, -1, 1000]) if rng.chance(1, 2) else None
        tail, order = None, "-"
        if mode == 1:
            tail = rng.choice([1, 2, 3, 10, 0])
        elif mode == 2:
            order = rng.choice(["asc", "desc"])
        q = "select %d part=%s omin=%s omax=%s tmin=%s tmax=%s limit=%s tail=%s order=%s" % (
            topic, opt(part), opt(omin), opt(omax), opt(tmin), opt(tmax), opt(limit), opt(tail), order)
        if faults and rng.chance(1, 3):
            # faulted, then the same query clean (must be exact: nothing of the failed attempt may stick), then
            # faulted elsewhere (a cached result is served without touching the segments)
            out.append(q + " fault=" + gen_faults(rng, nseg))
            if rng.chance(2, 3):
                out.append(q)
                if rng.chance(1, 2):
                    out.append(q + " fault=" + gen_faults(rng, nseg))
            continue
        out.append(q)
        if rng.chance(1, 2):
            out.append(out[-1])            # the same query again: listing caches (cachedLister, manifest TTL) are hit
    return out


def gen_world_s3faults(rng):
    """an object world whose S3 endpoint itself fails (HTTP 403) during the first listing and/or around single
    queries; checked by the monitor only. Footer-probe faults get worlds of their own."""
    lines, info, keys = ["reset"], [], []
    for part in range(rng.range(1, 2)):
        for base, recs in gen_partition(rng, rng.range(2, 4)):
            lines.append("obj 0 %d %d kim %s %s" % (part, base, opt(rng.choice([None, 5, 1000])), ",".join("%d:%d" % r for r in recs) or "-"))
            info.append((0, part, recs))
            keys.append("t0/%d/segment-%d" % (part, base))
    probe = rng.chance(1, 3)

    def fault():
        k = rng.choice(keys)
        if probe:
            return "p:%s.kfs" % k
        return rng.choice(["L", "t:%s.kfst" % k, "t:%s.kfst" % k, "g:manifest.json", "L,t:%s.kfst" % k, "g:manifest.json,t:%s.kfst" % k])
    lst = "list %d %d %d" % (1 if rng.chance(2, 3) else 0, 1 if rng.chance(1, 4) else 0, rng.choice([0, 0, 60]))
    if rng.chance(1, 2):
        lines += ["s3fault " + fault(), lst, "s3fault -"]      # the cache miss of the listing caches runs under the fault
    else:
        lines.append(lst)
    for q in gen_queries(rng, info, 6, faults=False):
        if rng.chance(1, 2):
            lines += ["s3fault " + fault(), q, "s3fault -", q]
        else:
            lines.append(q)
    return lines, probe


def rows_of(line):
    if not line.startswith("rows "):
        return None
    body = line[5:]
    return [] if body == "-" else [tuple(int(x) for x in r.split(":")) for r in body.split(",")]


def fault_of(sel_line):
    f = sel_line.split()
    return f[10][6:] if len(f) == 11 and f[10].startswith("fault=") and f[10] != "fault=-" else None


def same_rows(sel_line, a, b):
    """Row lists equal; for ORDER BY, rows with equal _ts compare as a multiset (sort.Slice is unstable) and the
    last tie group of a cut result by its size."""
    if a is None or b is None:
        return a == b
    if "order=-" in sel_line:
        return a == b
    if len(a) != len(b) or [r[3] for r in a] != [r[3] for r in b]:
        return False
    last = a[-1][3] if a else None
    ga = sorted(r for r in a if r[3] != last)
    gb = sorted(r for r in b if r[3] != last)
    return ga == gb


def stats_sound(list_line, info_by_key):
    """Direct monitor on the real lister's output: the listed statistics bound the segment's records."""
    if list_line == "list -":
        return None
    for ent in list_line[5:].split(";"):
        t, p, base, mn, mx, tmn, tmx, _lm = ent.split("/")
        recs = info_by_key.get((int(t), int(p), int(base)), [])
        for off, ts in recs:
            if (mn != "-" and off < int(mn)) or (mx != "-" and off > int(mx)) or (tmn != "-" and ts < int(tmn)) or (tmx != "-" and ts > int(tmx)):
                return "segment %s/%s base %s listed with offsets [%s,%s] ts [%s,%s] holds record offset=%d ts=%d" % (t, p, base, mn, mx, tmn, tmx, off, ts)
    return None


def run_lines(ck, binary, lines, tag):
    fn = ck.path("ops_%s.txt" % tag)
    open(fn, "w").write("\n".join(lines) + "\n")
    rc, out, err = ck.run_bin(binary, stdin_path=fn, timeout=300)
    impl = out.split("\n")[:-1]
    if rc != 0 or len(impl) != len(lines):
        return None, "rc=%s lines=%d/%d %s" % (rc, len(impl), len(lines), err[-800:])
    return impl, None


CORPUS = [
    # boundary: omin equals a segment's MaxOffset, omax equals the next MinOffset; tie at the ORDER BY cut
    ["reset", "seg 0 0 0 2 10 12 - 0:10,1:12,2:11", "seg 0 0 3 - - - 20 3:12,4:13", "seg 0 1 - - - 50 - 0:50", "seg 1 0 0 - - - - 0:1",
     "select 0 part=- omin=2 omax=- tmin=- tmax=- limit=- tail=- order=-",
     "select 0 part=- omin=- omax=3 tmin=- tmax=- limit=- tail=- order=-",
     "select 0 part=- omin=- omax=2 tmin=- tmax=- limit=- tail=- order=-",
     "select 0 part=0 omin=- omax=- tmin=12 tmax=12 limit=- tail=- order=-",
     "select 0 part=- omin=- omax=- tmin=- tmax=- limit=2 tail=- order=-",
     "select 0 part=- omin=- omax=- tmin=- tmax=- limit=- tail=2 order=-",
     "select 0 part=- omin=- omax=- tmin=- tmax=- limit=3 tail=- order=desc",
     "select 0 part=- omin=- omax=- tmin=- tmax=- limit=1 tail=- order=asc",
     "select 0 part=1 omin=- omax=- tmin=- tmax=50 limit=- tail=- order=-",
     "select 0 part=- omin=5 omax=- tmin=- tmax=- limit=- tail=- order=-"],
    # a segment without timestamp statistics, uploaded (LastModified 5) before its records' producer timestamps (10, 12):
    # a lower time bound between the two must not skip it
    ["reset", "seg 0 0 - - - - 5 0:10,1:12", "seg 0 0 2 - - - 11 2:12,3:30",
     "select 0 part=- omin=- omax=- tmin=11 tmax=- limit=- tail=- order=-",
     "select 0 part=- omin=- omax=- tmin=6 tmax=- limit=- tail=- order=-",
     "select 0 part=- omin=- omax=- tmin=13 tmax=40 limit=- tail=- order=-"],
    ["reset", "obj 0 0 0 kim 50 0:10,1:12,2:11", "obj 0 0 3 kim - 3:12,4:13", "obj 0 1 0 kim 5 0:50", "obj 1 0 0 ki - 0:1",
     "obj 1 0 5 km - 5:1", "obj 1 1 7 kim - -", "list 1 0 60",
     "select 0 part=- omin=2 omax=2 tmin=- tmax=- limit=- tail=- order=-",
     "select 0 part=- omin=4 omax=- tmin=- tmax=- limit=- tail=- order=-",
     "select 0 part=- omin=4 omax=- tmin=- tmax=- limit=- tail=- order=-",
     "select 0 part=- omin=- omax=- tmin=13 tmax=13 limit=- tail=- order=-",
     "select 0 part=- omin=- omax=- tmin=10 tmax=10 limit=- tail=- order=-"],
    # listing cache on, no time index: the second identical query is served from the cached (cloned) listing
    ["reset", "obj 0 0 0 kim 5 0:10,1:12,2:14,3:15", "obj 0 0 4 kim 7 4:16,5:17,6:18", "list 0 0 60",
     "select 0 part=- omin=2 omax=- tmin=- tmax=- limit=- tail=- order=-",
     "select 0 part=- omin=2 omax=- tmin=- tmax=- limit=- tail=- order=-",
     "select 0 part=- omin=- omax=- tmin=13 tmax=- limit=- tail=- order=-",
     "select 0 part=- omin=1 omax=2 tmin=- tmax=- limit=- tail=- order=-"],
    ["reset", "obj 0 0 0 kim 5 0:10,1:12,2:14,3:15", "obj 0 0 4 kim 7 4:16,5:17,6:18", "list 1 1 60",
     "select 0 part=- omin=2 omax=- tmin=- tmax=- limit=- tail=- order=-",
     "select 0 part=- omin=2 omax=- tmin=- tmax=- limit=- tail=- order=-",
     "select 0 part=- omin=5 omax=- tmin=17 tmax=- limit=- tail=- order=-"],
    # faults: Decode of segment 1 fails -> error (never the rows of the other segments); LIMIT 2 stops before it; partition 1
    # never touches it; listing error; cancellation; then the result cache: faulted (nothing stored), clean (stored), faulted
    # on another segment (served from the cache), ORDER BY / TAIL over a faulted candidate
    ["reset", "seg 0 0 0 2 10 12 - 0:10,1:12,2:11", "seg 0 0 3 - - - 20 3:12,4:13", "seg 0 1 - - - 50 - 0:50",
     "select 0 part=- omin=- omax=- tmin=- tmax=- limit=- tail=- order=- fault=d1",
     "select 0 part=- omin=- omax=- tmin=- tmax=- limit=- tail=- order=-",
     "select 0 part=- omin=- omax=- tmin=- tmax=- limit=2 tail=- order=- fault=d1",
     "select 0 part=1 omin=- omax=- tmin=- tmax=- limit=- tail=- order=- fault=d1.d0",
     "select 0 part=- omin=- omax=- tmin=- tmax=- limit=- tail=- order=- fault=l",
     "select 0 part=- omin=- omax=- tmin=- tmax=- limit=- tail=- order=- fault=c2",
     "select 0 part=- omin=- omax=- tmin=10 tmax=13 limit=- tail=- order=- fault=d1",
     "select 0 part=- omin=- omax=- tmin=10 tmax=13 limit=- tail=- order=-",
     "select 0 part=- omin=- omax=- tmin=10 tmax=13 limit=- tail=- order=- fault=d0",
     "select 0 part=- omin=- omax=- tmin=10 tmax=13 limit=- tail=- order=- fault=l",
     "select 0 part=- omin=- omax=- tmin=- tmax=- limit=- tail=2 order=- fault=d0",
     "select 0 part=- omin=- omax=- tmin=- tmax=- limit=- tail=2 order=-",
     "select 0 part=- omin=- omax=- tmin=10 tmax=50 limit=2 tail=- order=desc fault=d2",
     "select 0 part=- omin=- omax=- tmin=10 tmax=50 limit=2 tail=- order=desc",
     "select 0 part=- omin=4 omax=- tmin=- tmax=- limit=- tail=- order=- fault=d0",
     "select 0 part=- omin=- omax=- tmin=- tmax=- limit=- tail=- order=- fault=d7"],
    # the same through the real lister stack (listing cache on, time index on)
    ["reset", "obj 0 0 0 kim 5 0:10,1:12,2:14,3:15", "obj 0 0 4 kim 7 4:16,5:17,6:18", "obj 0 0 7 kim 7 7:19", "list 1 0 60",
     "select 0 part=- omin=- omax=- tmin=10 tmax=20 limit=- tail=- order=- fault=d1",
     "select 0 part=- omin=- omax=- tmin=10 tmax=20 limit=- tail=- order=-",
     "select 0 part=- omin=- omax=- tmin=10 tmax=20 limit=- tail=- order=- fault=d2",
     "select 0 part=- omin=- omax=- tmin=17 tmax=- limit=- tail=- order=- fault=d0",
     "select 0 part=- omin=- omax=- tmin=17 tmax=- limit=- tail=- order=- fault=c1",
     "select 0 part=- omin=- omax=- tmin=17 tmax=- limit=- tail=- order=-"],
    # the .kfst read of segment 0 fails while the listing cache is filled: no footer statistics for it, nothing lost
    ["reset", "obj 0 0 0 kim 5 0:10,1:12,2:14,3:15", "obj 0 0 4 kim 7 4:16,5:17,6:18", "s3fault t:t0/0/segment-0.kfst", "list 1 0 60",
     "s3fault -", "select 0 part=- omin=- omax=- tmin=15 tmax=16 limit=- tail=- order=-",
     "select 0 part=- omin=- omax=- tmin=16 tmax=- limit=- tail=- order=- fault=d0",
     "select 0 part=- omin=- omax=- tmin=- tmax=11 limit=- tail=- order=- fault=d1"],
]

# S3-level faults under the real discovery.New stack (monitor only); the third element of a world = footer-probe faults
CORPUS_S3 = [
    ["reset", "obj 0 0 0 kim 5 0:10,1:12,2:14,3:15", "obj 0 0 4 kim 7 4:16,5:17,6:18", "obj 0 0 7 kim 7 7:19", "list 1 0 0",
     "s3fault t:t0/0/segment-4.kfst", "select 0 part=- omin=- omax=- tmin=17 tmax=- limit=- tail=- order=-",
     "s3fault L", "select 0 part=- omin=- omax=- tmin=17 tmax=- limit=- tail=- order=-",
     "s3fault -", "select 0 part=- omin=- omax=- tmin=17 tmax=- limit=- tail=- order=-"],
    ["reset", "obj 0 0 0 kim 5 0:10,1:12,2:14,3:15", "obj 0 0 4 kim 7 4:16,5:17,6:18", "s3fault L,t:t0/0/segment-0.kfst", "list 1 0 60",
     "s3fault -", "select 0 part=- omin=- omax=- tmin=12 tmax=16 limit=- tail=- order=-",
     "select 0 part=- omin=- omax=- tmin=12 tmax=16 limit=- tail=- order=-"],
    ["reset", "obj 0 0 0 kim 5 0:10,1:12,2:14,3:15", "obj 0 0 4 kim 7 4:16,5:17,6:18", "s3fault g:manifest.json,t:t0/0/segment-4.kfst",
     "list 1 1 60", "s3fault -", "select 0 part=- omin=5 omax=- tmin=- tmax=- limit=- tail=- order=-"],
]


def lean_both(ck, lines, tag):
    """one interpreter run: every `select` line is followed by its `direct` (specification) twin"""
    mfn = ck.path("model_in_%s.txt" % tag)
    both = []
    for l in lines:
        both.append(l)
        if l.startswith("select "):
            both.append("direct" + l[6:])
    open(mfn, "w").write("\n".join(both) + "\n")
    outb = ck.lean_run("C36", mfn)
    model, spec, it = [], [], iter(outb)
    for l in lines:
        m = next(it, None)
        model.append(m)
        spec.append(next(it, None) if l.startswith("select ") else m)
    return model, spec


def objects_of(world):
    objs = {}
    for l in world:
        f = l.split()
        if f[0] == "obj" and f[4] == "kim":
            objs[(int(f[1]), int(f[2]), int(f[3]))] = [tuple(int(x) for x in r.split(":")) for r in f[6].split(",")] if f[6] != "-" else []
    return objs


def no_seg(rows):
    return None if rows is None else [(0,) + tuple(r[1:]) for r in rows]


def probe_finding(ck, what, replay):
    """the unchanged lister drops a segment whose footer probe failed (proposed finding, notes/C36.md): reported as a
    KNOWN-FINDING once it is registered in known_findings.json, as an observation until then"""
    if any(k.get("status", "open") == "open" and k.get("property") == PROPERTY and k.get("fingerprint") == PROBE_FP for k in ck.known):
        ck.violation(PROBE_FP, what, replay)
        return
    ck.count("observed_footer_probe_fault_partial_results")
    note = "observation (proposed finding %s, not registered): %s" % (PROBE_FP, PROBE_WHAT)
    if note not in ck.notes:
        ck.notes.append(note)


def judge_s3faults(ck, lines, impl, spec, probe):
    """S3-level faults under the real discovery.New stack — monitor only: a query under an armed fault fails or returns
    exactly the direct result of ALL completed objects; a query with no fault armed returns exactly that, whatever
    happened before (listing caches, result cache)."""
    world = [l for l in lines if not l.startswith("select")]
    objs = objects_of(world)
    armed = False
    for i, (l, io, so) in enumerate(zip(lines, impl, spec)):
        f = l.split()
        if f[0] == "s3fault":
            armed = f[1] != "-"
            continue
        hist = {"lines": lines[:i + 1], "kind": "s3faults", "probe": probe}
        if f[0] == "list":
            ck.count("listings_under_s3_fault" if armed else "listings")
            if io.startswith("list"):
                bad = stats_sound(io, objs)
                if bad:
                    ck.violation("listed-statistics-unsound", "the S3 lister's statistics do not bound the segment's records: " + bad,
                                 dict(hist, actual=io))
            elif not (armed and io == "err-list"):
                ck.violation("lister-fails-without-fault", "the lister stack failed (%s) with no fault armed" % io, dict(hist, actual=io))
            continue
        if f[0] != "select":
            continue
        ck.count("s3fault_queries" + ("_armed" if armed else ""))
        ri, rs = no_seg(rows_of(io)), no_seg(rows_of(so))
        ck.case((tuple(lines[:i]), l), nontrivial=bool(ri), sample={"world": world[:6], "query": l, "impl": io[:160]})
        ck.cov["traces_validated_against_impl"] += 1
        if io == "err" and armed:
            ck.count("queries_failed_by_fault")
            continue
        if io == "panic":
            ck.violation("select-panics", "handleSelect panicked", dict(hist, actual=io))
        elif io == "err":
            ck.violation("select-fails-without-fault", "the query failed although no fault was armed: %s" % l, dict(hist, expected=so, actual=io))
        elif ri is None:
            ck.violation("command-tag-miscounts-rows", "%s: %s" % (l, io), dict(hist, actual=io))
        elif not same_rows(l, ri, rs):
            what = "a completed query differs from filtering the records of all completed objects directly (S3 fault %s): %s" % (
                "armed" if armed else "over", l)
            if probe:
                probe_finding(ck, what, dict(hist, expected=so, actual=io))
            else:
                ck.violation("select-differs-from-direct-filtering", what, dict(hist, expected=so, actual=io))


def judge(ck, lines, impl, model, spec, kind, sound, corr=True):
    """one world (reset … selects): direct monitors + correspondence (unless corr is False: it already broke in an earlier
    world; the monitors still look for a concrete failing input). Returns False when the correspondence broke."""
    world = [l for l in lines if not l.startswith("select")]
    # object worlds: well-formed layout => the listed statistics must be sound (direct monitor on the real lister)
    objs = objects_of(world)
    for i, (l, io, mo, so) in enumerate(zip(lines, impl, model, spec)):
        # the history matters (result cache, listing caches): a replay holds every line up to the failing one
        hist = {"lines": lines[:i + 1], "kind": kind, "sound": sound}
        if l.startswith("list "):
            ck.count("listings")
            bad = stats_sound(io, objs) if io.startswith("list") else "lister failed: " + io
            if bad:
                ck.violation("listed-statistics-unsound", "the S3 lister's statistics do not bound the segment's records: " + bad,
                             dict(hist, actual=io))
            if corr and io != mo:
                ck.cov["disagreements_checked"] += 1
                ck.broke("correspondence model/implementation (s3Lister.ListCompleted + time index)",
                         "world:\n%s\nimpl : %s\nmodel: %s" % ("\n".join(world), io, mo))
                return False
            continue
        if not l.startswith("select "):
            if corr and io != mo:
                ck.broke("correspondence model/implementation (harness protocol)", "%s: %s vs %s" % (l, io, mo))
                return False
            continue
        fault = fault_of(l)
        ri, rm, rs = rows_of(io), rows_of(mo), rows_of(so)
        ck.count(kind + "_queries")
        ck.count("rows_returned", len(ri or []))
        if fault:
            ck.count("queries_with_fault_script")
            ck.count("fault_outcome_" + ("err" if io == "err" else "completed"))
        total = sum(len(x.split()[-1].split(",")) for x in world if x.split()[0] in ("seg", "obj") and x.split()[-1] != "-")
        ck.case((tuple(lines[:i]), l), nontrivial=(bool(ri) and len(ri) < total) or (bool(fault) and io == "err" and bool(rs)),
                sample={"world": world[:6], "query": l, "impl": io[:160]})
        ck.cov["traces_validated_against_impl"] += 1
        if io == "panic":
            ck.violation("select-panics", "handleSelect panicked", dict(hist, actual=io))
            continue
        if io.startswith("tag-mismatch"):
            ck.violation("command-tag-miscounts-rows", "%s: %s" % (l, io), dict(hist, actual=io))
            continue
        # direct monitor: a query fails (only when a fault was injected into it) or returns exactly the direct result
        if sound and not (io == "err" and fault):
            if io == "err":
                ck.violation("select-fails-without-fault", "the query failed although no fault was injected: %s" % l,
                             dict(hist, expected=so, actual=io))
                continue
            if not same_rows(l, ri, rs):
                # a cacheable query that repeats the wrong rows of an earlier faulted attempt of the same text: the failed
                # attempt was stored (result cache) instead of being dropped
                f10 = l.split()[:10]
                cacheable = "tail=-" in f10 and "tmin=-" not in f10 and "tmax=-" not in f10
                poisoned = cacheable and not fault and any(
                    x.split()[:10] == f10 and fault_of(x) and impl[j] == io for j, x in enumerate(lines[:i]) if x.startswith("select "))
                ck.violation("faulted-query-poisons-later-query" if poisoned else "select-differs-from-direct-filtering",
                             "a completed query's rows differ from filtering the topic's records directly%s: %s" % (
                                 " (fault script %s: the answer must be an error or the full result)" % fault if fault else "", l),
                             dict(hist, expected=so, actual=io))
                continue
        if corr and ((io == "err") != (mo == "err") or not same_rows(l, ri, rm)):
            ck.cov["disagreements_checked"] += 1
            ck.broke("correspondence model/implementation (Server.handleSelectWithCache / handleSelect)",
                     "world:\n%s\nquery: %s\nimpl : %s\nmodel: %s" % ("\n".join(lines[:i]), l, io, mo))
            return False
    return True


def run(ck):
    bins = ck.build_all()
    if bins is None:
        return
    binary = bins["h"]
    quick = ck.quick()
    ck.cov["rule"] = ("worlds = 1-2 topics x 1-3 partitions x 1-4 segments (contiguous offsets, gaps, empty segments, noisy "
                      "timestamps); statistics explicit (each of the four present/absent, tight or slack; a separate unsound "
                      "stream for correspondence only; segments without timestamp statistics carry a LastModified before / between / "
                      "after their record timestamps) or derived by the real discovery.New lister stack (s3Lister, time index, "
                      "manifest lister, cachedLister with TTL 60 s or off) over an in-process S3 endpoint from object sets with "
                      "incomplete segments; ~12 queries per world through the real handleSelectWithCache (one Server and result cache "
                      "per world), bounds at and next to every offset / timestamp, LIMIT/TAIL/ORDER BY, a quarter with both time "
                      "bounds (result-cacheable); a third carry a fault script (lister error; Decode error / context cancellation at "
                      "1-2 listing positions incl. skipped, unreached and non-existent ones) and are followed by the same query "
                      "clean and then faulted elsewhere; other queries are issued twice so that listing caches are hit; a fifth "
                      "of the worlds fault the S3 endpoint (ListObjectsV2, footer probe, .kfst read, manifest read) during the "
                      "first listing or around single queries (monitor only); non-trivial = at least one segment skipped or one "
                      "row filtered and at least one row returned, or a query failed by its fault that has rows to lose; "
                      "distinct = distinct (history, query) texts")
    worlds = []
    for c in CORPUS:
        worlds.append(("corpus", c, True))
    for c in CORPUS_S3:
        worlds.append(("s3faults", c, False))
    nw = 75 if quick else 750
    for i in range(nw):
        r = ck.rng.fork()
        k = i % 5
        if k in (0, 1):
            lines, info = gen_world_explicit(r, sound=True)
            worlds.append(("explicit", lines + gen_queries(r, info, 12), True))
        elif k == 2:
            lines, info = gen_world_explicit(r, sound=False)
            worlds.append(("unsound", lines + gen_queries(r, info, 12), False))
        elif k == 3:
            lines, info = gen_world_objects(r)
            worlds.append(("objects", lines + gen_queries(r, info, 12), True))
        else:
            lines, probe = gen_world_s3faults(r)
            worlds.append(("s3faults", lines, probe))
    lines, spans = [], []
    for kind, ls, sound in worlds:
        spans.append((len(lines), len(lines) + len(ls), kind, sound))
        lines += ls
    ck.log("harness built, %d lines" % len(lines))
    impl, crash = run_lines(ck, binary, lines, "all")
    if crash:
        ck.broke("implementation harness did not answer every line", crash)
        return
    ck.log("implementation answered")
    model, spec = lean_both(ck, lines, "all")
    ck.log("model and spec answered")
    if len(model) != len(lines) or len(spec) != len(lines) or None in model or None in spec:
        ck.broke("model driver did not answer every line", "%d %d / %d" % (len(model), len(spec), len(lines)))
        return
    corr = True
    for a, b, kind, sound in spans:
        if kind == "s3faults":
            judge_s3faults(ck, lines[a:b], impl[a:b], spec[a:b], probe=sound)
        elif not judge(ck, lines[a:b], impl[a:b], model[a:b], spec[a:b], kind, sound, corr):
            corr = False       # reported once; keep looking for a concrete failing input with the monitors


def replay(ck, path):
    rep = json.load(open(path))
    bins = ck.build_all()
    if bins is None:
        return
    lines = rep["lines"]
    impl, crash = run_lines(ck, bins["h"], lines, "replay")
    if crash:
        ck.broke("implementation harness did not answer", crash)
        return
    model, spec = lean_both(ck, lines, "replay")
    for l, io in zip(lines, impl):
        print("  %s -> %s" % (l[:110], io[:120]))
    if rep.get("kind") == "s3faults" or any(l.startswith("s3fault ") for l in lines):
        judge_s3faults(ck, lines, impl, spec, probe=bool(rep.get("probe")))
    else:
        judge(ck, lines, impl, model, spec, rep.get("kind", "replay"), rep.get("sound", True))
    ck.cov["distinct_nontrivial"] = max(ck.cov["distinct_nontrivial"], 2)
