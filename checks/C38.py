"""C38 — console API requires a live session; logins are rate limited."""
import json
import os
import posixpath
import re
import subprocess

from checks import lib

PROPERTY = "C38"
LEAN_MODULES = ["KafVerif.Props.C38"]
OBLIGATIONS = [
    "KafVerif.C38.protected_needs_session",
    "KafVerif.C38.rate_limit",
    "KafVerif.C38.checked_login_is_attempt",
    "KafVerif.C38.routes_guarded",
    "KafVerif.C38.routes_nonvacuous",
    "KafVerif.C38.mux_protected_needs_session",
    "KafVerif.C38.live_session_served",
    "KafVerif.C38.limiter_addr_independent",
    "KafVerif.C38.limiter_decision_local",
    "KafVerif.C38.limiter_run_local",
    "KafVerif.C38.stored_expiry_exact",
    "KafVerif.C38.stored_expiry_exact_run",
]
BUILDS = {"h": ("root", "./cmd/verif_c38", ["C38"])}
LEVEL_TEXT = ("Lean 4 theorems, for every configuration and every login/logout/request/tick history: a requireAuth-wrapped "
              "endpoint answers only with a token issued by a successful login, not logged out since and not expired "
              "(protected_needs_session, and its completeness live_session_served); per address at most `limit` admitted "
              "login attempts in every half-open window (rate_limit); every /ui/api/ route except auth/* of the route table "
              "REGENERATED from internal/console/*.go is wrapped by requireAuth, lifted through a model of ServeMux dispatch "
              "(routes_guarded, mux_protected_needs_session).  The limiter's bookkeeping for an address is independent of every other "
              "address and of the table size (limiter_addr_independent, limiter_decision_local, limiter_run_local); the stored "
              "expiry of a session is exactly login instant + ttl (stored_expiry_exact, stored_expiry_exact_run).")
LEVEL_NOTE = ("Trusted: Lean kernel; the hand-written model of auth.go + ServeMux dispatch for plain patterns; the go/ast route "
              "extractor; the differential run of the real handlers (own authManager on shifted timestamps, and the real NewMux "
              "in real time) against the model; generateToken (crypto/rand) never repeats.")
TECHNIQUE = "Lean 4 invariant proofs over a model of authManager/loginRateLimiter + regenerated route table + Go/Lean differential correspondence on virtual time"
ASSUMPTIONS = [
    "session tokens from crypto/rand are unguessable and never repeat (tokens are abstract fresh ids in the model)",
    "time is a Nat clock in seconds; the harness shifts stored timestamps backwards instead of replacing time.Now; generated ticks never put a request exactly on a session-expiry boundary (wall-clock jitter)",
    "net/http ServeMux dispatch for plain (method-less, wildcard-less) patterns on clean paths is modelled as longest-match; unclean paths are only monitored, not compared",
    "sub-second behaviour is observed, not modelled: every login's STORED expiry must lie in [t_before+ttl, t_after+ttl] (wall/monotonic clock read around the handler call) and a request issued right after a really elapsed 1 s ttl must be refused",
    "sync.Mutex gives mutual exclusion (handlers are atomic steps); concurrent requests are not explored here",
    "the sliding window is half-open (t-w, t] as coded",
]

GEN = os.path.join(lib.LEAN, "KafVerif", "Gen", "C38Routes.lean")
ROUTE_RE = re.compile(r'route ("(?:[^"\\]|\\.)*"|\?) wrapped=(\d) cond=(\d) handler=(.*)$')


def _chars(x):
    def one(c):
        if c == "'":
            return "'\\''"
        if c == "\\":
            return "'\\\\'"
        return "'%s'" % c
    return "[" + ", ".join(one(c) for c in x) + "]"


def _binary(ck):
    b = getattr(ck, "_c38_bin", None)
    if b:
        return b
    bins = ck.build_all()
    if bins is None:
        return None
    ck._c38_bin = bins["h"]
    return ck._c38_bin


def extract_routes(ck, binary):
    rc, out, err = ck.run_bin(binary, args=["extract", os.path.join(lib.REPO, "internal", "console")])
    if rc != 0:
        raise RuntimeError("route extractor failed: " + out + err)
    rows, decls = [], None
    for l in out.split("\n"):
        m = ROUTE_RE.match(l)
        if m:
            if m.group(1) == "?":
                raise RuntimeError("route with a non-literal pattern: " + l)
            rows.append((json.loads(m.group(1)), m.group(2) == "1", m.group(3) == "1", m.group(4)))
        elif l.startswith("requireAuthDecls"):
            decls = int(l.split()[1])
        elif l.startswith("limiterHits"):
            ck.cov["distribution"]["src_" + l.split()[0]] = int(l.split()[1])
    if not rows:
        raise RuntimeError("no routes extracted")
    if decls != 1:
        raise RuntimeError("expected exactly one requireAuth declaration, found %r" % decls)
    for p, _, _, _ in rows:
        if not all(32 < ord(c) < 127 for c in p):
            raise RuntimeError("route pattern outside the modelled alphabet: %r" % p)
    return rows


def generate(ck):
    binary = _binary(ck)
    if binary is None:
        raise RuntimeError("harness (which contains the extractor) does not build")
    rows = extract_routes(ck, binary)
    ck._c38_routes = rows
    src = ("-- REGENERATED by checks/C38.py from internal/console/*.go (mux.Handle/HandleFunc registrations)\n"
           "import KafVerif.Model.ConsoleAuth\nnamespace KafVerif.Gen.C38\nopen KafVerif.Console\ndef routes : List Route := [\n")
    src += ",\n".join("  { pattern := %s, wrapped := %s, cond := %s }" % (_chars(p), str(w).lower(), str(c).lower())
                      for p, w, c, _ in rows)
    src += "]\nend KafVerif.Gen.C38\n"
    old = open(GEN).read() if os.path.exists(GEN) else None
    if old != src:
        os.makedirs(os.path.dirname(GEN), exist_ok=True)
        tmp = GEN + ".tmp%d" % os.getpid()
        open(tmp, "w").write(src)
        os.replace(tmp, GEN)
    ck.cov["distribution"]["routes_extracted"] = len(rows)
    ck.cov["distribution"]["routes_wrapped"] = sum(1 for r in rows if r[1])


# ------------------------------------------------------------------ generators

CREDS = ["ok", "ok", "ok", "bad", "empty"]


def cookie_ref(rng, ntok):
    r = rng.below(10)
    if r == 0:
        return "none"
    if r == 1:
        return rng.choice(["empty", "other", "junk%d" % rng.below(3)])
    return "t%d" % rng.below(ntok + 1)


def gen_auth_case(rng, defaults, first=False):
    dttl, dlim, dwin = defaults
    if first or rng.chance(1, 6):
        ttl, lim, win = dttl, dlim, dwin
    else:
        ttl = rng.choice([30, 60, 100, 600])
        lim = rng.choice([1, 2, 3, 3, 5, 0])
        win = rng.choice([10, 30, 60, 60, 0 if rng.chance(1, 4) else 20])
    en = 0 if rng.chance(1, 12) else 1
    ops = ["new auth %d %d %d %d" % (en, ttl, lim, win)]
    now, issued_at, maybe_tok = 0, [], 0
    n = rng.range(40, 140)
    big = lim > 8
    for _ in range(n):
        r = rng.below(100)
        if r < 22:
            cands = [1, 3, 7, 10, 13, 20, 27, 30]
            if win:
                cands += [win - 1, win, win + 1, win // 2, win, win - 1]
            cands += [ttl - 1, ttl + 1, ttl // 2, ttl - 3]
            d = max(1, rng.choice(cands))
            while any(now + d - e == ttl for e in issued_at):
                d += 1
            now += d
            ops.append("tick %d" % d)
        elif r < 55 or (big and r < 75):
            ip = rng.choice([1, 1, 1, 2, 3])
            method = "POST" if not rng.chance(1, 15) else rng.choice(["GET", "PUT"])
            payload = "ok" if not rng.chance(1, 10) else "bad"
            u, p = rng.choice(CREDS), rng.choice(CREDS)
            if rng.chance(1, 2):
                u, p = "ok", "ok"
            ops.append("login %d %d %s %s %s %s" % (ip, rng.range(1024, 65000), method, payload, u, p))
            if method == "POST" and payload == "ok" and u == "ok" and p == "ok":
                issued_at.append(now)
                maybe_tok += 1
        elif r < 63:
            ops.append("logout %s %s" % ("POST" if not rng.chance(1, 8) else "GET", cookie_ref(rng, maybe_tok)))
        elif r < 92:
            ops.append("preq %s" % cookie_ref(rng, maybe_tok))
        else:
            ops.append("sess %s" % cookie_ref(rng, maybe_tok))
    return ops


def gen_many_case(rng, defaults, n_addr, first=False):
    """r3: more client addresses than any plausible table bound, with probing clients whose admitted
    attempts straddle the window edge while the other addresses flood in.  The limiter's decision for
    an address must depend on that address's own attempts only (limiter_addr_independent)."""
    dttl, dlim, dwin = defaults
    lim, win = (dlim, dwin) if first else rng.choice([(dlim, dwin), (3, 60), (5, 30), (2, 20), (4, 40)])
    if win < 20 or lim < 2:
        lim, win = 3, 60
    ops = ["new auth 1 600 %d %d" % (lim, win)]

    def att(ip, good=None):
        good = rng.chance(1, 3) if good is None else good
        ops.append("login %d %d POST ok ok %s" % (ip, rng.range(1024, 65000), "ok" if good else "bad"))

    probes = [1, 2, 3][:rng.range(2, 3)]
    inside = {}
    for ip in probes:               # oldest attempts at t=0
        k_old = 1 if ip == 1 else rng.range(1, max(1, lim - 1))
        inside[ip] = max(0, min(lim, lim - k_old + (0 if ip == 1 else rng.range(-1, 1))))
        for _ in range(k_old):
            att(ip)
    a = rng.range(win // 2, win - 1)
    ops.append("tick %d" % a)
    for ip in probes:               # a batch that stays inside the window during the flood
        for _ in range(inside[ip]):
            att(ip)
    extra = rng.below(3)
    ops.append("tick %d" % (win - a + extra))   # the oldest attempts have just left the window
    order = list(range(1000, 1000 + n_addr))
    for i in range(len(order) - 1, 0, -1):
        j = rng.below(i + 1)
        order[i], order[j] = order[j], order[i]
    marks = sorted(set(rng.below(n_addr) for _ in range(6)))
    for i, ip in enumerate(order):
        att(ip)
        if rng.chance(1, 40):
            att(ip)
        if i in marks:
            r = rng.below(3)
            if r == 0:
                ops.append("preq %s" % cookie_ref(rng, 3))
            elif r == 1:
                att(rng.choice(order[:i + 1]))
            else:
                ops.append("sess %s" % cookie_ref(rng, 3))
    for ip in probes:               # after the flood: the window still holds the inside batch
        for _ in range(lim + 1):
            att(ip)
    ops.append("tick %d" % (a - extra))         # the inside batch is exactly at the cutoff now
    for ip in probes + [order[0], order[-1]]:
        for _ in range(rng.range(1, lim + 1)):
            att(ip)
    ops.append("tick %d" % win)
    for ip in probes:
        att(ip, good=True)
    ops.append("preq t0")
    return ops


def gen_expiry_case(rng):
    """r3: real-time observations.  `phase` sleeps to a sub-second phase of the wall clock so that
    logins happen early / just past the middle / late in a second (login prints exp=ok only when the
    STORED expiry lies in [before+ttl, after+ttl]); `await` lets a 1 s ttl really elapse and issues
    the request right after login+ttl.  Earlier tokens are never used again before an await (real
    time passes in `phase` while the model clock stands still)."""
    ops = ["new auth 1 1 8 60"]
    n = 0
    for ph in [rng.range(40, 180), rng.range(510, 640), rng.range(820, 960)]:
        ops.append("phase %d" % ph)
        ops.append("login %d %d POST ok ok ok" % (n + 1, rng.range(1024, 65000)))
        n += 1
    for ph in [rng.range(560, 700), rng.range(720, 900)]:
        ops.append("phase %d" % ph)
        ops.append("login %d %d POST ok ok ok" % (n + 1, rng.range(1024, 65000)))
        ops.append("await t%d" % n)
        n += 1
    ops.append("sess t%d" % (n - 1))
    ops.append("preq t0")
    return ops


METHODS = ["GET", "GET", "POST", "DELETE", "PUT", "HEAD"]


def gen_mux_case(rng, defaults, routes, variant):
    dttl, dlim, dwin = defaults
    en = 0 if variant == 2 else 1
    ops = ["new mux %d %d %d %d" % (en, dttl, dlim, dwin)]
    pats = [r[0] for r in routes]
    paths = set(pats)
    for p in pats:
        paths.update([p + "x", p.rstrip("/") + "/", p.rstrip("/") + "/orders", p.rstrip("/")])
    paths.update(["/ui/api", "/ui/api/", "/ui/api/zzz", "/ui/index.html", "/", "/UI/API/status", "/ui/api/auth",
                  "/ui/api/auth/", "/ui/api/lfs", "/ui/api/lfs/", "/ui/api/lfs/s3", "/ui/api/lfs/s3/", "/healthz/x"])
    paths = sorted(p for p in paths if p and " " not in p)
    unclean = ["/ui/api//status", "/ui/api/./status", "/ui/api/auth/../status", "/ui//api/metrics", "/ui/api/auth/..//lfs/objects",
               "/ui/api/status/../metrics", "//ui/api/status"]
    maybe_tok = 0
    if variant == 0:
        # systematic probe of every registered pattern without a cookie, then with a fresh session, then after logout
        for p in pats:
            ops.append("req %s %s none" % ("GET" if "/auth/" in p else rng.choice(METHODS), p))
        ops.append("login 1 4000 POST ok ok ok")
        for p in pats:
            ops.append("req %s %s t0" % ("GET" if "/auth/" in p else "POST", p))
        for p in pats:
            ops.append("req %s %s junk0" % ("GET" if "/auth/" in p else "POST", p))
        ops.append("logout POST t0")
        for p in pats:
            ops.append("req %s %s t0" % ("GET" if "/auth/" in p else rng.choice(METHODS), p))
        for p in unclean:
            ops.append("req GET %s none" % p)
        return ops
    if variant == 3:
        # the real limiter of NewMux in real time: one address hammering, another one unaffected
        for i in range(dlim + 6 if dlim else 30):
            ops.append("login 1 %d POST ok %s ok" % (5000 + i, rng.choice(["ok", "bad"])))
            maybe_tok += 1
            if i % 7 == 3:
                ops.append("login 2 %d POST ok ok ok" % (6000 + i))
                maybe_tok += 1
        ops.append("preq t0")
        ops.append("preq t%d" % (maybe_tok + 3))
        return ops
    for _ in range(rng.range(60, 110)):
        r = rng.below(100)
        if r < 12:
            u, p = (("ok", "ok") if rng.chance(2, 3) else (rng.choice(CREDS), rng.choice(CREDS)))
            ops.append("login %d %d POST ok %s %s" % (rng.choice([1, 2, 3, 4, 5]), rng.range(1024, 65000), u, p))
            maybe_tok += 1
        elif r < 18:
            ops.append("logout POST %s" % cookie_ref(rng, maybe_tok))
        elif r < 24:
            ops.append("sess %s" % cookie_ref(rng, maybe_tok))
        elif r < 30:
            ops.append("req %s %s %s" % (rng.choice(METHODS), rng.choice(unclean), cookie_ref(rng, maybe_tok)))
        else:
            m = rng.choice(METHODS)
            p = rng.choice(paths)
            c = cookie_ref(rng, maybe_tok)
            if m == "GET" and ("metrics" in p or "events" in p) and rng.chance(2, 3):
                m = "POST"  # the SSE handlers block until cancelled; keep most probes cheap
            if "/auth" in p:
                m = "GET"   # state-changing auth endpoints are driven by the login/logout ops only
            ops.append("req %s %s %s" % (m, p, c))
    return ops


# ------------------------------------------------------------------ comparison and monitors

def agree(m, i, enabled):
    """model line vs implementation line, on the observables the property speaks about."""
    mf, jf = m.split(), i.split()
    if not mf or not jf or mf[0] != jf[0]:
        return False
    if mf[0] in ("preq", "req", "await"):
        mc, ic = mf[1], jf[1]
        if mc == "open":
            return True
        if ic == "s503" and not enabled:
            ic = "disabled"
        if mc == "notfound":
            ok = ic == "s404"
        elif mc == "served":
            ok = ic.startswith("s")
        else:
            ok = mc == ic
        return ok and mf[2:] == jf[2:]
    return mf == jf


def is_protected_path(path):
    c = posixpath.normpath(path)
    if path.endswith("/") and c != "/":
        c += "/"
    c = re.sub(r"^/+", "/", c)
    return c.startswith("/ui/api/") and not c.startswith("/ui/api/auth/") and c != "/ui/api/auth"


EXP_FP = "session-expiry-not-login-plus-ttl"


def monitor(ops, out, defaults, ignore=()):
    """The property itself on the implementation's lines.  Returns (index, fingerprint, what) or None.
    `ignore`: fingerprints already reported (only EXP_FP is skippable) so that an independent later
    observation in the same case (the real-time `await` probe) is still looked at."""
    f0 = ops[0].split()
    mode, en = f0[1], f0[2] == "1"
    kv = dict(x.split("=", 1) for x in out[0].split()[1:] if "=" in x)
    ttl, lim, win = int(kv["ttl"]), int(kv["limit"]), int(kv["window"])
    if (lim <= 0 or win <= 0) and (mode == "mux" or (int(f0[4]) > 0 and int(f0[5]) > 0)):
        return 0, "no-rate-limit-configured", "the console is built without a login rate limiter (limit=%d window=%d)" % (lim, win)
    now, live, ntok, att = 0, {}, 0, {}

    def resolve(ref):
        if ref.startswith("t") and ref[1:].isdigit() and int(ref[1:]) < ntok:
            return int(ref[1:])
        return None

    for i, (op, o) in enumerate(zip(ops, out)):
        if i == 0:
            continue
        f, r = op.split(), o.split()
        if len(r) < 1 or r[0] in ("bad-op", "panic"):
            if r and r[0] == "panic":
                return i, "handler-panic", "handler panicked on %r" % op
            continue
        if f[0] == "tick":
            now += int(f[1])
        elif f[0] == "login":
            cls = r[1] if len(r) > 1 else ""
            if cls.startswith("ok"):
                if cls != "ok":
                    return i, "login-token-anomaly", "login answered %s" % cls
                live[ntok] = now + ttl
                ntok += 1
                if "exp=late" in r and EXP_FP not in ignore:
                    return i, EXP_FP, (
                        "login %r stored a session expiry later than login instant + ttl (%d s): the token stays "
                        "accepted after its lifetime" % (op, ttl))
                if not (f[3] == "POST" and f[4] == "ok" and f[5] == "ok" and f[6] == "ok") or not en:
                    return i, "session-issued-without-valid-login", "login %r issued a session" % op
            if "cookie-on-failure" in o:
                return i, "session-issued-without-valid-login", "failed login %r set a session cookie" % op
            if cls in ("ok", "denied", "badpayload") and lim > 0 and win > 0:
                a = att.setdefault(f[1], [])
                a.append(now)
                cnt = sum(1 for x in a if now - win < x <= now)
                if cnt > lim:
                    return i, "rate-limit-exceeded", ("address %s got %d login attempts through within %d s (limit %d)"
                                                      % (f[1], cnt, win, lim))
        elif f[0] == "logout":
            if len(r) > 1 and r[1] == "ok":
                t = resolve(f[2])
                if t is not None:
                    live.pop(t, None)
        elif f[0] in ("preq", "req", "await"):
            if f[0] == "await":
                now += ttl + 1      # the harness let ttl really elapse before the request (and tops up to ttl+1 s)
            cookie = f[-1]
            if f[0] == "req" and not is_protected_path(f[2]):
                continue
            cls = r[1]
            rejected = cls in ("unauth", "redirect", "s404") or (cls == "s503" and not en)
            if f[0] == "req" and cls in ("s301", "s307", "s308"):
                rejected = True
            if not rejected:
                t = resolve(cookie)
                if t is None or t not in live or now > live[t] or not en:
                    why = ("no session cookie / unknown token" if t is None else
                           "token t%d logged out" % t if t not in live else
                           "token t%d expired %d s ago" % (t, now - live[t]) if now > live[t] else "auth disabled")
                    return i, "served-without-live-session", "%r answered %s: %s" % (op, cls, why)
    return None


def run_impl(ck, binary, ops, tag):
    fn = ck.path("ops_%s.txt" % tag)
    open(fn, "w").write("\n".join(ops) + "\n")
    rc, out, err = ck.run_bin(binary, stdin_path=fn, timeout=300)
    impl = out.split("\n")[:-1]
    if rc != 0 or len(impl) != len(ops):
        return fn, impl, "impl-crash rc=%s lines=%d/%d %s" % (rc, len(impl), len(ops), err[-500:])
    return fn, impl, None


def _fails(ck, binary, ops, fp, defaults):
    _, io, crash = run_impl(ck, binary, ops, "dd")
    if crash:
        return False
    m = monitor(ops, io, defaults, ignore=() if fp == EXP_FP else (EXP_FP,))
    return m is not None and m[1] == fp


def _report(ck, binary, ops, io, mon, defaults):
    i, fp, what = mon
    if fp in [v["fingerprint"] for v in ck.violations] or fp in [h["fingerprint"] for h in ck.known_hits]:
        return   # one minimised replay per fingerprint
    # real-time cases replay slowly; the many-addresses cases cannot shrink below the table bound anyway
    budget = [16 if any(o.startswith(("phase", "await")) for o in ops) else 30 if len(ops) > 400 else 120]

    def fails(cand):
        budget[0] -= 1
        return budget[0] >= 0 and _fails(ck, binary, [ops[0]] + cand, fp, defaults)
    if fp == EXP_FP and not any(o.startswith("phase") for o in ops[:i + 1]):
        # pin the sub-second phase of the offending login so that the replay does not depend on when it is run
        pinned = ops[:i] + ["phase 750"] + ops[i:]
        if _fails(ck, binary, pinned[:i + 2], fp, defaults):
            ops, i = pinned, i + 1
    small = lib.ddmin(ops[1:i + 1], fails)
    ck.violation(fp, what, {"ops": [ops[0]] + small, "expected": "property monitor true on every line", "actual": what})


def probe_defaults(ck, binary):
    rc, out, err = ck.run_bin(binary, args=["defaults"])
    m = re.search(r"enabled=(\w+) ttl=(-?\d+) limit=(-?\d+) window=(-?\d+)", out)
    if rc != 0 or not m:
        raise RuntimeError("defaults probe failed: " + out + err)
    return int(m.group(2)), int(m.group(3)), int(m.group(4))


def run(ck):
    binary = _binary(ck)
    if binary is None:
        return
    routes = getattr(ck, "_c38_routes", None) or extract_routes(ck, binary)
    defaults = probe_defaults(ck, binary)
    dttl, dlim, dwin = defaults
    ck.cov["distribution"]["default_ttl_s"] = dttl
    ck.cov["distribution"]["default_limit"] = dlim
    ck.cov["distribution"]["default_window_s"] = dwin
    ck.cov["rule"] = ("event sequences (login/logout/request/session/tick) generated from VERIF_SEED against the real handlers on "
                      "virtual time, and request sequences against the real NewMux; a case is non-trivial when at least one request "
                      "was served, one rejected and one login rate-limited or expired; distinct = distinct op files")
    if dlim <= 0 or dwin <= 0:
        ck.violation("no-rate-limit-configured",
                     "newAuthManager configures no login rate limiter (limit=%d window=%d)" % (dlim, dwin),
                     {"ops": ["new mux 1 %d %d %d" % (max(dttl, 0), max(dlim, 0), max(dwin, 0))], "actual": "limiter nil"})
        return
    nauth = 60 if ck.quick() else 600
    nmux = 6 if ck.quick() else 30
    cases = []
    for i in range(nauth):
        cases.append(gen_auth_case(ck.rng.fork(), defaults, first=(i == 0)))
    for i in range(nmux):
        cases.append(gen_mux_case(ck.rng.fork(), defaults, routes, i if i < 4 else 1))
    many = [1100 + ck.rng.below(200), 1300 + ck.rng.below(600)] if ck.quick() else [1100, 2100, 4200, 1500, 1200]
    d = ck.cov["distribution"]
    if d.get("src_limiterHitsDeletes", 0) or d.get("src_limiterHitsWritesOutsideAllow", 0):
        # the source prunes / rewrites the limiter table somewhere the model does not: not an alarm by itself
        # (a correct prune is unobservable), but search wider table sizes for an address that loses its history
        many += [2100 + ck.rng.below(100), 4200 + ck.rng.below(100)]
    for i, n_addr in enumerate(many):
        cases.append(gen_many_case(ck.rng.fork(), defaults, n_addr, first=(i == 0)))
        ck.cov["distribution"]["max_client_addresses"] = max(ck.cov["distribution"].get("max_client_addresses", 0), n_addr)
    for i in range(1 if ck.quick() else 6):
        cases.append(gen_expiry_case(ck.rng.fork()))
    all_ops, bounds = [], []
    for ops in cases:
        bounds.append((len(all_ops), len(all_ops) + len(ops)))
        all_ops += ops
    fn, impl, crash = run_impl(ck, binary, all_ops, "all")
    if crash:
        ck.broke("implementation harness did not answer every op", crash)
        return
    try:
        model = ck.lean_run("C38", fn)
        if len(model) != len(all_ops):
            raise RuntimeError("model driver answered %d of %d ops" % (len(model), len(all_ops)))
    except Exception as e:  # the model cannot run (e.g. Gen table no longer elaborates): monitors still run
        ck.broke("model driver", repr(e)[-2000:])
        model = None
    diffs = []
    for (a, b) in bounds:
        ops, io = all_ops[a:b], impl[a:b]
        en = ops[0].split()[2] == "1"
        served = sum(1 for o in io if re.match(r"(preq|req) s2", o))
        rejected = sum(1 for o in io if re.match(r"(preq|req) unauth", o))
        limited = sum(1 for o in io if o.startswith("login limited"))
        ck.count("served", served); ck.count("rejected_401", rejected); ck.count("login_limited", limited)
        ck.count("login_ok", sum(1 for o in io if o.startswith("login ok")))
        ck.count("ticks", sum(1 for o in ops if o.startswith("tick")))
        ck.count("mode_" + ops[0].split()[1])
        ck.count("stored_expiry_checked", sum(1 for o in io if " exp=ok" in o))
        ck.count("real_time_expiry_probes", sum(1 for o in io if o.startswith("await")))
        ck.case(tuple(ops), nontrivial=(served > 0 and rejected > 0 and limited > 0),
                sample={"ops": ops[:6], "impl": io[:6]})
        ck.cov["traces_validated_against_impl"] += 1
        mon = monitor(ops, io, defaults)
        if mon is not None and mon[1] == EXP_FP and EXP_FP in [v["fingerprint"] for v in ck.violations]:
            mon = monitor(ops, io, defaults, ignore=(EXP_FP,)) or mon
        if mon is not None:
            _report(ck, binary, ops, io, mon, defaults)
            continue
        if model is not None:
            mo = model[a:b]
            for j in range(len(ops)):
                fj = ops[j].split()
                if fj[0] == "req" and re.search(r"//|/\.\.?(/|$)", fj[2]):
                    continue   # unclean path: ServeMux redirects; monitored, not modelled
                if not agree(mo[j], io[j], en):
                    diffs.append((ops, j, io[j], mo[j]))
                    break
    if diffs and not ck.violations:
        ck.cov["disagreements_checked"] += len(diffs)
        ops, j, il, ml = diffs[0]
        ck.broke("correspondence model/implementation (console auth)",
                 "%d of %d cases disagree; first: case %r ... op #%d %r\nimpl : %s\nmodel: %s\nprefix: %s"
                 % (len(diffs), len(cases), ops[0], j, ops[j], il, ml, json.dumps(ops[:j + 1][-12:])))
        _hunt(ck, binary, defaults, routes)
    elif diffs:
        ck.cov["disagreements_checked"] += len(diffs)
    if ck.broken and not ck.violations and not diffs:
        _hunt(ck, binary, defaults, routes)


def _hunt(ck, binary, defaults, routes):
    """search for a concrete failing input with the monitors only"""
    for i in range(150):
        ops = gen_auth_case(ck.rng.fork(), defaults) if i % 5 else gen_mux_case(ck.rng.fork(), defaults, routes, i % 4)
        _, io, crash = run_impl(ck, binary, ops, "hunt")
        ck.cov["evaluations"] += 1
        if crash:
            continue
        mon = monitor(ops, io, defaults)
        if mon:
            _report(ck, binary, ops, io, mon, defaults)
            return


def replay(ck, path):
    rep = json.load(open(path))
    binary = _binary(ck)
    if binary is None:
        return
    defaults = probe_defaults(ck, binary)
    ops = rep.get("ops")
    if not ops:
        print("replay file holds no op list (broken obligation/correspondence record):")
        print(json.dumps(rep.get("no_longer_checks", rep), indent=1)[:4000])
        return
    fn, io, crash = run_impl(ck, binary, ops, "replay")
    try:
        mo = ck.lean_run("C38", fn)
    except Exception:
        mo = ["?"] * len(ops)
    for o, r, m in zip(ops, io, mo):
        print("  %-46s impl: %-34s model: %s" % (o[:46], r, m))
    ck.case(tuple(ops), sample={"ops": ops})
    ck.cov["evaluations"] = max(ck.cov["evaluations"], 1); ck.cov["distinct_nontrivial"] = 2
    if crash:
        ck.broke("implementation harness did not answer every op", crash)
        return
    mon = monitor(ops, io, defaults)
    if mon:
        ck.violation(mon[1], mon[2], {"ops": ops, "actual": mon[2]})
