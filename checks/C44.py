"""C44 — Reads through an S3 read replica match the primary; writes and listings go to the primary.

The real `dualS3Client` (cmd/broker/s3_dual.go, built into the broker binary with a `package main`
overlay that runs when VERIF_HARNESS=C44) is driven over two instrumented `storage.MemoryS3Client`
backends with generated histories: uploads/deletes/reads/lists through the dual client interleaved
with environment events (replication of one object catching up, replica / primary read faults).
The same op file runs through the Lean model (`lean/Driver/C44.lean`); lines are diffed.  Direct
monitor on the implementation's lines: every dual read equals what the primary alone answers
(`pri=`), no mutating/listing call ever reaches the replica, every write/list call reaches the
primary exactly once, and its result is exactly what the primary answered (`pans=`) — the primary's
listing / ok, or the primary's ERROR when an injected primary fault (`popfail <Method> once|always`)
fires, never the replica's listing — also checked against the monitor's own bookkeeping of the
two buckets and the pending faults.  Failed reads are compared by error CLASS too (`cls=`/`pcls=`: errors.Is(err, storage.ErrNotFound) of the
dual answer and of the primary's own answer; both sides failing is generated).  `slow` scenario: replicas stalling 50 ms … 12 s under a 30 s
caller deadline, with and without the source's timeout knobs set small.  `restore` scenario: the real PartitionLog.RestoreFromS3 over
the dual client with a lagging replica and a transient / persistent primary List fault.
"""
import glob
import os
import re
import threading

from checks import lib

PROPERTY = "C44"
LEAN_MODULES = ["KafVerif.Props.C44"]
OBLIGATIONS = [
    "KafVerif.C44.read_seg_match",
    "KafVerif.C44.read_idx_match",
    "KafVerif.C44.reads_match_iff",
    "KafVerif.C44.read_seg_replica_missing",
    "KafVerif.C44.read_seg_replica_failing",
    "KafVerif.C44.read_depends_only_on_own_request",
    "KafVerif.C44.read_depends_only_on_own_key",
    "KafVerif.C44.batch_reads_match",
    "KafVerif.C44.reads_match_safe_history",
    "KafVerif.C44.reads_match_partial",
    "KafVerif.C44.writes_primary",
    "KafVerif.C44.list_primary",
    "KafVerif.C44.list_primary_or_error",
    "KafVerif.C44.list_error_propagates",
    "KafVerif.C44.list_never_replica",
    "KafVerif.C44.list_retry_after_transient_fault",
    "KafVerif.C44.list_persistent_fault",
    "KafVerif.C44.write_result_is_primary_answer",
    "KafVerif.C44.write_error_propagates",
    "KafVerif.C44.writes_lists_independent_of_replica",
    "KafVerif.C44.replica_read_only",
    "KafVerif.C44.read_your_write",
    "KafVerif.C44.classified_reads_refine",              # reads with error class erase to dualReadSeg / dualReadIdx
    "KafVerif.C44.read_error_class_is_primarys",         # replica does not deliver => dual answer incl. error class = the primary's
    "KafVerif.C44.failed_dual_read_has_primarys_class",  # no hypothesis: a failing dual read has the primary's error class
    "KafVerif.C44.restore_decision_is_primarys",         # keep / skip-as-orphan / abort decided as on the primary
    "KafVerif.C44.joined_error_violates",                # witness: joining replica + primary errors turns a transient failure into not-found
    "KafVerif.C44.stale_overwrite_violates",
    "KafVerif.C44.stale_delete_violates",
    "KafVerif.C44.full_statement_false",
]
ASSUMPTIONS = [
    "both buckets have the range semantics of storage.MemoryS3Client (the backends in the harness ARE MemoryS3Clients behind a fault-injecting, call-recording wrapper)",
    "S3 replication copies whole current objects (or the absence of a deleted object) one object at a time, at any time or never; segment and index objects replicate independently",
    "the primary's own read faults are generated for the correspondence only; the property (and the monitor) compare with a healthy primary",
    "faults of the non-download methods (UploadSegment, UploadIndex, DeleteSegment, DeleteIndex, ListSegments, EnsureBucket) are per method, "
    "'once' (next call fails, retry succeeds) or 'always' (until cleared), on the primary and on the replica; a failing backend call changes "
    "nothing in the bucket (that is how the fault-injecting fake behaves; a real S3 write whose response is lost may still have been applied)",
    "which backends a READ consults is not compared (only its result); which backend WRITES/LISTS reach is",
    "no cross-request state: in the model a read is a pure function of (primary state, replica state, key, range) "
    "(read_depends_only_on_own_request); validated on the implementation by `conc` ops (2-4 overlapping reads, same key / same start / "
    "different end, gated inside the primary fake so that they overlap), each compared with the primary's bytes for its own range",
    "time is not modelled: a replica that is slow to answer counts as answering, one that is slow to fail / hangs and then fails counts as "
    "failing; validated by `rmode slowok|slowfail|hang` ops on context-aware fakes (they return ctx.Err() once the context is done) and by the "
    "`slow` scenario (replica stalls 50 ms / 2.5 s / 6 s / 12 s, caller deadline 30 s, and 20 ms … 3 s with every KAFSCALE_S3_*TIMEOUT* knob of "
    "the current source set to 100: the caller must still get the primary's bytes); a replica that hangs until the caller's own deadline is not generated",
    "error classes: two classes (errors.Is(err, storage.ErrNotFound) or not); a backend answers not-found for a missing object (segment and "
    "index, like the AWS client), an injected fault / bad range / context error is 'other'",
]
TECHNIQUE = "Lean 4: writes/listings = the primary's answer incl. its error for every state, and non-interference (no write/list answer and no primary state depends on replica events) by induction over all histories with faults; invariant (replica holds only current versions) by induction over all replication-safe histories => dual read = primary read for every key/range/fault set; witness theorems for the lagging-overwrite/delete case; differential correspondence + monitor on the real dualS3Client inside the broker binary"
LEVEL_TEXT = ("proof (partial): writes_primary / list_primary / list_never_replica / write_error_propagates / writes_lists_independent_of_replica / "
              "replica_read_only / read_error_class_is_primarys are full strength for every state and history incl. faulty primaries; reads_match_safe_history / read_seg_match / "
              "read_idx_match are full strength for histories in which the primary never changes or deletes an object the replica already holds; the unrestricted statement is false "
              "(stale_overwrite_violates, stale_delete_violates, full_statement_false)")
LEVEL_NOTE = "correspondence and monitors are testing; they tie the model to the current source"
BUILDS = {"broker": ("root", "./cmd/broker", ["C44"])}

KNOWN_FP = "replica-lagging-copy-served-instead-of-primary"
NKEYS = 6


def strip_read_calls(line):
    """calls= of read ops are not property-relevant (only the result is)."""
    f = line.split(" ")
    if len(f) >= 2 and f[0] in ("ok", "err") and any(x.startswith("pri=") for x in f):
        return " ".join(x for x in f if not x.startswith("calls="))
    return line


WRITE_METHOD = {"upseg": "UploadSegment", "upidx": "UploadIndex", "delseg": "DeleteSegment", "delidx": "DeleteIndex",
                "list": "ListSegments", "ensure": "EnsureBucket"}
METHOD_OP = {v: k for k, v in WRITE_METHOD.items()}


class Sim:
    """what the generator / monitor know about the two buckets"""

    def __init__(self):
        self.pri = {"seg": {}, "idx": {}}
        self.rep = {"seg": {}, "idx": {}}
        self.rfail, self.pfail = set(), set()
        self.popf, self.ropf = {}, {}       # method -> "once" | "always" (injected faults of the non-download methods)

    def pending(self, op):
        """does the primary's injected fault fire on this dual-client call?"""
        return self.popf.get(WRITE_METHOD.get(op), "none") != "none"

    def listing(self, side):
        b = self.pri if side == "pri" else self.rep
        return ",".join("%d:%d" % (k, 0 if v == "-" else len(v) // 2) for k, v in sorted(b["seg"].items()))

    def lagging(self):
        return self.listing("rep") != self.listing("pri")

    def apply(self, f):
        op = f[0]
        if op == "new":
            self.__init__()
        elif op in ("popfail", "ropfail"):
            d = self.popf if op == "popfail" else self.ropf
            if f[2] == "none":
                d.pop(f[1], None)
            else:
                d[f[1]] = f[2]
        elif op in WRITE_METHOD and self.pending(op):
            # the primary's call fails: nothing changes, a 'once' fault is used up
            if self.popf[WRITE_METHOD[op]] == "once":
                del self.popf[WRITE_METHOD[op]]
        elif op in ("upseg", "upidx"):
            self.pri[op[2:]][int(f[1])] = f[2]
        elif op in ("delseg", "delidx"):
            self.pri[op[3:]].pop(int(f[1]), None)
        elif op in ("replseg", "replidx"):
            kind, k = op[4:], int(f[1])
            if k in self.pri[kind]:
                self.rep[kind][k] = self.pri[kind][k]
            else:
                self.rep[kind].pop(k, None)
        elif op == "rfail":
            (self.rfail.add if f[2] == "1" else self.rfail.discard)(int(f[1]))
        elif op == "rmode":
            (self.rfail.add if f[2] in ("fail", "slowfail", "hang") else self.rfail.discard)(int(f[1]))
        elif op == "pfail":
            (self.pfail.add if f[2] == "1" else self.pfail.discard)(int(f[1]))

    def stale(self, kind, k):
        return k in self.rep[kind] and self.rep[kind][k] != self.pri[kind].get(k)


def body(rng):
    n = rng.choice([0, 1, 2, 3, 5, 8, 13, 32])
    fill = rng.below(256)
    return lib.hexs(bytes((fill + i) & 0xFF for i in range(n)))


def gen_conc(rng, sim, k):
    """2-4 overlapping reads; mostly the same key with the same start and different ends (or the whole object)."""
    n = rng.range(2, 4)
    start = rng.choice([0, 0, 1, 2, 4])
    items = []
    for j in range(n):
        kk = k if rng.chance(3, 4) else rng.below(NKEYS)
        r = rng.below(10)
        if r < 6:
            items.append("s:%d:%d:%d" % (kk, start, start + rng.choice([0, 1, 2, 3, 5, 7, 12, 30, 100]) + j))
        elif r < 8:
            items.append("s:%d:-" % kk)
        elif r < 9:
            items.append("s:%d:%d:%d" % (kk, rng.choice([0, 3, 9]), rng.choice([2, 6, 40])))
        else:
            items.append("i:%d" % kk)
    return "conc " + ",".join(items)


def gen_call(rng, sim, method, safe):
    """one dual-client call of `method` (replication-safe when asked)"""
    if method in ("ListSegments", "EnsureBucket"):
        return METHOD_OP[method]
    kind = "seg" if method.endswith("Segment") else "idx"
    k = rng.below(NKEYS)
    if method.startswith("Upload"):
        b = body(rng)
        if safe and k in sim.rep[kind] and sim.rep[kind][k] != b:
            b = sim.rep[kind][k]
        return "up%s %d %s" % (kind, k, b)
    free = [x for x in range(NKEYS) if x not in sim.rep[kind]]
    if safe and k in sim.rep[kind]:
        if not free:
            return "list"
        k = rng.choice(free)
    return "del%s %d" % (kind, k)


def gen_primary_fault(rng, sim, safe):
    """popfail <Method> once|always|none, mostly followed at once by the failing call and the caller's retries;
    for ListSegments the replica is usually made to LAG first (an upload that is not replicated)."""
    m = rng.choice(["ListSegments", "ListSegments", "ListSegments", "UploadSegment", "UploadIndex", "DeleteSegment", "DeleteIndex",
                    "EnsureBucket"])
    how = rng.choice(["once", "once", "once", "always", "always", "none"])
    out = []

    def emit(op):
        out.append(op)
        sim.apply(op.split())

    if m == "ListSegments" and how != "none" and rng.chance(2, 3):
        fresh = [x for x in range(NKEYS) if x not in sim.rep["seg"]]
        if fresh:
            emit("upseg %d %s" % (rng.choice(fresh), body(rng) or "07"))
    emit("popfail %s %s" % (m, how))
    if rng.chance(4, 5):
        emit(gen_call(rng, sim, m, safe))
        if rng.chance(3, 4):
            emit(gen_call(rng, sim, m, safe))          # the retry
        if how == "always" and rng.chance(3, 4):
            emit("popfail %s none" % m)
            emit(gen_call(rng, sim, m, safe))
    elif how == "always":
        emit("popfail %s none" % m)                    # persistent faults do not outlive the block
    return out


def gen_history(rng, n, safe):
    sim = Sim()
    ops = ["new"]
    for _ in range(n):
        k = rng.below(NKEYS if rng.chance(1, 3) else 3)
        r = rng.below(100)
        kind = "seg" if rng.chance(2, 3) else "idx"
        if r < 18:
            b = body(rng)
            if safe and k in sim.rep[kind] and sim.rep[kind][k] != b:
                b = sim.rep[kind][k]            # re-upload of identical bytes is fine
            op = "up%s %d %s" % (kind, k, b)
        elif r < 22:
            if safe and k in sim.rep[kind]:
                op = "list"
            else:
                op = "del%s %d" % (kind, k)
        elif r < 36:
            op = "repl%s %d" % (kind, k)
        elif r < 39:
            op = "rfail %d %d" % (k, 1 if rng.chance(2, 3) else 0)
        elif r < 42:
            op = "rmode %d %s %d" % (k, rng.choice(["slowok", "slowfail", "hang", "ok", "fail", "slowfail"]), rng.choice([1, 3, 8]))
        elif r < 44:
            op = "pfail %d %d" % (k, 1 if rng.chance(1, 3) else 0)
        elif r < 48:
            op = "list"
        elif r < 50:
            op = "ensure"
        elif r < 56:
            op = gen_conc(rng, sim, k)
        elif r < 61:
            ops += gen_primary_fault(rng, sim, safe)
            continue
        elif r < 64:
            # both reads fail: the replica lags on a fresh object (not found there) or fails, the primary's read fails transiently
            kk = rng.choice([x for x in range(NKEYS) if x not in sim.rep[kind]] or [k])
            blk = []
            if kk not in sim.pri[kind] and rng.chance(3, 4):
                blk.append("up%s %d %s" % (kind, kk, body(rng) or "0b"))
            if rng.chance(1, 4):
                blk.append("rfail %d 1" % kk)
            blk += ["pfail %d 1" % kk, "rdidx %d" % kk if kind == "idx" else "rdseg %d" % kk]
            if rng.chance(1, 2):
                blk.append("rdseg %d" % kk if kind == "idx" else "rdidx %d" % kk)
            blk += ["pfail %d 0" % kk, "rdidx %d" % kk if kind == "idx" else "rdseg %d" % kk]
            for op in blk:
                ops.append(op)
                sim.apply(op.split())
            continue
        elif r < 65:
            op = "ropfail %s %s" % (rng.choice(sorted(METHOD_OP)), rng.choice(["once", "always", "none", "none"]))
        elif r < 82:
            if kind == "idx":
                op = "rdidx %d" % k
            elif rng.chance(1, 2):
                op = "rdseg %d" % k
            else:
                a = rng.choice([0, 0, 1, 2, 4, 7, 12, 31, 32, 40, -1, -5])
                b = a + rng.choice([0, 0, 1, 3, 7, 100, -1, -2]) if rng.chance(4, 5) else rng.choice([0, 5, 31, 32, 1000, -3])
                op = "rdseg %d %d %d" % (k, a, b)
        else:
            # read right after an upload / replication: the interesting states
            b = body(rng)
            if safe and k in sim.rep["seg"] and sim.rep["seg"][k] != b:
                b = sim.rep["seg"][k]
            op = "upseg %d %s" % (k, b)
            ops.append(op); sim.apply(op.split())
            op = "rdseg %d" % k
        ops.append(op)
        sim.apply(op.split())
    return ops


def monitor(ops, out):
    """Returns list of (index, fingerprint, what)."""
    bad = []
    sim = Sim()
    for i, (op, o) in enumerate(zip(ops, out)):
        f = op.split()
        if o == "panic":
            bad.append((i, "dual-client-panic", "panic on %r" % op))
            sim.apply(f)
            continue
        kv = dict(x.split("=", 1) for x in o.split() if "=" in x)
        calls = [c for c in kv.get("calls", "").split(",") if c]
        for c in calls:
            if c.startswith("r.") and c not in ("r.DownloadSegment", "r.DownloadIndex"):
                bad.append((i, "non-read-call-reached-replica", "%r made the call %s on the read replica" % (op, c)))
        if f[0] in WRITE_METHOD:
            want = "w." + WRITE_METHOD[f[0]]
            if calls.count(want) != 1 or any(c.startswith("w.") and c != want for c in calls):
                bad.append((i, "write-or-list-not-sent-to-primary-once", "%r made calls %r, expected exactly one %s" % (op, calls, want)))
            res = o.split(" calls=")[0].replace(" ", ":")
            pans = kv.get("pans", "none")
            fault = sim.pending(f[0])
            # (a) the result is what the primary backend answered to this very call — its value or its error
            if pans != "none" and "+" not in pans and res != pans:
                lag = " (the replica lags: it lists %r, the primary holds %r)" % (sim.listing("rep"), sim.listing("pri")) if sim.lagging() else ""
                bad.append((i, "listing-is-not-the-primarys-answer" if f[0] == "list" else "write-result-is-not-the-primarys-answer",
                            "%r returned %s but the primary answered %s%s" % (op, res[:80], pans[:80], lag)))
            # (b) ... and that agrees with the monitor's own bookkeeping of the primary bucket and its pending faults
            if f[0] == "list":
                want_l = "list:" + sim.listing("pri")
                if fault and res != "err":
                    served = "the REPLICA's listing" if res == "list:" + sim.listing("rep") and sim.lagging() else "a listing"
                    bad.append((i, "primary-list-error-not-propagated",
                                "the primary's ListSegments fails (injected %s fault) but the dual listing returned %s %s; the primary holds %s"
                                % (sim.popf.get("ListSegments"), served, res[:80], want_l[:80])))
                elif not fault and res != want_l:
                    bad.append((i, "listing-differs-from-primary", "dual listing %r, primary holds %r" % (res, want_l)))
            elif fault and res != "err":
                bad.append((i, "primary-write-error-not-propagated", "the primary's %s fails (injected %s fault) but %r -> %s" % (
                    WRITE_METHOD[f[0]], sim.popf.get(WRITE_METHOD[f[0]]), op, o)))
            elif not fault and res != "ok":
                bad.append((i, "write-through-dual-failed", "%r -> %s" % (op, o)))
        elif f[0] == "conc":
            for it, part in zip(f[1].split(","), o.split()[1:]):
                p = it.split(":")
                kind, k = ("idx" if p[0] == "i" else "seg"), int(p[1])
                res, pri = part.split("/")
                if k in sim.pfail or res == pri:
                    continue
                if sim.stale(kind, k) and k not in sim.rfail:
                    bad.append((i, KNOWN_FP, "concurrent read %s: replica holds an outdated copy of object %d: %s, primary %s" % (it, k, res[:60], pri[:60])))
                else:
                    bad.append((i, "concurrent-read-differs-from-primary-for-its-own-range",
                                "%r: read %s returned %s but the primary answers %s for that key/range" % (op, it, res[:80], pri[:80])))
        elif f[0] in ("rdseg", "rdidx"):
            k = int(f[1])
            kind = "seg" if f[0] == "rdseg" else "idx"
            res = o.split(" calls=")[0].replace(" ", ":")
            pri = kv.get("pri")
            # the error CLASS (errors.Is(err, storage.ErrNotFound): RestoreFromS3 skips a segment as orphaned on it) of a failed
            # dual read is the class of the primary's own answer — also, and above all, when the primary's read fails too
            cls, pcls = kv.get("cls"), kv.get("pcls")
            if cls is None or pcls is None:
                bad.append((i, "read-line-without-error-class", "%r -> %s" % (op, o[:120])))
            elif res == "err" and pri == "err" and cls != pcls:
                lagnf = " (the replica does not hold the object: its answer is not-found)" if k not in sim.rep[kind] and k not in sim.rfail else ""
                bad.append((i, "dual-read-error-class-differs-from-primary",
                            "%r failed with error class %r (nf = errors.Is(err, storage.ErrNotFound)) but the primary's own answer to that read has class %r%s: "
                            "a caller that branches on not-found (PartitionLog.RestoreFromS3: orphaned segment) decides differently than on the primary"
                            % (op, cls, pcls, lagnf)))
            if k not in sim.pfail and res != pri:
                if sim.stale(kind, k) and k not in sim.rfail:
                    what = ("replica holds an outdated copy of object %d (primary %s): dual read %s, primary %s" % (
                        k, "overwrote it" if k in sim.pri[kind] else "deleted it", res[:60], pri[:60]))
                    bad.append((i, KNOWN_FP, what))
                else:
                    bad.append((i, "dual-read-differs-from-primary", "%r -> %s but the primary answers %s" % (op, res[:80], pri[:80])))
        sim.apply(f)
    return bad


def restore_violations(line):
    """`restore want=11 replica=4 a1=err a2=11 b1=err b2=err c=11 rbad=-`: every restore attempt through the dual client either fails or
    yields the primary's last offset; nothing but downloads reaches the replica."""
    kv = dict(x.split("=", 1) for x in line.split()[1:])
    bad = []
    want = kv.get("want")
    if want == kv.get("replica"):
        bad.append(("restore-scenario-replica-does-not-lag", "scenario setup: the replica alone restores the same last offset as the primary: " + line))
    names = {"a1": "primary List fails once, first attempt", "a2": "primary List fails once, the caller's retry",
             "b1": "primary List fails persistently, first attempt", "b2": "primary List fails persistently, retry"}
    for n, txt in names.items():
        if kv.get(n) not in ("err", want):
            bad.append(("restore-with-stale-listing-after-primary-list-error",
                        "PartitionLog.RestoreFromS3 over the dual client, replica lags (replica alone: last offset %s), %s: restored last offset %s, "
                        "the primary holds up to %s (offsets would be assigned again)" % (kv.get("replica"), txt, kv.get(n), want)))
            break
    if "d1" not in kv or kv.get("repcls") != "nf":
        bad.append(("restore-scenario-lagging-index-not-set-up", "scenario setup: the replica should answer not-found for the second index: " + line))
    else:
        if kv.get("dcls") != kv.get("pcls"):
            bad.append(("dual-read-error-class-differs-from-primary",
                        "restore scenario: replica lags on the index of segment 5..%s (not found), the primary's read of it fails transiently: the dual "
                        "DownloadIndex error has class %r, the primary's own error class %r" % (want, kv.get("dcls"), kv.get("pcls"))))
        if kv.get("d1") != kv.get("pd1") and kv.get("d1") != want:
            bad.append(("restore-drops-segment-after-transient-primary-index-error",
                        "PartitionLog.RestoreFromS3 over the dual client, replica lags on the index of the last segment (not found there), the primary's "
                        "read of that index fails transiently: restore returned %s (segment skipped as orphaned), the primary alone answers %s and holds "
                        "up to %s (offsets would be assigned again)" % (kv.get("d1"), kv.get("pd1"), want)))
        if kv.get("d2") != want:
            bad.append(("restore-through-dual-differs-from-primary", "after the transient primary index fault cleared: restore through the dual "
                        "client gives %s, primary alone %s" % (kv.get("d2"), want)))
    if kv.get("c") != want:
        bad.append(("restore-through-dual-differs-from-primary", "healthy primary: restore through the dual client gives %s, primary alone %s" % (kv.get("c"), want)))
    if kv.get("rbad") != "-":
        bad.append(("non-read-call-reached-replica", "restore scenario: calls %s reached the read replica" % kv.get("rbad")))
    return bad


SLOW_KINDS = {"a": "slow to fail, range read", "b": "slow to fail, index (replica holds an equal copy)", "c": "hangs then fails",
              "d": "slow to answer an equal copy"}


def slow_violations(line, envs):
    """`slow a50=<dual>/<primary> b50=… a2500=…`: whatever the replica does and however long it stalls, under a live caller context
    the read returns what the primary holds"""
    bad = []
    for part in line.split()[1:]:
        name, rest = part.split("=", 1)
        res, pri = rest.split("/")
        if res != pri:
            bad.append(("slow-replica-read-does-not-fall-back-to-primary",
                        "replica stalls %s ms (%s) under a 30 s caller deadline%s: dual read %s, the primary holds %s" % (
                            name[1:], SLOW_KINDS.get(name[:1], name), " with " + ",".join("%s=%s" % kv for kv in sorted(envs.items())) if envs else "",
                            res, pri)))
            break
    return bad


def timeout_knobs():
    """every KAFSCALE_S3_*TIMEOUT* environment variable the CURRENT cmd/broker source mentions (plus any KAFSCALE_* name in
    s3_dual.go itself), regenerated at check time: set to 100 (ms) so that a replica-side timeout, if the source has one, fires early"""
    names = set()
    for fn in sorted(glob.glob(os.path.join(lib.REPO, "cmd", "broker", "*.go"))):
        if fn.endswith("_test.go"):
            continue
        try:
            src = open(fn, encoding="utf8", errors="replace").read()
        except OSError:
            continue
        names.update(re.findall(r'"(KAFSCALE_S3_[A-Z0-9_]*TIMEOUT[A-Z0-9_]*)"', src))
        if os.path.basename(fn) == "s3_dual.go":
            names.update(re.findall(r'"(KAFSCALE_[A-Z0-9_]+)"', src))
    return {n: "100" for n in sorted(names)}


def start_slow(ck, binary):
    """the two slow-replica runs, each in its own harness process, started now and joined at the end of run()"""
    jobs = []
    for tag, opline, envs in (("default", "slow 50,2500,6000,12000", {}), ("knobs", "slow 20,400,1500,3000", timeout_knobs())):
        fn = ck.path("ops_slow_%s.txt" % tag)
        open(fn, "w").write(opline + "\n")
        box = {}

        def work(fn=fn, envs=envs, box=box):
            env = {"VERIF_HARNESS": "C44"}
            env.update(envs)
            rc, out, err = ck.run_bin(binary, stdin_path=fn, env=env, timeout=120)
            box["impl"] = out.split("\n")[:-1]
            if rc != 0 or len(box["impl"]) != 1:
                box["crash"] = "impl rc=%s %s" % (rc, err[-500:])
        th = threading.Thread(target=work, daemon=True)
        th.start()
        jobs.append((tag, th, box, opline, envs))
    return jobs


def run_lines(ck, binary, ops, tag):
    fn = ck.path("ops_%s.txt" % tag)
    open(fn, "w").write("\n".join(ops) + "\n")
    rc, out, err = ck.run_bin(binary, stdin_path=fn, env={"VERIF_HARNESS": "C44"})
    impl = out.split("\n")[:-1]
    if rc != 0 or len(impl) != len(ops):
        return None, fn, "impl rc=%s answered %d/%d lines %s" % (rc, len(impl), len(ops), err[-500:])
    return impl, fn, None


def fails(ck, binary, ops, fp):
    impl, _, crash = run_lines(ck, binary, ops, "dd")
    if crash:
        return False
    return any(b[1] == fp for b in monitor(ops, impl))


def run(ck):
    bins = ck.build_all()
    if bins is None:
        return
    binary = bins["broker"]
    q = ck.quick()
    slow_jobs = start_slow(ck, binary)          # runs concurrently with everything below (≈12 s wall)
    ck.cov["rule"] = ("a case = one history of ~80 ops over 6 objects (uploads/deletes/reads/lists through the dual client, replication "
                      "events, replica/primary faults); 'safe' histories never change/delete an object the replica holds, 'unsafe' ones do; "
                      "non-trivial: at least one read answered by the replica AND one fallback to the primary; distinct = distinct op lists")
    cases = []
    # fixed regression histories: fallback with range, equal copy, failing replica, then the lagging-overwrite case
    cases.append((["new", "upseg 1 010203", "rdseg 1 1 5", "replseg 1", "rdseg 1 1 5", "rfail 1 1", "rdseg 1", "rdidx 1",
                   "upidx 1 0708", "rdidx 1", "replidx 1", "rfail 1 0", "rdidx 1", "list", "ensure", "delseg 2", "rdseg 1 3 9"], True))
    cases.append((["new", "upseg 1 0101", "replseg 1", "upseg 1 0202", "rdseg 1", "replseg 1", "rdseg 1",
                   "delseg 1", "rdseg 1", "list"], False))
    cases.append((["new", "upseg 1 0102030405060708", "upidx 1 0a0b", "rmode 1 slowfail 5", "rdseg 1 1 3", "rdidx 1", "rmode 1 hang 5", "rdseg 1",
                   "replseg 1", "rmode 1 slowok 5", "rdseg 1 2 4", "rmode 1 fail", "conc s:1:0:2,s:1:0:5,s:1:-,i:1,s:2:0:1",
                   "upseg 2 1112131415", "conc s:2:1:1,s:2:1:3,s:1:1:2,s:2:1:9", "rmode 1 ok", "conc s:1:0:0,s:1:0:7"], True))
    # faulty primary, lagging replica: the replica holds object 1 only, the primary 1 and 2; the primary's List fails once (the dual List
    # must fail, the retry lists 1 and 2), then persistently; failing uploads/deletes/ensure store nothing and report the error
    cases.append((["new", "upseg 1 010203", "upidx 1 0a", "replseg 1", "replidx 1", "upseg 2 0405", "upidx 2 0b",
                   "popfail ListSegments once", "list", "list", "popfail ListSegments always", "list", "list", "popfail ListSegments none", "list",
                   "popfail UploadSegment once", "upseg 3 09", "list", "rdseg 3", "upseg 3 09", "list", "rdseg 3",
                   "popfail DeleteSegment always", "delseg 3", "delseg 3", "list", "popfail DeleteSegment none", "delseg 3", "list",
                   "popfail UploadIndex once", "upidx 3 0c", "rdidx 3", "upidx 3 0c", "rdidx 3",
                   "popfail DeleteIndex once", "delidx 3", "rdidx 3", "delidx 3", "rdidx 3",
                   "popfail EnsureBucket once", "ensure", "ensure", "ropfail ListSegments always", "popfail ListSegments once", "list", "list"], True))
    # error classes: the replica lags on index 1 (not found), the primary's read of it fails transiently — the dual error must be
    # classified like the primary's (not as not-found); missing on both = not-found; failing replica + missing primary = not-found;
    # a bad range is not not-found
    cases.append((["new", "upidx 1 0a0b", "upseg 1 010203", "pfail 1 1", "rdidx 1", "rdseg 1", "rdseg 1 0 1", "replidx 1", "rdidx 1", "pfail 1 0",
                   "rdidx 1", "rdidx 2", "rdseg 2", "rfail 2 1", "rdidx 2", "rdseg 2", "upseg 3 0102", "rdseg 3 5 9", "replseg 3", "rdseg 3 5 9",
                   "upidx 4 0c", "rfail 4 1", "pfail 4 1", "rdidx 4"], True))
    for i in range(60 if q else 600):
        cases.append((gen_history(ck.rng.fork(), 80 if q else 200, True), True))
    for i in range(20 if q else 200):
        cases.append((gen_history(ck.rng.fork(), 80 if q else 200, False), False))
    all_ops, bounds = [], []
    for ops, safe in cases:
        bounds.append((len(all_ops), len(all_ops) + len(ops), safe))
        all_ops += ops
    impl, fn, crash = run_lines(ck, binary, all_ops, "all")
    if crash:
        ck.broke("implementation harness did not answer every op", crash)
        return
    model = ck.lean_run("C44", fn)
    reported = set()
    for (a, b, safe) in bounds:
        ops, io, mo = all_ops[a:b], impl[a:b], model[a:b]
        rep_hits = sum(1 for o in io if "calls=r.Download" in o and ",w." not in o)
        fallbacks = sum(1 for o in io if "calls=r.Download" in o and ",w.Download" in o)
        ck.count("reads_served_by_replica", rep_hits); ck.count("reads_falling_back_to_primary", fallbacks)
        ck.count("range_reads", sum(1 for x in ops if x.startswith("rdseg") and len(x.split()) == 4))
        ck.count("histories_safe" if safe else "histories_unsafe")
        for o in io:
            if " cls=" in o and o.startswith("err") and " pri=err" in o:
                ck.count("reads_failing_on_both_sides")
                if ",w.Download" in o and " pcls=other" in o:
                    ck.count("reads_failing_on_both_sides_primary_transient")
        ck.count("concurrent_read_batches", sum(1 for x in ops if x.startswith("conc ")))
        fsim, nfault, nlag, nwerr = Sim(), 0, 0, 0
        for x in ops:
            xf = x.split()
            if xf[0] in WRITE_METHOD and fsim.pending(xf[0]):
                if xf[0] == "list":
                    nfault += 1
                    nlag += 1 if fsim.lagging() else 0
                else:
                    nwerr += 1
            fsim.apply(xf)
        ck.count("lists_under_primary_list_fault", nfault)
        ck.count("lists_under_primary_list_fault_while_replica_lags", nlag)
        ck.count("writes_or_ensures_under_primary_fault", nwerr)
        ck.count("primary_method_fault_ops", sum(1 for x in ops if x.startswith("popfail ") and not x.endswith(" none")))
        ck.count("slow_or_hanging_replica_mode_ops", sum(1 for x in ops if x.startswith("rmode ") and x.split()[2] in ("slowok", "slowfail", "hang")))
        ck.case(tuple(ops), nontrivial=(rep_hits > 0 and fallbacks > 0), sample={"safe": safe, "ops": ops[:10], "impl": io[:10]})
        ck.cov["traces_validated_against_impl"] += 1
        bad = monitor(ops, io)
        for (i, fp, what) in bad:
            if fp in reported:
                continue
            reported.add(fp)
            small = lib.ddmin(ops[1:i + 1], lambda cand: fails(ck, binary, ["new"] + cand, fp))
            ck.violation(fp, what, {"ops": ["new"] + small, "safe_history": safe,
                                    "expected": "dual read = primary read; writes/lists only on the primary", "actual": what})
        d = lib.first_diff([strip_read_calls(x) for x in io], [strip_read_calls(x) for x in mo])
        if d is not None and not [x for x in bad if x[1] != KNOWN_FP] and "corr" not in reported:
            reported.add("corr")
            ck.cov["disagreements_checked"] += 1
            ck.broke("correspondence model/implementation (dualS3Client)",
                     "history prefix:\n%s\nimpl : %s\nmodel: %s" % ("\n".join(ops[max(0, d - 12):d + 1]), io[d], mo[d] if d < len(mo) else None))
    # the overwrite really happens in the broker: replay the orphan-segment history on the real PartitionLog over the dual client
    sc_impl, _, crash = run_lines(ck, binary, ["scenario"], "scenario")
    if crash or not sc_impl[0].startswith("scenario "):
        ck.broke("orphan-overwrite scenario (PartitionLog over dualS3Client) did not run", crash or sc_impl[0])
    else:
        kv = dict(x.split("=", 1) for x in sc_impl[0].split()[1:])
        ck.case(("scenario", sc_impl[0]), sample={"op": "scenario", "impl": sc_impl[0]})
        ck.cov["traces_validated_against_impl"] += 1
        ck.count("scenario_overwrites_key", 1 if kv.get("base2") == "0" and kv.get("flush2") == "ok" and kv.get("orphan") == "ok" else 0)
        if kv.get("read") != kv.get("primary"):
            ck.violation(KNOWN_FP, "PartitionLog over the dual client: flush 1 leaves an orphan segment-0.kfs (index upload failed, not acknowledged), "
                         "the replica copies it, after restart the next flush overwrites segment-0.kfs on the primary; reading offset 0 returns the "
                         "orphan batch (marker %s) instead of the acknowledged one (marker %s)" % (kv.get("read"), kv.get("primary")),
                         {"ops": ["scenario"], "impl": sc_impl[0]})
    if ck.cov["distribution"].get("lists_under_primary_list_fault_while_replica_lags", 0) == 0:
        ck.broke("generator", "no listing under a primary List fault with a lagging replica was generated")
    # the higher-level path: PartitionLog.RestoreFromS3 through the dual client, lagging replica, primary List fault
    rs_impl, _, crash = run_lines(ck, binary, ["restore"], "restore")
    if crash or not rs_impl[0].startswith("restore want="):
        ck.broke("restore scenario (PartitionLog.RestoreFromS3 over dualS3Client) did not run", crash or rs_impl[0])
    else:
        ck.case(("restore", rs_impl[0]), sample={"op": "restore", "impl": rs_impl[0]})
        ck.cov["traces_validated_against_impl"] += 1
        for (fp, what) in restore_violations(rs_impl[0]):
            ck.violation(fp, what, {"ops": ["restore"], "impl": rs_impl[0]})
        ck.count("restore_attempts_under_primary_list_fault", 4)
    # replicas that stall 50 ms … 12 s (slow to fail / hang then fail / slow to answer an equal copy) under a 30 s caller deadline,
    # once with the environment as it is and once with every KAFSCALE_S3_*TIMEOUT* knob of the current source set to 100 ms
    if ck.cov["distribution"].get("reads_failing_on_both_sides_primary_transient", 0) == 0:
        ck.broke("generator", "no read was generated in which the replica does not deliver and the primary fails transiently")
    for tag, th, box, opline, envs in slow_jobs:
        th.join()
        sl_impl, crash = box.get("impl"), box.get("crash")
        if crash or not sl_impl or not sl_impl[0].startswith("slow "):
            ck.broke("slow-replica scenario (%s) did not run" % tag, crash or (sl_impl[0] if sl_impl else "no output"))
            continue
        ck.case((opline, tag, sl_impl[0]), sample={"op": opline, "env": envs, "impl": sl_impl[0]})
        ck.cov["traces_validated_against_impl"] += 1
        ck.count("timeout_env_knobs_found_in_source", len(envs) if tag == "knobs" else 0)
        for fp, what in slow_violations(sl_impl[0], envs):
            ck.violation(fp, what, {"ops": [opline], "env": envs, "impl": sl_impl[0]})
        ck.count("slow_replica_reads", len(sl_impl[0].split()) - 1)
    ck.partial = ("reads match the primary is proved for replication-safe histories (the primary never changes or deletes an object the "
                  "replica already holds); for a replica lagging behind an overwrite/delete the statement is false (witness theorems) — known finding")


def replay(ck, path):
    import json
    rep = json.load(open(path))
    bins = ck.build_all()
    if bins is None:
        return
    ops = rep["ops"]
    fn = ck.path("ops_replay.txt")
    open(fn, "w").write("\n".join(ops) + "\n")
    env = {"VERIF_HARNESS": "C44"}
    env.update(rep.get("env") or {})
    rc, out, err = ck.run_bin(bins["broker"], stdin_path=fn, env=env)
    impl = out.split("\n")[:-1]
    if rc != 0 or len(impl) != len(ops):
        ck.broke("replay harness", "impl rc=%s answered %d/%d lines %s" % (rc, len(impl), len(ops), err[-500:]))
        return
    for o, r in zip(ops, impl):
        print("  %-40s -> %s" % (o[:40], r[:160]))
    ck.case(tuple(ops), sample={"ops": ops})
    ck.cov["distinct_nontrivial"] = max(ck.cov["distinct_nontrivial"], 2)
    for (i, fp, what) in monitor(ops, impl):
        ck.violation(fp, what, {"ops": ops, "actual": what})
    for o in impl:
        if o.startswith("slow "):
            for fp, what in slow_violations(o, rep.get("env") or {}):
                ck.violation(fp, what, {"ops": ops, "env": rep.get("env") or {}, "impl": o})
        if o.startswith("restore want="):
            for (fp, what) in restore_violations(o):
                ck.violation(fp, what, {"ops": ops, "impl": o})
        if o.startswith("scenario "):
            kv = dict(x.split("=", 1) for x in o.split()[1:])
            if kv.get("read") != kv.get("primary"):
                ck.violation(KNOWN_FP, "orphan-overwrite scenario: read %s, primary %s" % (kv.get("read"), kv.get("primary")), {"ops": ops, "impl": o})
