"""C32 — An LFS HTTP upload reported successful is stored and acknowledged."""
import json
import os

from checks import lib

PROPERTY = "C32"
LEAN_MODULES = ["KafVerif.Props.C32", "KafVerif.Props.C32Locks", "KafVerif.Props.C32Gone"]
OBLIGATIONS = [
    "KafVerif.C32.http_ok_sound",
    "KafVerif.C32.only_complete_returns_envelope",
    "KafVerif.C32.produce_ok_sound",
    "KafVerif.C32.ack_iff_code_zero",
    "KafVerif.C32.ackPositiveOnly_violates",
    "KafVerif.C32.produceOld_violates",
    "KafVerif.C32.completeOld_subset_violates",
    "KafVerif.C32.partOld_rehash_violates",
    "KafVerif.C32.locked_schedules_are_serial",
    "KafVerif.C32.http_ok_sound_concurrent",
    "KafVerif.C32.concurrent_part_never_returns_envelope",
    "KafVerif.C32.split_lock_violates",
    "KafVerif.C32.produce_part_fault_is_error",
    "KafVerif.C32.retry_consumed_body_violates",
    "KafVerif.C32.retry_before_read_harmless",
    "KafVerif.C32.source_part_handler_holds_lock_across_s3",
    "KafVerif.C32.source_complete_abort_are_one_lock_region",
    "KafVerif.C32.http_ok_sound_source_locking",
    "KafVerif.C32.complete_ok_implies_object_assembled",
    "KafVerif.C32.complete_after_abort_is_error",
    "KafVerif.C32.noSuchUploadOk_violates",
]
BUILDS = {"h": ("root", "./cmd/proxy", ["C30", "C32"])}
LEVEL_TEXT = ("Lean 4 theorems: after every history of multipart session operations (any part numbers/sizes, re-PUTs, S3 "
              "failures, completion lists, expiry, abort, broker replies) a completion answered 200 implies the stored object is "
              "exactly the data the envelope's size and SHA-256 were computed over and the broker acknowledged with code 0 "
              "(http_ok_sound, invariant by induction over the history); the same for the single-request path "
              "(produce_ok_sound); and for every SCHEDULE of overlapping part requests (per-request steps check / S3 upload / "
              "record interleaved with the other session operations) under the code's locking — session lock held across the "
              "S3 call — every lock-free state is a state of the sequential machine (locked_schedules_are_serial), so the "
              "same soundness holds (http_ok_sound_concurrent); witnesses for the split-lock and the retry-with-consumed-body "
              "variants; and for every history that also contains S3-side aborts of the in-flight upload and requests running on a "
              "session object they looked up before the lock holder deleted it: a completion answered 200 found the upload id "
              "still known to S3 and the object assembled (complete_ok_implies_object_assembled), after an abort no completion "
              "is answered 200 (complete_after_abort_is_error). Tied to the source by driving the real HTTP handlers with a ghost S3 (real multipart "
              "semantics) and a scripted broker socket, diffed against the model, plus a direct monitor.")
LEVEL_NOTE = ("Payload bytes are abstract chunks in the model (hash functions never computed); one session at a time; the "
              "session lookup is merged with taking the session lock in the concurrent model; S3 "
              "multipart semantics (object = concatenation of the listed parts, ascending order, matching ETags) and the broker "
              "reply classes are the model's parameters, implemented by the harness fakes.")
TECHNIQUE = "Lean 4 proof (invariant over a transition system) + Go/Lean differential correspondence + direct monitor"
ASSUMPTIONS = [
    "S3: CompleteMultipartUpload builds the object from exactly the listed parts (ascending numbers, matching ETags); a failed UploadPart stores nothing; S3 consumes the request body of a call whether or not the call then fails (fail-after-read), except for connection-level failures (fail-before-read)",
    "S3 forgets a multipart upload id when the upload is completed or aborted (by the proxy or behind its back) and answers every call naming it with the API error NoSuchUpload, never with success",
    "one upload session at a time; its requests may overlap arbitrarily (sync.Mutex gives mutual exclusion; the harness overlaps requests at the S3 UploadPart seam)",
    "broker replies are one of: ack, per-partition error code, response without our partition, undecodable frame, connection closed, connection refused",
]

# ---------------------------------------------------------------- static tie: lock regions of the session handlers
GEN = os.path.join(lib.LEAN, "KafVerif", "Gen", "C32Locks.lean")
KIND = {"Lock": ".lock", "Unlock": ".unlock", "deferUnlock": ".deferUnlock", "go": ".go", "body": ".body", "deleteSession": ".deleteSession"}
def lean_of(out):
    fns, cur, done = [], None, False
    for l in out.split("\n"):
        f = l.split()
        if not f:
            continue
        if f[0] == "func":
            cur = (f[1], [])
            fns.append(cur)
        elif f[0] == "ev" and cur is not None:
            k, a, line = f[1], f[2], f[3]
            if k in KIND:
                e = KIND[k]
            elif k == "s3":
                e = '.s3 "%s"' % a
            elif k == "use":
                e = '.use "%s"' % a
            elif k.startswith("defer"):
                e = '.otherMu "%s"' % k
            else:
                e = '.otherMu "%s"' % k
            cur[1].append((e, line))
        elif f[0] == "done":
            done = True
        elif f[0] == "error":
            raise RuntimeError("lock-region extractor: " + l)
    if not done or len(fns) != 3:
        raise RuntimeError("lock-region extractor output incomplete: " + out[-300:])
    src = ("-- REGENERATED by checks/C32.py from cmd/proxy/lfs_http.go (upload-session handlers), do not edit\n"
           "import KafVerif.Model.LfsLocks\nnamespace KafVerif.Gen.C32Locks\nopen KafVerif.LfsLocks\n")
    for name, evs in fns:
        src += "def %s : List LEv := [\n%s]\n" % (name, ",\n".join("  %s" % e for e, _ in evs))
    src += "end KafVerif.Gen.C32Locks\n"
    return src, fns


def _bins(ck):
    b = getattr(ck, "_c32_bins", None)
    if b is None:
        b = ck.build_all()
        ck._c32_bins = b
    return b


def generate(ck):
    """Regenerate lean/KafVerif/Gen/C32Locks.lean from the current cmd/proxy/lfs_http.go (go/ast extractor inside the harness)."""
    bins = _bins(ck)
    if bins is None:
        raise RuntimeError("harness (which contains the extractor) does not build")
    rc, out, err = ck.run_bin(bins["h"], env={"VERIF_HARNESS": "C32", "VERIF_C32_EXTRACT": lib.REPO})
    if rc != 0:
        raise RuntimeError("lock-region extractor failed: " + out[-400:] + err[-400:])
    src, fns = lean_of(out)
    old = open(GEN).read() if os.path.exists(GEN) else None
    if old != src:
        tmp = GEN + ".tmp%d" % os.getpid()
        open(tmp, "w").write(src)
        os.replace(tmp, GEN)
    for name, evs in fns:
        ck.cov["distribution"]["lock-skeleton-events:" + name] = len(evs)
    part = [e for e, _ in dict(fns)["handleHTTPUploadPart"]]
    if part[:2] != [".lock", ".deferUnlock"] or any(e in (".lock", ".unlock", ".deferUnlock", ".go") or e.startswith(".otherMu") for e in part[2:]):
        held, where = False, None
        for e, line in dict(fns)["handleHTTPUploadPart"]:
            if e == ".lock":
                held = True
            elif e == ".unlock":
                held = False
            elif e.startswith(".s3") and not held:
                where = "%s at lfs_http.go:%s runs without the session lock" % (e, line)
        ck.log("lock skeleton of handleHTTPUploadPart is no longer one lock region" + (": " + where if where else ""))


MIN_PART = 5 * 1024 * 1024
BROKERS = ["ack"] * 6 + ["code:6", "code:-1", "code:?", "code:?", "nopartition", "garbage", "close", "refuse"]
CODES = [0, -1, 1, 2, 3, 6, 7, 10, 87]
# S3 outcomes of a streamed (single-request) upload's UploadPart calls: persistent / transient (.once), after S3 read the
# request body (default; what a 500 / response timeout / reset mid-transfer looks like) / before it (.before)
PART_FAULTS = ["part1", "part1.once", "part2", "part2.once", "part2.once", "part3.once", "part1.once.before", "part2.once.before",
               "part2.before", "complete.once", "create.once", "create.once.before"]


def broker(rng):
    """A broker reply class; `code:?` is drawn from the named Kafka codes (incl. 0 = ack and -1 = UNKNOWN_SERVER_ERROR) or any int16."""
    b = rng.choice(BROKERS)
    if b == "code:?":
        n = rng.choice(CODES) if rng.chance(2, 3) else rng.range(-32768, 32767)
        return "code:%d" % n
    return b


def gen_produce_case(rng):
    mb = rng.choice([0, 0, 0, 100, 5 << 30])
    ops = ["new %d %s" % (mb, rng.choice(["sha256", "sha256", "md5", "crc32", "none"]))]
    for _ in range(rng.range(2, 6)):
        n = rng.choice([1, 7, 7, 100, 101, 4096, 0]) if not rng.chance(1, 16) else rng.choice([MIN_PART, MIN_PART + 9, MIN_PART - 1, 2 * MIN_PART + 1])
        alg = rng.choice(["-", "-", "-", "sha256", "md5", "crc32", "none", "bogus"])
        ck = rng.choice(["absent", "absent", "right", "right", "wrong"])
        fault = "none" if not rng.chance(1, 5) else rng.choice(["put", "create", "part1", "complete", "delete"])
        if n >= MIN_PART and rng.chance(1, 2):
            fault = rng.choice(PART_FAULTS)
        elif fault == "none" and rng.chance(1, 12):
            fault = rng.choice(["put.once", "put.before", "put.once.before", "delete.once", "create.once"])
        ops.append("produce %d %d %s %s %s %s" % (n, rng.range(1, 250), alg, ck, fault, broker(rng)))
    return ops


def gen_session_case(rng, focused=None):
    """focused = None: the general generator; otherwise a hunt for concrete failing inputs: valid init and parts
    (with S3 part failures + retries), completion-list deviations, mostly acknowledging brokers."""
    mb = rng.choice([0, 0, 0, 5 << 30, 100]) if focused is None else 0
    ops = ["new %d %s" % (mb, rng.choice(["sha256", "sha256", "md5", "none"]))]
    nparts = rng.choice([1, 1, 1, 2, 2, 2, 2, 3]) if focused is None else rng.choice([1, 2, 2, 2])
    last = rng.choice([1, 7, 7, 100, 4096])
    lens = [MIN_PART] * (nparts - 1) + [last]
    fills = [rng.range(1, 250) for _ in lens]
    size = sum(lens)
    plan = ",".join("%d:%d" % (l, f) for l, f in zip(lens, fills))
    alg = rng.choice(["-", "-", "sha256", "md5", "crc32", "none"])
    ck = rng.choice(["absent", "absent", "absent", "right", "right", "wrong"]) if focused is None else "absent"
    dev = rng.below(24) if focused is None else 99
    init_size = size
    cf = "0"
    if dev == 0:
        init_size = rng.choice([0, -1, size + 1, size - 1 if size > 1 else 5])
    elif dev == 1:
        alg = "bogus"
    elif dev == 2:
        cf = "1"
    ops.append("init %d %s %s %s %s" % (init_size, alg, ck, cf, plan))
    # parts, with deviations sprinkled in
    for i, (l, f) in enumerate(zip(lens, fills), 1):
        d = rng.below(12) if focused is None else rng.choice([0, 9, 9])
        if d == 0:
            ops.append("part %d %d %d 1" % (i, l, f))            # S3 failure, then the client retries
        elif d == 1:
            ops.append("part %d %d %d 0" % (i + 1, l, f))        # skipped ahead -> 409
        elif d == 2 and i > 1:
            ops.append("part %d %d %d 0" % (i - 1, 9, 3))        # re-PUT of a stored part with other bytes
        elif d == 3:
            ops.append("part %d %d %d 0" % (i, rng.choice([0, MIN_PART + 1, l + 1 if i == len(lens) else 100]), f))
        ops.append("part %d %d %d 0" % (i, l, f))
    if focused is None and rng.chance(1, 10):
        ops.append(rng.choice(["abort", "expire"]))
    allp = list(range(1, nparts + 1))
    lst = [(n, "ok") for n in allp]
    forgot = False
    if focused is None and rng.chance(1, 10):
        ops.pop()                                                # forget the last op (often: last part missing)
        forgot = True
    # completion
    kind = rng.below(16) if focused is None else rng.choice([0, 6, 7, 9, 9])
    if forgot and nparts > 1 and rng.chance(1, 2):
        lst, kind = lst[:-1], 99                                 # completes with exactly what was uploaded so far
    if kind == 0 and nparts > 1:
        lst = [(n, "ok") for n in allp if n != rng.choice(allp)] or lst[:1]   # subset
    elif kind == 1 and nparts > 1:
        lst = lst[::-1]
    elif kind == 2:
        lst = lst + [lst[-1]]
    elif kind == 3:
        lst[rng.below(len(lst))] = (lst[0][0], rng.choice(["bad", "empty"]))
    elif kind == 4:
        lst = []
    elif kind == 5:
        lst = lst + [(nparts + 1, "ok")]
    elif kind == 6 and nparts > 1:
        lst = lst[1:]                                            # drops part 1
    elif kind == 7 and nparts > 1:
        lst = lst[:-1]                                           # drops the last part
    elif kind == 8 and nparts > 1:
        lst = [(rng.choice(allp), "ok") for _ in allp]           # right length, wrong numbers
    s3f = "1" if rng.chance(1, 10) and focused is None else "0"
    br = broker(rng) if focused is None else rng.choice(["ack", "ack", "ack", "code:6", "code:-1", "code:0", "nopartition", "garbage"])
    ops.append("complete %s %s %s" % (",".join("%d:%s" % p for p in lst) or "-", s3f, br))
    if s3f == "1" or br != "ack" or rng.chance(1, 4):
        ops.append("complete %s 0 %s" % (",".join("%d:ok" % n for n in allp), broker(rng)))
    if rng.chance(1, 8):
        ops.append(rng.choice(["abort", "part 1 7 9 0", "complete 1:ok 0 ack"]))
    return ops


def gen_par_case(rng, focused=False):
    """One session whose part requests OVERLAP (`par`): the same part number sent again while the first PUT is still in
    its S3 round trip (a timeout retry racing the original), different part numbers at once, with S3 failures, with an
    abort; then completion requests.  Declared sizes are multiples of the part so that a part counted twice could
    reach the declared size."""
    ops = ["new 0 %s" % rng.choice(["sha256", "sha256", "md5", "none"])]
    f1, f2 = rng.range(1, 250), rng.range(1, 250)
    last = rng.choice([1, 7, 100, 4096])
    alg = rng.choice(["-", "-", "md5", "sha256"])
    ck = rng.choice(["absent", "absent", "right"])
    P = lambda n, l, f, x=0: "part:%d:%d:%d:%d" % (n, l, f, x)
    allok = lambda k: ",".join("%d:ok" % n for n in range(1, k + 1))
    shape = rng.below(10) if not focused else rng.choice([0, 0, 1, 8])
    br = "ack" if focused else broker(rng)
    if shape in (0, 1, 2):                 # k equal 5 MiB parts declared; part 1 sent k times at once
        k = 3 if shape == 2 else 2
        ops.append("init %d %s %s 0 %s" % (k * MIN_PART, alg, ck, ",".join(["%d:%d" % (MIN_PART, f1)] * k)))
        ops.append("par " + " ".join([P(1, MIN_PART, f1)] * k))
        ops.append("complete 1:ok 0 ack")
        for n in range(2, k + 1):
            ops.append("part %d %d %d 0" % (n, MIN_PART, f1))
        ops.append("complete %s 0 %s" % (allok(k), br))
    elif shape == 3:                       # parts 1 and 2 at once
        ops.append("init %d %s %s 0 %d:%d,%d:%d" % (MIN_PART + last, alg, ck, MIN_PART, f1, last, f2))
        ops.append("par %s %s" % (P(1, MIN_PART, f1), P(2, last, f2)))
        ops.append("complete %s 0 %s" % (allok(2), br))
    elif shape == 4:                       # the short last part twice at once
        ops.append("init %d %s %s 0 %d:%d,%d:%d" % (MIN_PART + last, alg, ck, MIN_PART, f1, last, f2))
        ops.append("part 1 %d %d 0" % (MIN_PART, f1))
        ops.append("par %s %s" % (P(2, last, f2), P(2, last, f2)))
        ops.append("complete %s 0 %s" % (allok(2), br))
    elif shape == 5:                       # the first attempt fails at S3 while the retry waits
        ops.append("init %d %s %s 0 %d:%d,%d:%d" % (MIN_PART + last, alg, ck, MIN_PART, f1, last, f2))
        ops.append("par %s %s" % (P(1, MIN_PART, f1, 1), P(1, MIN_PART, f1)))
        ops.append("part 2 %d %d 0" % (last, f2))
        ops.append("complete %s 0 %s" % (allok(2), br))
    elif shape == 6:                       # three requests: part 1 twice and part 2
        ops.append("init %d %s %s 0 %d:%d,%d:%d" % (2 * MIN_PART, alg, ck, MIN_PART, f1, MIN_PART, f2))
        ops.append("par %s %s %s" % (P(1, MIN_PART, f1), P(1, MIN_PART, f1), P(2, MIN_PART, f2)))
        ops.append("complete 1:ok 0 ack")
        ops.append("complete %s 0 %s" % (allok(2), br))
    elif shape == 7:                       # an abort arrives while part 1 is in its S3 round trip
        ops.append("init %d %s %s 0 %d:%d" % (MIN_PART, alg, ck, MIN_PART, f1))
        ops.append("par %s abort" % P(1, MIN_PART, f1))
        ops.append("complete 1:ok 0 %s" % br)
    else:                                  # three 5 MiB parts declared; part 2 sent twice at once, completion lists 1,2
        ops.append("init %d %s %s 0 %s" % (3 * MIN_PART, alg, ck, ",".join(["%d:%d" % (MIN_PART, f1)] * 3)))
        ops.append("part 1 %d %d 0" % (MIN_PART, f1))
        ops.append("par %s %s" % (P(2, MIN_PART, f1), P(2, MIN_PART, f1)))
        ops.append("complete 1:ok,2:ok 0 ack")
        ops.append("part 3 %d %d 0" % (MIN_PART, f1))
        ops.append("complete %s 0 %s" % (allok(3), br))
    return ops


def gen_gone_case(rng, focused=False):
    """The multipart upload id is gone from S3 WITHOUT having been completed when the completion runs: S3 answers
    NoSuchUpload, which is an error of the completion (never "already completed").  (a) `lifecycle-abort`: a bucket
    lifecycle rule / an operator aborted the upload behind the proxy's back, at any point of the session;
    (b) `par abort complete/…`: the client's DELETE holds the session lock inside S3 AbortMultipartUpload while the
    completion has already looked the session up and waits for the lock, then runs on the orphaned session;
    (c) completion overlapping a part upload, repeated completion after a successful one (id gone because completed)."""
    ops = ["new 0 %s" % rng.choice(["sha256", "sha256", "md5", "none"])]
    nparts = rng.choice([1, 1, 1, 2]) if not focused else 1
    last = rng.choice([1, 7, 100, 4096])
    lens = [MIN_PART] * (nparts - 1) + [last]
    fills = [rng.range(1, 250) for _ in lens]
    alg = rng.choice(["-", "-", "md5", "sha256"])
    ck = rng.choice(["absent", "absent", "right"])
    ops.append("init %d %s %s 0 %s" % (sum(lens), alg, ck, ",".join("%d:%d" % x for x in zip(lens, fills))))
    allok = ",".join("%d:ok" % n for n in range(1, nparts + 1))
    br = "ack" if focused or rng.chance(3, 4) else broker(rng)
    shape = rng.below(8) if not focused else rng.choice([0, 2])
    parts = ["part %d %d %d 0" % (i, l, f) for i, (l, f) in enumerate(zip(lens, fills), 1)]
    if shape in (0, 1):                    # lifecycle abort after the last part, then completion (and a repeated one)
        ops += parts + ["lifecycle-abort", "complete %s 0 %s" % (allok, br)]
        if shape == 1:
            ops += ["complete %s 0 ack" % allok, "abort", "complete %s 0 ack" % allok]
    elif shape in (2, 3):                  # client abort overlapping the completion
        ops += parts + ["par abort complete/%s/0/%s" % (allok, br)]
        if shape == 3:
            ops.append("complete %s 0 ack" % allok)
    elif shape == 4:                       # lifecycle abort before the (last) part: the part fails, nothing completes
        ops += parts[:-1] + ["lifecycle-abort", parts[-1], "complete %s 0 %s" % (allok, br), parts[-1], "complete %s 0 ack" % allok]
    elif shape == 5:                       # a re-PUT of the last part (idempotent, answered at once) arriving with the completion
        ops += parts + ["par part:%d:%d:%d:0 complete/%s/0/%s" % (nparts, lens[-1], fills[-1], allok, br)]
    elif shape == 6:                       # completion first (answered), then an abort of the session it deleted; repeated completion
        ops += parts + ["par complete/%s/0/%s abort" % (allok, br), "complete %s 0 ack" % allok]
    else:                                  # two aborts overlapping, then completion
        ops += parts + ["par abort abort", "complete %s 0 %s" % (allok, br)]
    return ops


def parse(line):
    left, _, right = line.partition(" | ")
    kv = dict(x.split("=", 1) for x in (left + " " + right).split()[1:] if "=" in x)
    return left, kv


def monitor(ops, impl):
    """The property on the implementation's lines.  Returns (index, fingerprint, what) or None."""
    for i, (op, line) in enumerate(zip(ops, impl)):
        kind = op.split()[0]
        if "panic" in line.split()[:2]:
            return i, kind + "-panics", line[:160]
        if kind == "par":
            # overlapping requests; at most one of them is a completion (`complete/<list>/<s3Fails>/<broker>`)
            reqs = op.split()[1:]
            at = [j for j, r in enumerate(reqs) if r.startswith("complete/")]
            _, kv = parse(line)
            sts = kv.get("status", "").split(",")
            if not at:
                if "env=none" not in line:
                    return i, "part-returns-envelope", "overlapping part/abort requests were answered with an envelope"
                continue
            if at[0] >= len(sts) or sts[at[0]] != "200":
                if "env=none" not in line:
                    return i, "complete-error-with-envelope", "a completion answered %s returned an envelope" % sts[at[0]:at[0] + 1]
                continue
            kv["status"] = "200"
            kind = "complete"
        elif kind not in ("produce", "complete"):
            if kind in ("init", "part", "abort", "expire", "lifecycle-abort") and "env=none" not in line:
                return i, kind + "-returns-envelope", "a %s request was answered with an envelope" % kind
            continue
        else:
            _, kv = parse(line)
        if kv.get("status") != "200":
            continue
        which = "single-request upload" if kind == "produce" else "multipart completion"
        if kv["env"] == "none":
            return i, kind + "-200-without-envelope", "%s answered 200 without a decodable envelope" % which
        if kv["obj"] == "none":
            return i, kind + "-200-object-missing", "%s answered 200 but no object exists under the envelope's key" % which
        if kv["obj"] != kv["env"]:
            return i, kind + "-200-object-size-differs", "%s answered 200: object has %s bytes, envelope size is %s" % (which, kv["obj"], kv["env"])
        if kv["sha_is_obj"] != "true":
            return i, kind + "-200-object-sha-differs", "%s answered 200: SHA-256 of the stored object differs from the envelope's sha256" % which
        if kv["acked"] != "true":
            return i, kind + "-200-without-broker-ack", "%s answered 200 although the broker did not acknowledge the record with error code 0 (%s)" % (which, op.split()[-1].split("/")[-1])
        if kv["rec_env"] != "true" or kv["key_ok"] != "true":
            return i, kind + "-200-record-is-not-the-envelope", "%s answered 200 but the produced record / key does not match the returned envelope" % which
    return None


def run_ops(ck, binary, ops, tag, model=True):
    fn = ck.path("ops_%s.txt" % tag)
    open(fn, "w").write("\n".join(ops) + "\n")
    rc, out, err = ck.run_bin(binary, stdin_path=fn, env={"VERIF_HARNESS": "C32", "GOGC": "400"}, timeout=900)
    if tag == "all":
        ck.log("implementation answered %d ops" % len(ops))
    impl = out.split("\n")[:-1]
    if rc != 0 or len(impl) != len(ops):
        return None, None, "rc=%s answered %d of %d\n%s" % (rc, len(impl), len(ops), err[-800:])
    mo = ck.lean_run("C32", fn) if model else None
    return impl, mo, None


def _fails(ck, binary, ops, fp):
    impl, _, crash = run_ops(ck, binary, ops, "dd", model=False)
    if crash:
        return False
    m = monitor(ops, impl)
    return m is not None and m[1] == fp


CORPUS = [
    ["new 0 sha256", "produce 7 65 - absent none code:6"],
    # negative codes are errors too (-1 = UNKNOWN_SERVER_ERROR is what the broker answers on internal produce faults); code 0 is an ack
    ["new 0 sha256", "produce 7 66 - absent none code:-1", "produce 7 67 - absent none code:-32768", "produce 7 68 - absent none code:0",
     "produce 7 69 - absent none code:32767"],
    ["new 0 sha256", "init 7 - absent 0 7:2", "part 1 7 2 0", "complete 1:ok 0 code:-1"],
    ["new 0 sha256", "init %d - absent 0 %d:1,7:2" % (MIN_PART + 7, MIN_PART), "part 1 %d 1 0" % MIN_PART, "part 2 7 2 0", "complete 2:ok 0 ack"],
    ["new 0 sha256", "init 7 - absent 0 7:2", "part 1 7 2 1", "part 1 7 2 0", "complete 1:ok 0 ack"],
    # single-request bodies that take UploadStream's multipart path (exactly one chunk, one chunk + short tail, two chunks + tail)
    ["new 0 sha256", "produce %d 9 - right none ack" % MIN_PART, "produce %d 10 md5 right none ack" % (MIN_PART + 9),
     "produce %d 11 - absent none ack" % (2 * MIN_PART + 1), "produce %d 12 - absent part1 ack" % (MIN_PART + 9),
     "produce %d 13 - absent complete ack" % (MIN_PART + 9), "produce %d 14 - wrong none ack" % (MIN_PART + 9)],
    ["new 100 sha256", "produce %d 9 - absent none ack" % (MIN_PART + 9), "produce 101 9 - absent none ack"],
    # transient S3 failures of a streamed upload, after / before S3 read the part's request body: one attempt per part, 502
    ["new 0 sha256", "produce %d 21 - absent part2.once ack" % (MIN_PART + 7), "produce %d 22 - absent part1.once ack" % (MIN_PART + 7),
     "produce %d 23 md5 right part3.once ack" % (2 * MIN_PART + 1), "produce %d 24 - absent part2.once.before ack" % (MIN_PART + 7),
     "produce %d 25 - absent part1.once ack" % MIN_PART, "produce 7 26 - absent put.once ack", "produce 7 27 - absent put.once.before ack",
     "produce %d 28 - absent complete.once ack" % (MIN_PART + 7), "produce %d 29 - absent create.once.before ack" % (MIN_PART + 7),
     "produce %d 30 - absent part3.once ack" % (MIN_PART + 7)],
    # overlapping PUTs of the same part (timeout retry racing the original): the second is an idempotent re-PUT, counted once
    ["new 0 sha256", "init %d - absent 0 %d:1,%d:1" % (2 * MIN_PART, MIN_PART, MIN_PART), "par part:1:%d:1:0 part:1:%d:1:0" % (MIN_PART, MIN_PART),
     "complete 1:ok 0 ack", "part 2 %d 1 0" % MIN_PART, "complete 1:ok,2:ok 0 ack"],
    ["new 0 sha256", "init %d - absent 0 %d:1,7:2" % (MIN_PART + 7, MIN_PART), "par part:1:%d:1:0 part:2:7:2:0" % MIN_PART, "complete 1:ok,2:ok 0 ack"],
    ["new 0 md5", "init %d md5 right 0 %d:1,7:2" % (MIN_PART + 7, MIN_PART), "part 1 %d 1 0" % MIN_PART, "part 2 7 2 0", "part 1 %d 1 0" % MIN_PART,
     "complete 1:ok,2:ok 0 ack"],
    # the upload id is gone from S3 without having been completed (NoSuchUpload): lifecycle abort; client abort overlapping the completion
    ["new 0 sha256", "init 7 - absent 0 7:2", "part 1 7 2 0", "lifecycle-abort", "complete 1:ok 0 ack", "abort"],
    ["new 0 sha256", "init 7 - absent 0 7:2", "part 1 7 2 0", "par abort complete/1:ok/0/ack", "complete 1:ok 0 ack"],
    ["new 0 sha256", "init 7 - absent 0 7:2", "lifecycle-abort", "part 1 7 2 0", "complete 1:ok 0 ack"],
    ["new 0 sha256", "init 7 - absent 0 7:2", "part 1 7 2 0", "par complete/1:ok/0/ack abort", "complete 1:ok 0 ack"],
]


def evaluate(ck, binary, cases):
    all_ops, bounds = [], []
    for ops in cases:
        bounds.append((len(all_ops), len(all_ops) + len(ops)))
        all_ops += ops
    impl, model, crash = run_ops(ck, binary, all_ops, "all")
    if crash:
        ck.broke("implementation harness did not answer every op", crash)
        return
    if len(model) != len(all_ops):
        ck.broke("Lean driver did not answer every op", "%d of %d" % (len(model), len(all_ops)))
        return
    for (a, b) in bounds:
        ops, io, mo = all_ops[a:b], impl[a:b], model[a:b]
        ok200 = 0
        for op, line in zip(ops, io):
            k = op.split()[0]
            if k == "new":
                continue
            _, kv = parse(line)
            ck.count("%s:%s" % (k, kv.get("status", "?")))
            if k == "par":
                ck.count("par-max-requests-inside-S3-at-once:%s" % kv.get("overlap", "?"))
            if k == "lifecycle-abort":
                ck.count("s3-upload-id-gone:lifecycle-abort")
            if k == "par" and "complete/" in op:
                ck.count("par-with-completion:%s" % kv.get("status", "?"))
            if k in ("produce", "complete"):
                bk = op.split()[-1]
                ck.count("broker:" + (bk.split(":")[0] if not bk.startswith("code:") else
                                      "code" + ("0" if bk == "code:0" else "-neg" if bk.startswith("code:-") else "-pos")))
                if kv.get("status") == "200":
                    ok200 += 1
        stored = any(" obj=" in l and " obj=none" not in l for l in io)
        ck.case(tuple(ops), nontrivial=stored, sample={"ops": ops[:8], "impl": io[:8]})
        ck.cov["traces_validated_against_impl"] += 1
        mon = monitor(ops, io)
        if mon is not None:
            i, fp, what = mon
            if fp in [v["fingerprint"] for v in ck.violations] or fp in [h["fingerprint"] for h in ck.known_hits]:
                continue                                       # already reported with a minimised replay
            small = lib.ddmin(ops[1:i + 1], lambda cand: _fails(ck, binary, [ops[0]] + cand, fp))
            ck.violation(fp, what, {"ops": [ops[0]] + small, "expected": "property monitor true on every line", "actual": what})
            continue
        d = lib.first_diff([parse(l)[0] for l in io], mo)
        if d is not None:
            ck.cov["disagreements_checked"] += 1
            if len(ck.broken) < 3:
                ck.broke("correspondence model/implementation (LFS HTTP upload)",
                         "case %r\nop   : %s\nimpl : %s\nmodel: %s" % (ops[:d + 1], ops[d] if d < len(ops) else None,
                                                                      io[d] if d < len(io) else None, mo[d] if d < len(mo) else None))


def hunt(ck, binary):
    """A correspondence broke without a monitor hit: search for a concrete failing input (monitor only)."""
    ck.log("hunting for a concrete failing input")
    cases = [gen_session_case(ck.rng.fork(), focused=True) for _ in range(120)]
    cases += [gen_par_case(ck.rng.fork(), focused=True) for _ in range(12)]
    cases += [gen_gone_case(ck.rng.fork(), focused=True) for _ in range(8)]
    cases += [["new 0 sha256"] + ["produce %d %d - absent %s ack" % (n, ck.rng.range(1, 250), f) for n in (MIN_PART, MIN_PART + 7, 2 * MIN_PART + 1)
                                for f in ("part1.once", "part2.once", "part3.once", "part2.once.before")]]
    cases += [["new 0 sha256"] + ["produce %d %d - %s none %s" % (ck.rng.choice([1, 7, 100]), ck.rng.range(1, 250), ck.rng.choice(["absent", "right"]), b)
                                for b in ("ack", "code:6", "code:1", "code:-1", "code:-32768", "code:0", "nopartition", "garbage", "close")] for _ in range(5)]
    all_ops, bounds = [], []
    for ops in cases:
        bounds.append((len(all_ops), len(all_ops) + len(ops)))
        all_ops += ops
    impl, _, crash = run_ops(ck, binary, all_ops, "hunt", model=False)
    if crash:
        return
    for (a, b) in bounds:
        ops, io = all_ops[a:b], impl[a:b]
        ck.cov["evaluations"] += 1
        mon = monitor(ops, io)
        if mon is not None and mon[1] not in [v["fingerprint"] for v in ck.violations]:
            i, fp, what = mon
            small = lib.ddmin(ops[1:i + 1], lambda cand: _fails(ck, binary, [ops[0]] + cand, fp))
            ck.violation(fp, what, {"ops": [ops[0]] + small, "expected": "property monitor true on every line", "actual": what})


def run(ck):
    bins = _bins(ck)
    if bins is None:
        return
    ck.log("harness built")
    n_prod = 80 if ck.quick() else 1500
    n_sess = 60 if ck.quick() else 1200
    n_par = 14 if ck.quick() else 200
    n_gone = 30 if ck.quick() else 400
    ck.cov["rule"] = ("cases = `new` + 2-5 single-request uploads (body size, algorithm, checksum, S3 fault, broker reply) or one "
                      "multipart session history (init, 1-3 parts with 5 MiB non-final parts, failures/re-PUTs/out-of-order, "
                      "completion list variants, broker replies, abort/expire, repeated completion) or one session whose part "
                      "requests overlap at the S3 UploadPart seam (`par`: same part twice/thrice, different parts, S3 failure + "
                      "retry, abort) or one session whose S3 upload id is gone without having been completed when the completion runs "
                      "(`lifecycle-abort` = S3-side abort at any point; `par abort complete/…` = client abort overlapping a completion that "
                      "already looked the session up; completion overlapping a part; repeated completions) ; S3 faults persistent/transient, after/before S3 read the request body; non-trivial = an object was "
                      "stored; distinct = distinct op sequences")
    cases = [list(c) for c in CORPUS]
    for _ in range(n_prod):
        cases.append(gen_produce_case(ck.rng.fork()))
    for _ in range(n_sess):
        cases.append(gen_session_case(ck.rng.fork()))
    for _ in range(n_par):
        cases.append(gen_par_case(ck.rng.fork()))
    for _ in range(n_gone):
        cases.append(gen_gone_case(ck.rng.fork()))
    evaluate(ck, bins["h"], cases)
    if ck.broken and not ck.violations:
        hunt(ck, bins["h"])


def replay(ck, path):
    rep = json.load(open(path))
    bins = _bins(ck)
    if bins is None:
        return
    ops = rep["ops"]
    impl, model, crash = run_ops(ck, bins["h"], ops, "replay")
    if crash:
        ck.broke("implementation harness did not answer every op", crash)
        return
    for o, r, m in zip(ops, impl, model):
        print("  %-50s -> %s\n  %-50s    model: %s" % (o[:50], r, "", m))
    ck.case(tuple(ops), sample={"ops": ops})
    ck.cov["evaluations"] = max(ck.cov["evaluations"], 1); ck.cov["distinct_nontrivial"] = 2
    mon = monitor(ops, impl)
    if mon:
        ck.violation(mon[1], mon[2], {"ops": ops, "actual": mon[2]})
