"""C39 — Operator metadata matches deployed brokers; derived bucket names are valid.

Tie to the code: generated cluster specs / topic sets go through the real `BuildClusterMetadata`,
`defaultEtcdSnapshotBucket`, `sanitizeBucketName` (overlay wrappers in pkg/operator) and through the
Lean model (`lean/Driver/C39.lean`); lines are diffed.  Direct monitors on the implementation's
output: (a) the metadata lists brokers 0..r-1 with the pod DNS name the *deployed* StatefulSet /
headless Service give (those objects are produced by the real reconcilers against a fake API
server — `dep` lines; since r3 EVERY `md` case is paired with the `dep` line of the same spec, and cluster names of 40..253
characters around the 47/48 boundary of `<name>-broker-headless` vs the 63-character DNS label are generated), leaders are listed brokers, partition ids are 0..n-1; (b) every bucket name
satisfies the S3 general-purpose bucket naming rules.
"""
import re

from checks import lib

PROPERTY = "C39"
LEAN_MODULES = ["KafVerif.Props.C39"]
OBLIGATIONS = [
    "KafVerif.C39.build_eq_spec",
    "KafVerif.C39.brokers_match",
    "KafVerif.C39.leaders_valid",
    "KafVerif.C39.partitions_dense",
    "KafVerif.C39.build_panics_iff",
    "KafVerif.C39.pod_host_is_statefulset_dns",
    "KafVerif.C39.statefulset_replicas_match",
    "KafVerif.C39.headless_name_any_length",
    "KafVerif.C39.published_host_service_is_deployed_service",
    "KafVerif.C39.brokers_published_under_deployed_service",
    "KafVerif.C39.headless_label_fits_iff",
    "KafVerif.C39.cut_service_same_for_short_names",
    "KafVerif.C39.cut_service_breaks_every_long_name",
    "KafVerif.C39.bucket_valid",
    "KafVerif.C39.lowerLatin1_fixes",
    "KafVerif.C39.bucket_old_violates",
]
ASSUMPTIONS = [
    "CRD-valid specs (DESIGN §5): brokers.replicas >= 1 (CRD: minimum 1, default 3), topic partitions >= 0 (CRD: minimum 1); "
    "the nil-replicas mismatch (StatefulSet defaults to 3, metadata to 1) is outside the quantifier and only noted",
    "strings.ToLower is an arbitrary rune-wise function that fixes [a-z0-9-] in the bucket theorem; the executable model lowers ASCII and Latin-1",
    "int32 arithmetic is modelled with unbounded integers (replica / partition counts far below 2^31)",
    "cluster names longer than 47 characters give a headless Service name '<name>-broker-headless' longer than the 63-character DNS label "
    "limit on the unchanged code (headless_label_fits_iff); a real API server would refuse that Service; counted in the evidence "
    "(residual_headless_service_name_longer_than_63), not alarmed - the property only asks that published hosts and deployed objects agree",
    "S3 rule 'must not end with -s3alias' is NOT guaranteed by the code (cluster named '...-s3alias'); counted in the evidence, not part of validBucket",
]
TECHNIQUE = "Lean 4 refinement theorem for BuildClusterMetadata (closed form over List.range) and a validity theorem for every derived bucket name; differential correspondence + monitors incl. the deployed StatefulSet/Service from the real reconcilers on a fake API server"
LEVEL_TEXT = ("proof: build_eq_spec (BuildClusterMetadata = prescribed metadata on every CRD-valid spec/topic set) with corollaries "
              "brokers_match, leaders_valid, partitions_dense; published_host_service_is_deployed_service (for names of any length the published "
              "host is a pod address under svc iff svc = the deployed serviceName); bucket_valid for every namespace/name (length 3-63, [a-z0-9-], alphanumeric ends, "
              "kafscale-etcd prefix, no '--') — all full strength")
LEVEL_NOTE = "correspondence and monitors are testing; they tie the model to the current source"
BUILDS = {"h": ("root", "./cmd/verif_c39", ["C39"])}


def hx(s):
    return s.encode("utf8").hex() if s else "-"


def unhx(h):
    return "" if h == "-" else bytes.fromhex(h).decode("utf8", "replace")


GO_SPACE = set(chr(c) for c in [0x20, 9, 10, 11, 12, 13, 0x85, 0xA0, 0x1680, 0x2028, 0x2029, 0x202F, 0x205F, 0x3000] + list(range(0x2000, 0x200B)))


def go_trim(s):
    i, j = 0, len(s)
    while i < j and s[i] in GO_SPACE:
        i += 1
    while j > i and s[j - 1] in GO_SPACE:
        j -= 1
    return s[i:j]


BUCKET_RE = re.compile(r"^[a-z0-9][a-z0-9.-]{1,61}[a-z0-9]$")


def bucket_problem(b):
    """S3 general purpose bucket naming rules; returns (fingerprint, text) or None."""
    if not (3 <= len(b) <= 63):
        return "bucket-name-length-out-of-3-63", "bucket name %r has %d characters" % (b, len(b))
    if not BUCKET_RE.match(b):
        return "bucket-name-bad-characters-or-ends", "bucket name %r must be [a-z0-9.-] and begin/end alphanumeric" % b
    if ".." in b or re.match(r"^\d+\.\d+\.\d+\.\d+$", b):
        return "bucket-name-dots", "bucket name %r has adjacent dots / looks like an IP address" % b
    if b.startswith(("xn--", "sthree-", "amzn-s3-demo-")) or b.endswith(("--ol-s3", ".mrap", "--x-s3", "--table-s3")):
        return "bucket-name-reserved-affix", "bucket name %r uses a reserved prefix/suffix" % b
    return None


# ---------------------------------------------------------------- generators
NAMES = ["demo", "prod-eu", "a", "kafscale", "a-b-c", "My_Cluster", " demo ", "", "ÉCOLE", "demo.v2", "UPPER", "---", "a--b",
         "x" * 60, "n" * 63, "é" * 40, "__x__", "0", "team/alpha", "a b", "s3alias", "\tdemo\n", "ns", "default", "kafka-1",
         "Ünï-cødé", "a.b.c.d", "-lead", "trail-", "主题", "   "]


def boundary_name(rng):
    """names whose sanitised bucket lands around the 63-character cut, with separators near it"""
    la = rng.range(38, 52)
    sep = rng.choice(["-", "_", "--", ".", "__", " ", "-_-", ""])
    tail = rng.choice(["", "b", "bb", "bbbb", "b" * 20, "B" * 3, "-", "_b_"])
    return rng.choice(["a", "A", "z9"]) * la if rng.chance(1, 6) else ("a" * la + sep + tail)


def gen_name(rng):
    r = rng.below(10)
    if r < 5:
        return rng.choice(NAMES)
    if r < 8:
        return boundary_name(rng)
    n = rng.range(1, 260)
    alphabet = "abcxyz019-_. AZÉ"
    return "".join(rng.choice(alphabet) for _ in range(n))


DNS_NAMES = ["demo", "prod-eu", "a", "kafscale", "a-b-c", "k8s-cluster-01", "x" * 40, "team1"]
# r3: `<name>-broker-headless` is 16 characters longer than the cluster name, so it crosses the 63-character DNS-label limit
# at name length 47/48.  Kubernetes object names are DNS subdomains (<= 253 characters, '.' allowed), so such names are CRD-valid.
HEADLESS_SUFFIX_LEN = len("-broker-headless")
LABEL_MAX = 63
LONG_LENGTHS = [40, 44, 45, 46, 47, 48, 49, 50, 52, 55, 60, 62, 63, 64, 65, 70, 100, 180, 237, 253]
FIXED_LONG_NAMES = (["a" * n for n in (46, 47, 48, 49, 50, 52, 63, 64, 100)] +
                    ["a" * 46 + "-" + "b" * 5, "a" * 45 + "-." + "b" * 5, "a" * 46 + "." + "b" * 3, "a" * 47 + "-b", "a" * 44 + "---" + "b" * 9,
                     "k8s-" + "prod-eu-west-1-" * 3 + "kafka", "team.alpha." + "x" * 40 + ".v2"])
K8S_NAME_RE = re.compile(r"^[a-z0-9]([-a-z0-9.]*[a-z0-9])?$")


def k8s_name_ok(s):
    return 0 < len(s) <= 253 and bool(K8S_NAME_RE.match(s))


def long_dns_name(rng):
    """k8s-valid cluster names with lengths around (and far beyond) 47, with '-' / '.' around the 47th character"""
    n = rng.choice(LONG_LENGTHS) if rng.chance(2, 3) else rng.range(40, 70)
    if rng.chance(1, 3):
        chars = [rng.choice("abcxyz019")] * n
    else:
        chars = [rng.choice("abcdefxyz0189") for _ in range(n)]
    if rng.chance(2, 3):
        for _ in range(rng.range(1, 3)):
            pos = rng.range(42, 50)
            if 0 < pos < n - 1:
                chars[pos] = rng.choice("--.")
    return "".join(chars)

DNS_NS = ["default", "kafka", "ns-1", "prod", "a"]
HOSTS = ["", "", "broker.example.com", " 10.0.0.7 ", "  ", "kafka.local", "LB.Example.COM", "\tlb\n"]
REPLICAS = ["1", "1", "2", "3", "3", "5", "7", "16", "40"]
BAD_REPLICAS = ["nil", "0", "-3"]
PORTS = ["nil", "nil", "9092", "19092", "443", "0", "-1", "65535"]
PARTS = [1, 1, 2, 3, 4, 8, 16, 33, 64, 0]
TOPICS = ["orders", "payments", "t", "a.b", "Orders", "__consumer_offsets", "x" * 30, "主题", "o-1", "o_1"]


def gen_md(rng, dns=False):
    r = rng.below(8)
    if dns:
        name = rng.choice(DNS_NAMES) if r < 3 else long_dns_name(rng)
    else:
        name = rng.choice(DNS_NAMES) if r < 4 else long_dns_name(rng) if r < 6 else gen_name(rng)
    ns = rng.choice(DNS_NS) if dns or rng.chance(3, 4) else gen_name(rng)
    rep = rng.choice(REPLICAS) if dns or rng.chance(7, 8) else rng.choice(BAD_REPLICAS)
    host = rng.choice(HOSTS)
    port = rng.choice(PORTS)
    topics = []
    for _ in range(rng.choice([0, 1, 1, 2, 3, 5])):
        p = rng.choice(PARTS) if rng.chance(19, 20) else -rng.range(1, 3)
        topics.append((rng.choice(TOPICS), p))
    return name, ns, rep, host, port, topics


def md_line(kind, c):
    name, ns, rep, host, port, topics = c
    head = "%s %s %s %s %s %s" % (kind, hx(name), hx(ns), rep, hx(host), port)
    if kind == "dep":
        return head
    return head + " " + (",".join("%s:%d" % (hx(t), p) for t, p in topics) or "-")


# ---------------------------------------------------------------- monitors
def parse_md(o):
    kv = dict(x.split("=", 1) for x in o.split()[1:])
    brokers = []
    for b in [x for x in kv["brokers"].split(",") if x]:
        nid, rest = b.split("@")
        h, port = rest.rsplit(":", 1)
        brokers.append((int(nid), unhx(h), int(port)))
    topics = []
    for t in re.findall(r"([0-9a-f-]+)\[([^\]]*)\]", kv.get("topics", "")):
        parts = []
        for p in [x for x in t[1].split(";") if x]:
            pid, leader, reps, isr = p.split("/")
            parts.append((int(pid), int(leader), [int(x) for x in reps.split(".") if x], [int(x) for x in isr.split(".") if x]))
        topics.append((unhx(t[0]), parts))
    return int(kv["ctrl"]), brokers, topics


def monitor_md(c, o, deployed=None):
    """c = generated spec; o = implementation line.  CRD-valid specs only.  Returns (fp, what) or None."""
    name, ns, rep, host, port, topics = c
    if rep in BAD_REPLICAS or any(p < 0 for _, p in topics):
        return None
    r = int(rep)
    if o == "panic":
        return "metadata-build-panics", "BuildClusterMetadata panicked on a CRD-valid spec"
    ctrl, brokers, mtopics = parse_md(o)
    if len(brokers) != r:
        return "broker-count-differs-from-replicas", "spec has %d broker replicas, metadata lists %d brokers" % (r, len(brokers))
    ids = [b[0] for b in brokers]
    if ids != list(range(r)):
        return "broker-ids-not-0-to-r-1", "broker node ids %r for %d replicas" % (ids, r)
    wantport = int(port) if port != "nil" and int(port) > 0 else 9092
    sts = deployed["sts"] if deployed else name + "-broker"
    svc = deployed["svc"] if deployed else name + "-broker-headless"
    adv = go_trim(host)
    for (i, h, p) in brokers:
        want = "%s-%d.%s.%s.svc.cluster.local" % (sts, i, svc, ns) if (r > 1 or adv == "") else adv
        if h != want:
            return "broker-host-not-stable-pod-address", "broker %d advertised as %r, pod address is %r" % (i, h, want)
        if p != wantport:
            return "broker-port-wrong", "broker %d port %d, expected %d" % (i, p, wantport)
    if deployed:
        if deployed["replicas"] != r:
            return "statefulset-replicas-differ-from-metadata", "StatefulSet has %d replicas, metadata %d brokers" % (deployed["replicas"], r)
        if not deployed["headless"]:
            return "governing-service-not-headless", "StatefulSet serviceName %r is not a headless Service" % svc
        if deployed.get("env") is not None and deployed["env"] != svc:
            return "broker-service-env-differs-from-governing-service", "pods get KAFSCALE_BROKER_SERVICE=%r, StatefulSet serviceName is %r" % (deployed["env"], svc)
    if ctrl not in ids:
        return "controller-not-a-broker", "controller id %d not among brokers" % ctrl
    if [t for t, _ in mtopics] != [t for t, _ in topics]:
        return "topics-differ", "topics %r vs spec %r" % ([t for t, _ in mtopics], [t for t, _ in topics])
    for (t, n), (_, parts) in zip(topics, mtopics):
        if [p[0] for p in parts] != list(range(n)):
            return "partition-ids-not-dense", "topic %r with %d partitions has ids %r" % (t, n, [p[0] for p in parts][:20])
        for (pid, leader, reps, isr) in parts:
            if leader not in ids:
                return "leader-not-a-listed-broker", "topic %r partition %d leader %d, brokers %r" % (t, pid, leader, ids)
            if sorted(reps) != ids or sorted(isr) != ids:
                return "replicas-not-the-broker-set", "topic %r partition %d replicas %r isr %r" % (t, pid, reps, isr)
    return None


def run_lines(ck, binary, ops, tag):
    fn = ck.path("ops_%s.txt" % tag)
    open(fn, "w").write("\n".join(ops) + "\n")
    rc, out, err = ck.run_bin(binary, stdin_path=fn)
    impl = out.split("\n")[:-1]
    if rc != 0 or len(impl) != len(ops):
        return None, fn, "impl rc=%s answered %d/%d lines %s" % (rc, len(impl), len(ops), err[-500:])
    return impl, fn, None


def run(ck):
    bins = ck.build_all()
    if bins is None:
        return
    binary = bins["h"]
    q = ck.quick()
    ck.cov["rule"] = ("one case = one op line: `md` (cluster spec + topic set through BuildClusterMetadata), every md is preceded by the `dep` line of the same "
                      "spec (StatefulSet/Service reconcilers on a fake API server; names up to 253 characters, dense around 47), `bk` (namespace,name -> default bucket), `san` (raw -> sanitizeBucketName); "
                      "non-trivial: md with >=2 brokers and >=1 partition, bucket inputs that need sanitising or cutting; distinct = distinct op lines")
    ops, meta = [], []
    # fixed regression inputs first: the pre-fix defect and the cut boundary
    for ns, name in [("default", "a" * 60), ("ns", "a" * 46 + "-b"), ("ns", "a" * 45 + "-bbbb"), ("n" * 63, "x" * 253),
                     ("", ""), ("", "demo"), ("prod", ""), (" Prod ", "My_Cluster!!"), ("x", "s3alias")]:
        ops.append("bk %s %s" % (hx(ns), hx(name))); meta.append(("bk", ns, name))
    for _ in range(500 if q else 6000):
        ns = gen_name(ck.rng) if ck.rng.chance(1, 2) else ck.rng.choice(DNS_NS)
        name = gen_name(ck.rng)
        ops.append("bk %s %s" % (hx(ns), hx(name))); meta.append(("bk", ns, name))
    for _ in range(200 if q else 2500):
        raw = gen_name(ck.rng)
        if ck.rng.chance(1, 2):
            raw = "kafscale-etcd-" + raw
        ops.append("san " + hx(raw)); meta.append(("san", raw))
    def pair(c):
        # r3: EVERY md case is preceded by the `dep` line of the same spec, so its hosts are compared with the objects the real
        # reconcilers deploy for that very name/namespace (not with a formula in this file)
        ops.append(md_line("dep", c)); meta.append(("dep", c))
        ops.append(md_line("md", c)); meta.append(("md", c, len(ops) - 2))
    # fixed long-name regression inputs (independent of the seed): name lengths around 47 (= 63 - len("-broker-headless"))
    for k, name in enumerate(FIXED_LONG_NAMES):
        pair((name, DNS_NS[k % len(DNS_NS)], ["3", "2", "1", "5"][k % 4], "" if k % 3 else "broker.example.com", "nil", [("orders", 3)]))
    for _ in range(400 if q else 4000):
        pair(gen_md(ck.rng))
    for _ in range(40 if q else 300):
        pair(gen_md(ck.rng, dns=True))
    impl, fn, crash = run_lines(ck, binary, ops, "all")
    if crash:
        ck.broke("implementation harness did not answer every op", crash)
        return
    model = ck.lean_run("C39", fn)
    s3alias = 0
    first_corr = None
    for i, (op, m, io) in enumerate(zip(ops, meta, impl)):
        mo = model[i] if i < len(model) else None
        bad = None
        if m[0] in ("bk", "san"):
            b = unhx(io.split()[1]) if io.startswith("bucket ") else None
            nontrivial = b is not None and (b != (m[1] if m[0] == "san" else "") and (len(b) >= 60 or "-" in b))
            ck.case(op, nontrivial=nontrivial, sample={"op": op, "input": list(m[1:]), "bucket": b} if i % 97 == 0 else None)
            ck.count("bucket_lines")
            if b is None:
                bad = ("bucket-derivation-crashed", "no bucket name returned: %s" % io)
            elif m[0] == "bk":
                bad = bucket_problem(b)
                if bad is None and not b.startswith("kafscale-etcd"):
                    bad = ("bucket-name-lost-prefix", "bucket %r does not start with kafscale-etcd" % b)
                if b.endswith("-s3alias"):
                    s3alias += 1
                if len(b) == 63:
                    ck.count("bucket_cut_to_63")
            else:
                # sanitizeBucketName on arbitrary input: everything but the minimum length (only the prefixed callers guarantee it)
                bad = bucket_problem(b) if len(b) >= 3 else None
        elif m[0] == "md":
            c = m[1]
            dep = None
            if m[2] is not None and impl[m[2]].startswith("deployed "):
                kv = dict(x.split("=", 1) for x in impl[m[2]].split()[1:])
                dep = {"sts": unhx(kv["sts"]), "svc": unhx(kv["svc"]), "replicas": int(kv["replicas"]), "headless": unhx(kv["headless"]),
                       "env": unhx(kv["env"]) if "env" in kv else None}
                ck.count("md_checked_against_deployed_objects")
                n = len(c[0])
                ck.count("md_vs_deployed_name_len_" + ("le40" if n <= 40 else "41_47" if n <= 47 else "48_63" if n <= 63 else "ge64"))
                if len(dep["svc"]) > LABEL_MAX:
                    # residual of the unchanged code (noted, never alarmed): the Service name is not a valid DNS label
                    ck.count("residual_headless_service_name_longer_than_63")
            elif m[2] is not None and k8s_name_ok(c[0]) and k8s_name_ok(c[1]):
                bad = ("reconciler-failed", "broker reconcilers failed on a valid spec: %s" % impl[m[2]])
            elif m[2] is not None:
                ck.count("md_name_not_deployable_on_fake_api_server")
            valid = c[2] not in BAD_REPLICAS and all(p >= 0 for _, p in c[5])
            ck.count("md_crd_valid" if valid else "md_crd_invalid")
            ck.case(op, nontrivial=valid and int(c[2]) >= 2 and any(p > 0 for _, p in c[5]),
                    sample={"op": op, "impl": io[:300]} if i % 89 == 0 else None)
            try:
                bad = bad or monitor_md(c, io, dep)
            except Exception as e:
                bad = ("metadata-line-unparsable", "%r on %s" % (e, io[:200]))
        else:
            # `dep`: what the real reconcilers deployed vs the model of cluster_controller.go's naming
            ck.case(op, nontrivial=len(m[1][0]) > LABEL_MAX - HEADLESS_SUFFIX_LEN)
            ck.count("dep_lines")
            if io == "err" and not (k8s_name_ok(m[1][0]) and k8s_name_ok(m[1][1])):
                continue  # the fake API server refused a name no real API server would have admitted either
            if io != mo and first_corr is None:
                first_corr = (op, io, mo, m)
            continue
        ck.cov["traces_validated_against_impl"] += 1
        if bad:
            rep_ops = [ops[m[2]], op] if m[0] == "md" and m[2] is not None else [op]
            ck.violation(bad[0], bad[1], {"ops": rep_ops, "input": repr(m[1:]), "impl": io[:2000],
                                          "spec": list(m[1]) if m[0] == "md" else None,
                                          "expected": "property monitor true", "actual": bad[1]})
        elif io != mo and first_corr is None:
            first_corr = (op, io, mo, m)
    if first_corr and not ck.violations:
        op, io, mo, m = first_corr
        ck.cov["disagreements_checked"] += 1
        ck.broke("correspondence model/implementation (%s)" % ({"md": "BuildClusterMetadata", "dep": "StatefulSet/headless Service naming"}.get(m[0], "bucket name derivation")),
                 "op %s\ninput %r\nimpl : %s\nmodel: %s" % (op, m[1:], io[:1500], (mo or "")[:1500]))
    if s3alias:
        ck.notes.append("%d generated bucket names end with the reserved suffix '-s3alias' (cluster named ...s3alias); not guaranteed by the code, not claimed" % s3alias)


def replay(ck, path):
    import json
    rep = json.load(open(path))
    bins = ck.build_all()
    if bins is None:
        return
    ops = rep["ops"]
    impl, fn, crash = run_lines(ck, bins["h"], ops, "replay")
    if crash:
        ck.broke("replay harness", crash)
        return
    for o, r in zip(ops, impl):
        print("  %-70s -> %s" % (o[:70], r[:200]))
    ck.case(tuple(ops), sample={"ops": ops})
    ck.cov["distinct_nontrivial"] = max(ck.cov["distinct_nontrivial"], 2)
    for o, r in zip(ops, impl):
        if o.startswith(("bk ", "san ")) and r.startswith("bucket "):
            b = unhx(r.split()[1])
            bad = bucket_problem(b) if (o.startswith("bk ") or len(b) >= 3) else None
            if bad:
                ck.violation(bad[0], bad[1], {"ops": ops, "actual": bad[1]})
    if rep.get("spec"):
        c = rep["spec"]
        c = (c[0], c[1], c[2], c[3], c[4], [tuple(t) for t in c[5]])
        dep = None
        if len(ops) == 2 and impl[0].startswith("deployed "):
            kv = dict(x.split("=", 1) for x in impl[0].split()[1:])
            dep = {"sts": unhx(kv["sts"]), "svc": unhx(kv["svc"]), "replicas": int(kv["replicas"]), "headless": unhx(kv["headless"]),
                       "env": unhx(kv["env"]) if "env" in kv else None}
        bad = monitor_md(c, impl[-1], dep)
        if bad:
            ck.violation(bad[0], bad[1], {"ops": ops, "spec": rep["spec"], "actual": bad[1]})
